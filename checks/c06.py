"""C06 — deterministic, schedule-independent, race-free linting.

Lean (lean/Verif/C06): an LTS model of one instance of the action scheduler of
lintcmd/runner (`Run` / `runAnalyzers` dispatcher loop, `genericHandle`,
`DecrementPending`, the shared `Semaphore`, the inline path) with theorems for all action
graphs, capacities and interleavings (exactly once, only after the dependencies, capacity,
no deadlock + termination measure, results = bottom-up evaluation of the graph, the
happens-before chain), and a model of collect/sort/de-duplicate of `printDiagnostics`
(the printed list does not depend on the order of delivery, whatever algorithm sorts), and a
literal model of the loops of `filterIgnored` (which directives are reported as useless and which
problems are ignored does not depend on the order in which the directives are visited).

Ties, checked on every run against the current tree:
  X-trace  the real `staticcheck` (built with -tags verif) logs every scheduling point of a
           real run (VERIF_C06_TRACE); every instance (the package level and one per
           analysed package) is replayed through the compiled model, which must admit
           every event, end in a final state, reproduce the failed flags, and see a
           well-formed graph (`Dag.wfB`, the hypothesis of the theorems).
  X-sort   lists of problems (the real ones of a run, decoded from `-f binary`, and crafted
           ones with ties in every prefix of the comparator) are fed in permuted orders to
           the real `staticcheck -merge`; the printed order is compared with the model.
  X-ignore the source text of the two loops of lintcmd.filterIgnored must read as the loops modelled
           in Directives.lean (every directive is matched against every problem).
Oracle on the real code: first a fixed corpus of three hand-written modules (corpus/C06/fixed: copied
helpers.go in twin packages x pattern subsets; overlapping file/line directives x 14 cold-cache
repetitions; a package on which 20 analyzers report 1080 problems x GOMAXPROCS sweep against a
single worker + the -race build), then on generated modules: stdout/exit status byte-identical across repeated runs x
GOMAXPROCS x seeded yields x orders of the patterns; the problems of a package identical
whichever other packages are named; no report of the race detector from a `-race` build
(run-time evidence only).
"""
import hashlib
import json
import os
import re
import shutil
import tarfile
import io
from concurrent.futures import ThreadPoolExecutor

import vlib

MODULES = ["Verif.C06.Theorems"]
THEOREMS = [
    "Verif.C06.exactly_once",
    "Verif.C06.starts_after_deps",
    "Verif.C06.hb_write_before_read",
    "Verif.C06.capacity",
    "Verif.C06.no_deadlock",
    "Verif.C06.no_send_on_closed_queue",
    "Verif.C06.terminates",
    "Verif.C06.stuck_is_final",
    "Verif.C06.inline_send_never_blocks",
    "Verif.C06.results_schedule_independent",
    "Verif.C06.two_runs_same_results",
    "Verif.C06.result_depends_only_on_cone",
    "Verif.C06.failed_iff",
    "Verif.C06.less_strict_total",
    "Verif.C06.sorted_output_unique",
    "Verif.C06.printed_perm_invariant",
    "Verif.C06.printed_delivery_independent",
    "Verif.C06.directives_order_independent",
    "Verif.C06.directive_reported_iff",
    "Verif.C06.skip_variant_order_dependent",
]
CORPUS = os.path.join(vlib.VERIF, "corpus", "C06")
STD_IMPORTS = ["errors", "fmt", "sort", "strings", "testing"]
WORKERS = 5


# --------------------------------------------------------------------------- module generator
def gen_module(rng, name, npk, std, broken):
    """A module of `npk` packages forming a DAG with cross-package fact producers/consumers
    (deprecation SA1019, purity SA4017, typed-nil SA4023), U1000 material, linter directives
    (matching, useless, file level, several checks), several problems on one line.
    std: packages import std packages and have tests. broken: one package does not type-check
    and another one imports it."""
    files = {"go.mod": "module example.com/%s\n\ngo 1.22\n" % name}
    pk = ["p%d" % i for i in range(npk)]
    deps = {}
    for i in range(npk):
        # a wide graph: two leaves, siblings (same dependencies as an earlier package, hence
        # independent of it), diamonds -- so that package actions really run concurrently
        if i < 2:
            ds = set()
        elif rng.chance(1, 3):
            ds = set(deps[1 + rng.below(i - 1)]) or {0}
        else:
            ds = set()
            for _ in range(1 + rng.below(3)):
                ds.add(rng.below(i))
        deps[i] = sorted(ds)
    meta = {"packages": pk, "deps": {pk[i]: [pk[j] for j in deps[i]] for i in range(npk)}, "std": std, "broken": broken}
    for i in range(npk):
        imp = ['\t"example.com/%s/%s"' % (name, pk[j]) for j in deps[i]]
        stdimp = []
        body = []
        use = ["\ts := %d" % i]
        for j in deps[i]:
            k = rng.below(6)
            if k == 0:
                use.append("\ts += %s.Old%d()" % (pk[j], j))
            elif k == 1:
                use.append("\t%s.Pure%d(s)" % (pk[j], j))
            elif k == 2:
                use.append("\tif %s.Typed%d() != nil {\n\t\ts++\n\t}" % (pk[j], j))
            elif k == 3:
                use.append("\t//lint:ignore SA1019 still needed here\n\ts += %s.Old%d()" % (pk[j], j))
            elif k == 4:
                use.append("\t%s.Pure%d(%s.Old%d())" % (pk[j], j, pk[j], j))  # two problems, one line
            else:
                use.append("\t//lint:ignore SA1019,SA4017 both on this line\n\t%s.Pure%d(%s.Old%d())" % (pk[j], j, pk[j], j))
            use.append("\ts += %s.New%d()" % (pk[j], j))
        if rng.chance(1, 2):
            use.append("\t//lint:ignore SA4006 nothing is wrong on the next line\n\ts++")
        if rng.chance(1, 2):
            use.append("\ts = s")  # SA4018
        if std and rng.chance(2, 3):
            stdimp.append('\t"strings"')
            use.append('\tif strings.Contains("abc", "b") {\n\t\ts++\n\t}')
            if rng.chance(1, 2):
                use.append('\ts += len(strings.Title("x"))')  # SA1019 from std facts
        if std and rng.chance(1, 3):
            stdimp.append('\t"fmt"')
            use.append('\tfmt.Sprintf("%d", s)')  # SA4017-like (purity of fmt.Sprintf) / unused result
        use.append("\treturn s")
        body.append("// Old%d is the old way.\n//\n// Deprecated: use New%d.\nfunc Old%d() int { return %d }\n" % (i, i, i, i))
        body.append("// New%d is the new way.\nfunc New%d() int { return %d }\n" % (i, i, i + 1))
        body.append("// Pure%d has no side effects.\nfunc Pure%d(x int) int { return x*2 + %d }\n" % (i, i, i))
        body.append("type Err%d struct{}\n\nfunc (*Err%d) Error() string { return \"e%d\" }\n" % (i, i, i))
        body.append("// Typed%d never returns an untyped nil.\nfunc Typed%d() error {\n\tvar e *Err%d\n\treturn e\n}\n" % (i, i, i))
        body.append("// Use%d uses the dependencies.\nfunc Use%d() int {\n%s\n}\n" % (i, i, "\n".join(use)))
        src = "// Package %s is generated.\npackage %s\n\n" % (pk[i], pk[i])
        if imp or stdimp:
            src += "import (\n" + "\n".join(sorted(set(stdimp)) + imp) + "\n)\n\n"
        src += "\n".join(body)
        files["%s/%s.go" % (pk[i], pk[i])] = src
        # second file: U1000 material
        u = ["package %s\n" % pk[i]]
        if rng.chance(1, 4):
            u.insert(0, "//lint:file-ignore U1000 generated file\n")
        u.append("func unused%d() {}\n" % i)
        u.append("type unusedT%d struct {\n\tf int\n\tg string\n}\n" % i)
        u.append("type usedT%d struct {\n\ta int\n\tb int\n}\n\nfunc mk%d() usedT%d { return usedT%d{a: 1} }\n\n// Mk%d is exported.\nfunc Mk%d() int { return mk%d().a }\n" % (i, i, i, i, i, i, i))
        # same file name, same lines, same field names in every package; which field is used alternates
        u.append("type pair%d struct {\n\tx int\n\ty int\n}\n\n// Pair%d is exported.\nfunc Pair%d() int { return pair%d{}.%s }\n" % (i, i, i, i, "x" if i % 2 == 0 else "y"))
        u.append("var testOnly%d = %d\n" % (i, i))
        u.append("const (\n\tc%da = iota\n\tc%db\n)\n" % (i, i))
        files["%s/extra.go" % pk[i]] = "\n".join(u)
        if std and rng.chance(2, 3):
            files["%s/%s_test.go" % (pk[i], pk[i])] = (
                "package %s\n\nimport \"testing\"\n\nfunc TestUse%d(t *testing.T) {\n\tif Use%d()+testOnly%d < 0 {\n\t\tt.Fatal(\"neg\")\n\t}\n}\n\nfunc helper%d() {}\n"
                % (pk[i], i, i, i, i))
            if rng.chance(1, 2):
                files["%s/x_test.go" % pk[i]] = (
                    "package %s_test\n\nimport (\n\t\"testing\"\n\n\t\"example.com/%s/%s\"\n)\n\nfunc TestX%d(t *testing.T) {\n\t%s.Pure%d(1)\n\t_ = %s.Old%d()\n}\n"
                    % (pk[i], name, pk[i], i, pk[i], i, pk[i], i))
    # a command
    top = pk[-1]
    files["cmd/tool/main.go"] = (
        "package main\n\nimport \"example.com/%s/%s\"\n\nfunc helper() int { return 1 }\n\nfunc Exported() {}\n\nfunc main() {\n\tprintln(%s.Use%d())\n}\n"
        % (name, top, top, npk - 1))
    meta["packages"] = pk + ["cmd/tool"]
    meta["deps"]["cmd/tool"] = [top]
    if broken:
        files["bad/bad.go"] = "package bad\n\n// V does not type-check.\nvar V int = \"s\"\n\n// F is fine.\nfunc F() int { return undefinedName }\n"
        files["usesbad/u.go"] = ("package usesbad\n\nimport (\n\t\"example.com/%s/bad\"\n\t\"example.com/%s/p0\"\n)\n\n// G uses bad.\nfunc G() int { return bad.F() + p0.New0() }\n"
                                 % (name, name))
        # the same with a broken package that sorts behind the healthy dependency
        files["zbad/zbad.go"] = "package zbad\n\n// F does not type-check.\nfunc F() int { return \"no\" }\n"
        files["useszbad/u.go"] = ("package useszbad\n\nimport (\n\t\"example.com/%s/p0\"\n\t\"example.com/%s/zbad\"\n)\n\n// G uses zbad.\nfunc G() int { return zbad.F() + p0.New0() }\n"
                                  % (name, name))
        meta["packages"] += ["bad", "usesbad", "zbad", "useszbad"]
        meta["deps"]["bad"] = []
        meta["deps"]["usesbad"] = ["bad", "p0"]
        meta["deps"]["zbad"] = []
        meta["deps"]["useszbad"] = ["p0", "zbad"]
    return files, meta


def write_module(root, files):
    for rel, content in files.items():
        p = os.path.join(root, rel)
        os.makedirs(os.path.dirname(p), exist_ok=True)
        with open(p, "w") as f:
            f.write(content)


# --------------------------------------------------------------------------- running the real linter
class Run:
    __slots__ = ("rc", "out", "err", "trace", "cfg")


def sc_run(ctx, binary, moddir, args, procs, yseed, cache, trace=False, timeout=None, tag=""):
    if timeout is None:
        timeout = 360 if getattr(ctx, "quick", True) else 900
    env = vlib.go_env({"GOMAXPROCS": str(procs), "STATICCHECK_CACHE": cache,
                       "GORACE": "halt_on_error=0 exitcode=66"})
    env.pop("VERIF_C06_TRACE", None)
    env.pop("VERIF_C06_YIELD", None)
    if yseed:
        env["VERIF_C06_YIELD"] = str(yseed)
    tpath = None
    if trace:
        tpath = os.path.join(ctx.scratch, "trace_%s.txt" % hashlib.sha1(("%s|%s|%s|%s|%s" % (moddir, args, procs, yseed, tag)).encode()).hexdigest()[:16])
        if os.path.exists(tpath):
            os.remove(tpath)
        env["VERIF_C06_TRACE"] = tpath
    import subprocess
    try:
        rc, so, se = vlib.run([binary] + args, cwd=moddir, env=env, timeout=timeout)
    except subprocess.TimeoutExpired:
        # Slow machine or deadlock?  Same configuration once more (fresh trace file, same cache
        # directory) with four times the budget; a run that still does not end is a deadlock
        # (or livelock) of the scheduler.
        if tpath and os.path.exists(tpath):
            os.remove(tpath)
        try:
            rc, so, se = vlib.run([binary] + args, cwd=moddir, env=env, timeout=4 * timeout)
            notes = getattr(ctx, "notes", None)
            if notes is not None:
                notes.append("a run exceeded %d s and was repeated: %s GOMAXPROCS=%s yield=%s" % (timeout, args, procs, yseed))
        except subprocess.TimeoutExpired as e:
            rc, so = -9, (e.stdout or b"").decode(errors="replace") if isinstance(e.stdout, bytes) else (e.stdout or "")
            se = "fatal error: timeout after %d s and again after %d s (the run did not terminate)" % (timeout, 4 * timeout)
    r = Run()
    r.rc, r.out, r.err = rc, so, se
    r.trace = open(tpath).read() if tpath and os.path.exists(tpath) else None
    if tpath and os.path.exists(tpath):
        os.remove(tpath)
    r.cfg = {"args": args, "GOMAXPROCS": procs, "VERIF_C06_YIELD": yseed, "trace": bool(trace), "binary": os.path.basename(binary)}
    return r


def fresh_cache(ctx, warm, tag):
    """A cache directory in which the std facts are warm but nothing of the module under
    test is: a copy of the warmed directory (or an empty one)."""
    d = os.path.join(ctx.scratch, "cache_" + tag)
    if os.path.exists(d):
        shutil.rmtree(d)
    if warm:
        shutil.copytree(warm, d)
    else:
        os.makedirs(d)
    return d


CRASH = re.compile(r"^panic: |fatal error: |^goroutine \d+ \[|all goroutines are asleep", re.M)


# --------------------------------------------------------------------------- trace -> model
def parse_trace(text):
    rows = []
    for ln in text.split("\n"):
        if not ln:
            continue
        f = ln.split("\t")
        if len(f) != 6:
            raise ValueError("malformed trace line %r" % ln)
        rows.append(f)
    return rows


def trace_lines(text, procs):
    """One model input line per scheduler instance of the traced run.
    Returns (list of dict(inst, kind, line, flags, n, names, order)), problems)."""
    rows = parse_trace(text)
    insts = {}
    order = []
    for idx, (kind, inst, a, t, flag, deps) in enumerate(rows):
        d = insts.get(inst)
        if d is None:
            d = insts[inst] = {"inst": inst, "buffered": False, "names": {}, "deps": {}, "trig": {}, "flag": {}, "rows": [], "pkg": None}
            order.append(inst)
        if kind == "inst":
            d["buffered"] = True
            d["pkg"] = a
            continue
        d["rows"].append(idx)
        if kind == "recv":
            if a in d["names"]:
                return None, ["instance %s: action %s received twice" % (inst, a)]
            d["names"][a] = len(d["names"])
            d["deps"][a] = [x for x in deps.split(";") if x] if deps else []
        elif kind == "dec":
            d["trig"].setdefault(a, []).append(t)
        elif kind == "done":
            d["flag"][a] = flag == "1"
    out = []
    problems = []
    # global token events
    tok = []
    for idx, (kind, inst, a, t, flag, deps) in enumerate(rows):
        if kind == "start" and flag == "1":
            tok.append((idx, inst, "+"))
        elif kind == "rel":
            tok.append((idx, inst, "-"))
    for inst in order:
        d = insts[inst]
        names = d["names"]
        if not names:
            out.append({"inst": inst, "kind": "empty", "line": None})
            continue
        n = len(names) - 1
        if names.get("ROOT") != n:
            problems.append("instance %s: the root is not the last action received (%s of %d)" % (inst, names.get("ROOT"), n + 1))
            continue
        inv = sorted(names, key=lambda k: names[k])
        try:
            deps = [",".join(str(names[x]) for x in d["deps"][a]) or "-" for a in inv]
            trig = [",".join(str(names[x]) for x in d["trig"].get(a, [])) or "-" for a in inv]
        except KeyError as e:
            problems.append("instance %s: dependency/trigger %s was never received" % (inst, e))
            continue
        flags = [d["flag"].get(a) for a in inv]
        if flags[-1] is None:
            flags[-1] = False  # the process may exit before the root's handler logs `done`
        if any(f is None for f in flags):
            problems.append("instance %s: action without `done`: %s" % (inst, [a for a, f in zip(inv, flags) if f is None][:3]))
            continue
        own = []
        for a, fl in zip(inv, flags):
            depfail = any(d["flag"].get(x) for x in d["deps"][a])
            own.append("1" if (fl and not depfail) else "0")
        # events of this instance + token events of the others, in logged order
        mine = set(d["rows"])
        first, last = d["rows"][0], d["rows"][-1]
        env0 = 0
        evs = []
        ti = 0
        # tokens of others before the first own event
        for (idx, i2, sign) in tok:
            if idx >= first:
                break
            if i2 != inst:
                env0 += 1 if sign == "+" else -1
        for idx in range(first, last + 1):
            kind, i2, a, t, flag, _ = rows[idx]
            if i2 != inst:
                if kind == "start" and flag == "1":
                    evs.append(("+", None, None))
                elif kind == "rel":
                    evs.append(("-", None, None))
                continue
            if kind == "recv":
                evs.append(("r", names[a], None))
            elif kind == "start":
                evs.append(("s" if flag == "1" else "i", names[a], None))
            elif kind == "done":
                evs.append(("x", names[a], None))
            elif kind == "rel":
                evs.append(("l", names[a], None))
            elif kind == "dec":
                evs.append(("d", names[a], names.get(t, -1)))
            elif kind == "sent":
                evs.append(("n", names[a], names.get(t, -1)))
            elif kind == "end":
                evs.append(("f", names[a], None))
            else:
                problems.append("instance %s: unknown point %s" % (inst, kind))
        # The hook logs `dec` before the atomic decrement. The decrement that reached zero (the
        # one followed by `sent`) was the last real one, so its linearisation point is moved
        # behind the last logged decrement of the same target (still before its `sent`).
        lastdec = {}
        for k, (c, a, t) in enumerate(evs):
            if c == "d":
                lastdec[t] = k
        key = list(range(len(evs)))
        moves = 0
        for p, (c, a, t) in enumerate(evs):
            if c != "n":
                continue
            q = p - 1
            while q >= 0 and evs[q] != ("d", a, t):
                q -= 1
            if q >= 0 and lastdec.get(t, q) != q:
                key[q] = lastdec[t] + 0.5  # only this one decrement of the sender (there may be parallel edges)
                moves += 1
        evs = [e for (_, _, e) in sorted((key[k], k, evs[k]) for k in range(len(evs)))]
        toks = []
        for (c, a, t) in evs:
            if c in "+-":
                toks.append(c)
            elif c in "dn":
                toks.append("%s%d,%d" % (c, a, t))
            else:
                toks.append("%s%d" % (c, a))
        line = "trace %d %d %d %d D %s T %s F %s E %s" % (procs, 1 if d["buffered"] else 0, max(env0, 0), n,
                                                         " ".join(deps), " ".join(trig), "".join(own), " ".join(toks))
        execs = ",".join(str(a) for (c, a, t) in evs if c == "x")
        out.append({"inst": inst, "kind": "buffered" if d["buffered"] else "run", "pkg": d["pkg"], "line": line,
                    "flags": "".join("1" if f else "0" for f in flags), "n": n, "names": inv, "order": execs,
                    "inline": sum(1 for (c, a, t) in evs if c == "i"), "moved": moves})
    return out, problems


# --------------------------------------------------------------------------- sort tie (-merge)
def diag_token(d):
    h = vlib.hexs
    return ",".join([h(d["file"]), str(d["off"]), str(d["line"]), str(d["col"]), h(d["efile"]), str(d["eoff"]),
                     str(d["eline"]), str(d["ecol"]), h(d["cat"]), h(d["msg"]), str(d["sev"]), str(d["mergeif"]),
                     h(d["build"]), h(d.get("rest", ""))])


def unhex(s):
    return "" if s == "-" else bytes.fromhex(s).decode()


def model_tuple_from_token(tok):
    f = tok.split(",")
    return (unhex(f[8]), unhex(f[0]), int(f[2]), int(f[3]), unhex(f[4]), int(f[6]), int(f[7]), unhex(f[9]))


def json_tuples(stdout):
    out = []
    for ln in stdout.splitlines():
        j = json.loads(ln)
        out.append((j["code"], j["location"]["file"], j["location"]["line"], j["location"]["column"],
                    j["end"]["file"], j["end"]["line"], j["end"]["column"], j["message"]))
    return out


def crafted_lists(rng, count):
    """Lists of problems with ties in every prefix of the comparator: each element differs
    from a base problem in exactly one or two fields."""
    fields = ["file", "line", "col", "msg", "cat", "efile", "eline", "ecol", "off", "eoff"]
    lists = []
    for k in range(count):
        base = {"file": "a/f%d.go" % rng.below(2), "off": 100, "line": 10, "col": 5, "efile": "a/f0.go", "eoff": 120, "eline": 10,
                "ecol": 9, "cat": "SA%d" % (1000 + rng.below(3)), "msg": "m%d" % rng.below(3), "sev": 0, "mergeif": 0, "build": "", "rest": ""}
        ds = [dict(base)]
        seen = {json.dumps(base, sort_keys=True)}
        nvar = 3 + rng.below(10)
        for _ in range(nvar):
            d = dict(rng.choice(ds))
            for _ in range(1 + rng.below(2)):
                f = rng.choice(fields)
                if f in ("file", "efile"):
                    d[f] = "a/f%d.go" % rng.below(3)
                elif f == "msg":
                    d[f] = rng.choice(["m0", "m1", "m2", "M0", "m", "m10"])
                elif f == "cat":
                    d[f] = rng.choice(["SA1000", "SA1001", "S1000", "ST1000", "U1000", "sa1000"])
                else:
                    d[f] = max(0, d[f] + rng.choice([-3, -1, 1, 2, 10]))
            key = json.dumps(d, sort_keys=True)
            if key not in seen:
                seen.add(key)
                ds.append(d)
        lists.append(ds)
    return lists


def sort_tie(ctx, sc, gob, rng, real_lists, ncrafted, nperm, use_model=True):
    """Returns (oracle_failures, model_diffs, stats)."""
    lists = [("real%d" % i, l) for i, l in enumerate(real_lists)] + \
            [("crafted%d" % i, l) for i, l in enumerate(crafted_lists(rng.fork("crafted"), ncrafted))]
    if nperm < 2:
        raise ValueError("nperm")
    jobs = []
    for name, ds in lists:
        perms = [ds, list(reversed(ds))] + [rng.shuffle(ds) for _ in range(max(0, nperm - 2))]
        for pi, p in enumerate(perms):
            jobs.append({"id": "%s/%d" % (name, pi), "runs": [{"checked": sorted(set(d["file"] for d in p)), "diags": p}]})
    jdir = ctx.path("gob", "x")
    jdir = os.path.dirname(jdir)
    inp = "".join(json.dumps(j) + "\n" for j in jobs)
    rc, so, se = vlib.run([gob, "run", "-bin", sc, "-dir", jdir, "-j", str(WORKERS)], input=inp, env=vlib.go_env(), timeout=1800)
    if rc != 0:
        raise vlib.HarnessError("c06gob run failed: %s" % se[-2000:])
    res = {}
    for ln in so.splitlines():
        j = json.loads(ln)
        res[j["id"]] = j
    if use_model:
        model = vlib.run_model(ctx, "C06", ["sort " + " ".join(diag_token(d) for d in j["runs"][0]["diags"]) for j in jobs])
    else:
        model = [None] * len(jobs)
    oracle_fail, diffs = [], []
    nontrivial = 0
    by_list = {}
    for j, mo in zip(jobs, model):
        if mo == "bad-op":
            raise vlib.HarnessError("model rejected a sort line")
        r = res[j["id"]]
        name = j["id"].split("/")[0]
        by_list.setdefault(name, []).append((j, r, mo))
    for name, items in by_list.items():
        j0, r0, m0 = items[0]
        if r0["rc"] not in (0, 1):
            raise vlib.HarnessError("staticcheck -merge failed: rc=%s %s" % (r0["rc"], r0["stderr"][-500:]))
        outs = set(r["stdout"] for (_, r, _) in items)
        if len(outs) > 1 or len(set(r["rc"] for (_, r, _) in items)) > 1:
            a = items[0]
            b = next(x for x in items if x[1]["stdout"] != a[1]["stdout"] or x[1]["rc"] != a[1]["rc"])
            oracle_fail.append({"list": name, "delivery_1": a[0]["runs"][0]["diags"], "delivery_2": b[0]["runs"][0]["diags"],
                                "stdout_1": a[1]["stdout"], "stdout_2": b[1]["stdout"]})
        if len(j0["runs"][0]["diags"]) > 2:
            nontrivial += 1
        if m0 is None:
            continue
        real = json_tuples(r0["stdout"])
        # printDiagnostics drops ignored problems (severity 2) after the de-duplication
        mod = [model_tuple_from_token(t) for t in m0.split() if t.split(",")[10] != "2"] if m0 else []
        if real != mod:
            diffs.append({"list": name, "input": j0["runs"][0]["diags"], "real_order": real, "model_order": mod})
    return oracle_fail, diffs, {"lists": len(lists), "merge_runs": len(jobs), "nontrivial_lists": nontrivial}


# --------------------------------------------------------------------------- helpers
def tar_b64(files):
    import base64
    bio = io.BytesIO()
    with tarfile.open(fileobj=bio, mode="w:gz") as tf:
        for rel, content in sorted(files.items()):
            b = content.encode()
            ti = tarfile.TarInfo(rel)
            ti.size = len(b)
            tf.addfile(ti, io.BytesIO(b))
    return base64.b64encode(bio.getvalue()).decode()


def by_package(stdout, moddir, pkgs):
    """JSON lines grouped by the package directory of their location (the first path
    component(s) under the module root that name a package)."""
    out = {p: [] for p in pkgs}
    other = []
    for ln in stdout.splitlines():
        try:
            j = json.loads(ln)
        except ValueError:
            other.append(ln)
            continue
        f = j["location"]["file"]
        rel = os.path.relpath(f, moddir) if os.path.isabs(f) else f
        d = os.path.dirname(rel)
        if d in out:
            out[d].append(ln)
        else:
            other.append(ln)
    return out, other


def first_diff(a, b):
    la, lb = a.splitlines(), b.splitlines()
    for i in range(max(len(la), len(lb))):
        x = la[i] if i < len(la) else "<eof>"
        y = lb[i] if i < len(lb) else "<eof>"
        if x != y:
            return {"line": i + 1, "a": x[:400], "b": y[:400]}
    return None


def replay_obj(what, mod_files, meta, runs, extra=None):
    o = {"what": what, "module_tar_gz_base64": tar_b64(mod_files), "module_meta": meta,
         "how_to_replay": "unpack the module (base64 -d | tar xz), build staticcheck from the tree with `go build -tags verif ./cmd/staticcheck`, "
                          "then run it in the module directory once per entry of `runs` with the given arguments and environment "
                          "(GOMAXPROCS, VERIF_C06_YIELD, a fresh STATICCHECK_CACHE directory) and compare stdout; or: ./check C06 --replay <this file>",
         "runs": runs}
    if extra:
        o.update(extra)
    return o


# --------------------------------------------------------------------------- fixed corpus of real modules
FIXED = os.path.join(CORPUS, "fixed")
OVERLAP_RUNS = 14          # cold-cache repetitions of the module with overlapping directives
MANY_SWEEP = [(4, 0), (8, 0), (16, 0), (8, 101), (16, 102), (12, 0), (16, 0), (8, 0), (3, 103), (16, 104)]


def load_fixed(name):
    root = os.path.join(FIXED, name)
    files = {}
    for dp, _, fns in os.walk(root):
        for fn in fns:
            fp = os.path.join(dp, fn)
            files[os.path.relpath(fp, root)] = open(fp).read()
    if "go.mod" not in files:
        raise vlib.HarnessError("corpus/C06/fixed/%s is incomplete" % name)
    pk = sorted({os.path.dirname(r) for r in files if r.endswith(".go")})
    return files, {"packages": pk, "std": False, "broken": False, "fixed_corpus": name}


def fixed_corpus(ctx, st, sc, scrace):
    """Three hand-written modules that do not depend on the seed and run first on every tier:
    twins    two pairs of packages holding a copied helpers.go (same base name, same lines, same names; one pair
             byte-identical), every helper used in one package and unused in the other: the problems printed for a
             package must be the same in every invocation that names it (U1000 is reconciled across packages).
    overlap  files with > 8 commented nodes in which a //lint:file-ignore and a //lint:ignore cover the same
             problem (several checks, a list of checks, a glob), plus one directive per file that matches nothing
             (so that "which directives are reported as useless" is a non-empty, fixed set): OVERLAP_RUNS runs, each with an empty cache (the
             order of the directives -- the iteration order of a map -- is stored with cached results), must print
             the same bytes.
    many     three packages on each of which eight analyzers report 60 problems each, and one package (`big`) on
             which twenty analyzers report >= 40 problems each (1080 in all): a single-worker run is the reference,
             byte for byte, for a sweep over GOMAXPROCS / yields with empty caches, and for the -race build."""
    out = {}
    base_args = ["-f", "json", "-checks", "all", "-tests=false"]

    def prepare(name):
        files, meta = load_fixed(name)
        moddir = os.path.dirname(ctx.path("mods", "fixed_" + name, "go.mod"))
        write_module(moddir, files)
        return files, meta, moddir

    def runner(name, moddir):
        def go(cfg):
            (binary, args, procs, ys, tag) = cfg
            cache = fresh_cache(ctx, None, "fx_%s_%s" % (name, tag))   # empty: nothing is warm
            try:
                return sc_run(ctx, binary, moddir, args, procs, ys, cache, tag="fx" + tag)
            finally:
                shutil.rmtree(cache, ignore_errors=True)
        return go

    def crashed(name, files, meta, r):
        if r.rc in (0, 1) and not CRASH.search(r.err):
            return False
        st["oracle_failures"] += 1
        what = "the run did not terminate (deadlock)" if r.rc == -9 else "the linter crashed / failed on a module of the fixed corpus"
        ctx.violation("crash_fixed_%s.json" % name, replay_obj(what, files, meta, [r.cfg], {"rc": r.rc, "stderr": r.err[-3000:]}),
                      text="C06: %s: corpus/C06/fixed/%s, run %s: %s" % (what, name, r.cfg, r.err[-300:]))
        return True

    # ---- twins: pattern subsets
    files, meta, moddir = prepare("twins")
    pats = [["./..."], ["./a"], ["./b"], ["./a", "./b"], ["./b", "./a"], ["./x/util"], ["./y/util"], ["./x/util", "./y/util"],
            ["./y/util", "./x/util"], ["./a", "./y/util"], ["./b", "./x/util", "./a"]]
    procs = [4, 1, 1, 2, 8, 1, 1, 4, 16, 2, 3]
    cfgs = [(sc, base_args + pt, procs[k], 0, "t%d" % k) for k, pt in enumerate(pats)]
    with ThreadPoolExecutor(max_workers=WORKERS) as ex:
        res = list(ex.map(runner("twins", moddir), cfgs))
    st["runs"] += len(res)
    full = None
    twins_bad = 0
    if not any(crashed("twins", files, meta, r) for r in res):
        full, _ = by_package(res[0].out, moddir, meta["packages"])
        for cfg, r in zip(cfgs[1:], res[1:]):
            st["evaluations"] += 1
            named = [a[2:] for a in cfg[1] if a.startswith("./")]
            got, other = by_package(r.out, moddir, meta["packages"])
            bad = [p for p in named if got[p] != full[p]]
            extra = [p for p in meta["packages"] if p not in named and got[p]]
            if bad or extra or other:
                twins_bad += 1
                st["oracle_failures"] += 1
                p = (bad + extra)[0] if bad or extra else None
                ctx.violation("subset_fixed_twins_%s.json" % cfg[4], replay_obj(
                    "the problems reported for a package depend on which other packages are named", files, meta, [res[0].cfg, r.cfg], {
                        "package": p, "problems_in_full_run": full.get(p), "problems_in_subset_run": got.get(p), "rc": r.rc,
                        "unexpected_lines": other[:5], "stderr_2": r.err[-2000:]}),
                    text="C06: problems of package %s differ between `staticcheck ./...` (%d) and `staticcheck %s` (%d) in corpus/C06/fixed/twins: "
                         "full run %s, this run %s" % (p, len(full.get(p) or []), " ".join(named and cfg[1][len(base_args):]), len(got.get(p) or []),
                                                        [json.loads(l)["message"] for l in (full.get(p) or [])][:4],
                                                        [json.loads(l)["message"] for l in (got.get(p) or [])][:4]))
        # non-vacuity of the input: each twin really has helpers that only it leaves unused
        unused = {p: sorted(json.loads(l)["message"] for l in full[p] if json.loads(l)["code"] == "U1000") for p in meta["packages"]}
        out["twins_unused"] = {p: len(v) for p, v in unused.items()}
        if not (unused.get("a") and unused.get("b") and unused.get("y/util")) or unused.get("a") == unused.get("b"):
            ctx.notes.append("fixed corpus twins: the expected U1000 problems are not all there (%s); the subset oracle is weaker than intended" % unused)
    out["twins_invocations"] = len(pats)

    # ---- overlap: repetition with empty caches
    files, meta, moddir = prepare("overlap")
    cyc = [1, 2, 3, 4, 8, 16]
    cfgs = [(sc, base_args + ["./..."], cyc[k % len(cyc)], 0, "v%d" % k) for k in range(OVERLAP_RUNS)]
    with ThreadPoolExecutor(max_workers=WORKERS) as ex:
        res = list(ex.map(runner("overlap", moddir), cfgs))
    st["runs"] += len(res)
    if not any(crashed("overlap", files, meta, r) for r in res):
        outs = {}
        for r in res:
            outs.setdefault((r.rc, r.out), []).append(r)
        st["evaluations"] += len(res) - 1
        out["overlap_distinct_outputs"] = len(outs)
        if len(outs) > 1:
            st["oracle_failures"] += 1
            groups = sorted(outs.values(), key=lambda g: -len(g))
            a, b = groups[0][0], groups[1][0]
            ctx.violation("nondet_fixed_overlap.json", replay_obj(
                "output differs between two runs on the same input (GOMAXPROCS / yields / pattern order / repetition)", files, meta, [a.cfg, b.cfg], {
                    "rc": [a.rc, b.rc], "first_difference": first_diff(a.out, b.out), "distinct_outputs": len(outs),
                    "runs_per_output": [len(g) for g in groups], "stdout_1": a.out, "stdout_2": b.out,
                    "note": "each run starts from an empty cache; the difference may need several repetitions to show (map iteration order)"}),
                text="C06: %d different outputs in %d cold-cache runs of `staticcheck %s` on corpus/C06/fixed/overlap (%s): %s"
                     % (len(outs), len(res), " ".join(a.cfg["args"]), [len(g) for g in groups], first_diff(a.out, b.out)))
        else:
            # expected on a healthy tree: exactly the directives of the Plain* functions (they match nothing) are reported
            msgs = [json.loads(l) for l in res[0].out.splitlines()]
            plain = sum(f.count("func Plain") for f in files.values())
            out["overlap_useless_directives_reported"] = len(msgs)
            if len(msgs) != plain or any("didn't match anything" not in m["message"] for m in msgs):
                ctx.notes.append("fixed corpus overlap: expected the %d directives that match nothing to be reported and nothing else, got %d lines: %s"
                                 % (plain, len(msgs), res[0].out[:300]))
    out["overlap_runs"] = OVERLAP_RUNS

    # ---- many: GOMAXPROCS sweep against a single worker, -race build
    files, meta, moddir = prepare("many")
    go = runner("many", moddir)
    ref = go((sc, base_args + ["./..."], 1, 0, "ref"))
    st["runs"] += 1
    if not crashed("many", files, meta, ref):
        per_code = {}
        for ln in ref.out.splitlines():
            c = json.loads(ln)["code"]
            per_code[c] = per_code.get(c, 0) + 1
        out["many_problems_per_check"] = per_code
        if len([c for c, k in per_code.items() if k >= 100]) < 4:
            ctx.notes.append("fixed corpus many: fewer than 4 checks report >= 100 problems (%s)" % per_code)
        cfgs = [(sc, base_args + ["./..."], pr, ys, "g%d" % k) for k, (pr, ys) in enumerate(MANY_SWEEP)]
        with ThreadPoolExecutor(max_workers=3) as ex:
            res = list(ex.map(go, cfgs))
        reported = 0
        for cfg, r in zip(cfgs, res):
            st["runs"] += 1
            st["evaluations"] += 1
            if crashed("many", files, meta, r):
                continue
            if (r.rc, r.out) != (ref.rc, ref.out):
                st["oracle_failures"] += 1
                reported += 1
                if reported > 2:
                    continue
                ctx.violation("nondet_fixed_many_%s.json" % cfg[4], replay_obj(
                    "output differs between two runs on the same input (GOMAXPROCS / yields / pattern order / repetition)", files, meta, [ref.cfg, r.cfg], {
                        "rc": [ref.rc, r.rc], "lines": [len(ref.out.splitlines()), len(r.out.splitlines())],
                        "first_difference": first_diff(ref.out, r.out), "stderr_2": r.err[-2000:]}),
                    text="C06: `staticcheck ./...` on corpus/C06/fixed/many prints %d problems with GOMAXPROCS=1 and %d with GOMAXPROCS=%d yield=%d "
                         "(empty caches): %s" % (len(ref.out.splitlines()), len(r.out.splitlines()), cfg[2], cfg[3], first_diff(ref.out, r.out)))
        if scrace:
            r = go((scrace, base_args + ["./..."], 8, 0, "race"))
            st["runs"] += 1
            st["race_runs"] += 1
            st["evaluations"] += 1
            if "WARNING: DATA RACE" in r.err or r.rc == 66:
                st["oracle_failures"] += 1
                ctx.violation("race_fixed_many.json", replay_obj("the race detector reports a data race", files, meta, [r.cfg], {
                    "build": "go build -race -tags verif ./cmd/staticcheck", "report": r.err[:6000]}),
                    text="C06: data race reported on corpus/C06/fixed/many (%s): %s" % (r.cfg, r.err[:600]))
            elif not crashed("many", files, meta, r) and (r.rc, r.out) != (ref.rc, ref.out):
                st["oracle_failures"] += 1
                ctx.violation("nondet_race_fixed_many.json", replay_obj(
                    "output of the -race build differs from the baseline", files, meta, [ref.cfg, r.cfg], {
                        "rc": [ref.rc, r.rc], "first_difference": first_diff(ref.out, r.out), "stderr_2": r.err[-2000:]}),
                    text="C06: -race build output differs on corpus/C06/fixed/many (%s): %s" % (r.cfg, first_diff(ref.out, r.out)))
    out["many_sweep"] = MANY_SWEEP
    return out


# --------------------------------------------------------------------------- X-ignore (source shape of filterIgnored)
FILTER_LOOP = ("for _, ig := range ignores { for i := range diagnostics { diag := &diagnostics[i] if ig.match(*diag) { "
               "diag.Severity = severityIgnored } } if ig, ok := ig.(*lineIgnore); ok && !ig.Matched && couldHaveMatched(ig) {")


def filter_ignored_shape():
    """The loops of lintcmd.filterIgnored, white space normalised, must read exactly like the loops modelled in
    Directives.lean (outerLoop innerAll): every directive is matched against every problem, nothing in between.
    Returns None when they do, else what was found."""
    try:
        src = open(os.path.join(vlib.REPO, "lintcmd", "lint.go")).read()
    except OSError as e:
        return "lintcmd/lint.go: %s" % e
    m = re.search(r"\n\tfor _, ig := range ignores \{.*?couldHaveMatched\(ig\) \{", src, re.S)
    if not m:
        return "the loop over `ignores` was not found in lintcmd/lint.go"
    got = re.sub(r"//[^\n]*", "", m.group(0))
    got = re.sub(r"\s+", " ", got).strip()
    return None if got == FILTER_LOOP else got


# --------------------------------------------------------------------------- the check
def explore_module(ctx, st, name, files, meta, sc, scrace, warm, plan):
    """Runs the matrix for one module. st: accumulator dict."""
    moddir = ctx.path("mods", name, "go.mod")
    moddir = os.path.dirname(moddir)
    write_module(moddir, files)
    tests = ["-tests=false"] if not meta["std"] else []
    base_args = ["-f", "json", "-checks", "all"] + tests
    allpk = ["./" + p for p in meta["packages"]]
    seq = [0]

    def go(cfg):
        (binary, args, procs, ys, trace, tag) = cfg
        cache = fresh_cache(ctx, warm.get(binary), "%s_%s" % (name, tag))
        try:
            return sc_run(ctx, binary, moddir, args, procs, ys, cache, trace=trace, tag=tag)
        finally:
            shutil.rmtree(cache, ignore_errors=True)

    base = go((sc, base_args + ["./..."], 4, 0, False, "base"))
    st["runs"] += 1
    if base.rc not in (0, 1) or CRASH.search(base.err):
        ctx.violation("crash_%s.json" % name, replay_obj("the linter crashed / failed on a generated module", files, meta, [base.cfg],
                                                          {"rc": base.rc, "stderr": base.err[-3000:]}),
                      text="C06: staticcheck exit %s on generated module %s: %s" % (base.rc, name, base.err[-300:]))
        return
    nlines = len(base.out.splitlines())
    st["baseline_problems"].append(nlines)
    codes = {}
    for ln in base.out.splitlines():
        c = json.loads(ln)["code"]
        codes[c] = codes.get(c, 0) + 1
    for c, k in codes.items():
        st["codes"][c] = st["codes"].get(c, 0) + k

    cfgs = []
    for k, (procs, ys, trace) in enumerate(plan["matrix"]):
        cfgs.append((sc, base_args + ["./..."], procs, ys, trace, "m%d" % k))
    # pattern orders (all packages named, permuted) and text format
    rng = plan["rng"]
    for k in range(plan["orders"]):
        cfgs.append((sc, base_args + rng.shuffle(allpk), rng.choice([1, 2, 4, 8]), rng.below(1000) + 1, False, "o%d" % k))
    with ThreadPoolExecutor(max_workers=WORKERS) as ex:
        results = list(ex.map(go, cfgs))
    for cfg, r in zip(cfgs, results):
        st["runs"] += 1
        st["evaluations"] += 1
        if r.rc != base.rc or r.out != base.out:
            st["oracle_failures"] += 1
            if r.rc == -9:
                what = "the run did not terminate under this schedule (deadlock)"
            elif CRASH.search(r.err) or r.rc not in (0, 1):
                what = "the linter crashed / failed under this schedule"
            else:
                what = "output differs between two runs on the same input (GOMAXPROCS / yields / pattern order / repetition)"
            ctx.violation("nondet_%s_%s.json" % (name, cfg[5]), replay_obj(what, files, meta, [base.cfg, r.cfg], {
                "rc": [base.rc, r.rc], "first_difference": first_diff(base.out, r.out), "stderr_2": r.err[-2000:],
                "stdout_1": base.out, "stdout_2": r.out}),
                text="C06: %s: module %s, run %s vs baseline: %s" % (what, name, r.cfg, first_diff(base.out, r.out)))
        if r.trace is not None:
            st["traces"].append((name, r.cfg, r.trace, files, meta))

    # the other formatters: two runs under different schedules print the same bytes
    fmt_cfgs = []
    for k, fm in enumerate(plan.get("formats", [])):
        a = ["-f", fm, "-checks", "all"] + tests + ["./..."]
        fmt_cfgs.append((sc, a, 1, 0, False, "f%da" % k))
        fmt_cfgs.append((sc, a, rng.choice([3, 8, 16]), rng.below(1000) + 1, False, "f%db" % k))
    with ThreadPoolExecutor(max_workers=WORKERS) as ex:
        fmt_results = list(ex.map(go, fmt_cfgs))
    for k in range(0, len(fmt_cfgs), 2):
        ra, rb = fmt_results[k], fmt_results[k + 1]
        st["runs"] += 2
        st["evaluations"] += 1
        if ra.rc != rb.rc or ra.out != rb.out or ra.rc not in (0, 1):
            st["oracle_failures"] += 1
            ctx.violation("format_%s_%s.json" % (name, fmt_cfgs[k][1][1]), replay_obj(
                "output in format %s differs between two runs on the same input" % fmt_cfgs[k][1][1], files, meta, [ra.cfg, rb.cfg], {
                    "rc": [ra.rc, rb.rc], "first_difference": first_diff(ra.out, rb.out), "stderr_2": rb.err[-2000:]}),
                text="C06: -f %s output differs between two runs (module %s): %s" % (fmt_cfgs[k][1][1], name, first_diff(ra.out, rb.out)))

    # subsets of the patterns: the problems of a named package are those of the full run
    full, _ = by_package(base.out, moddir, meta["packages"])
    sub_cfgs = []
    for k in range(plan["subsets"]):
        sz = 1 + rng.below(max(1, len(allpk) - 1))
        sub = rng.shuffle(allpk)[:sz]
        sub_cfgs.append((sc, base_args + sub, rng.choice([1, 2, 4, 8, 16]), rng.below(1000) + 1, False, "s%d" % k))
    with ThreadPoolExecutor(max_workers=WORKERS) as ex:
        sub_results = list(ex.map(go, sub_cfgs))
    for cfg, r in zip(sub_cfgs, sub_results):
        st["runs"] += 1
        st["evaluations"] += 1
        named = [a[2:] for a in cfg[1] if a.startswith("./")]
        got, _ = by_package(r.out, moddir, meta["packages"])
        bad = [p for p in named if got[p] != full[p]]
        if bad or r.rc not in (0, 1) or CRASH.search(r.err):
            st["oracle_failures"] += 1
            p = bad[0] if bad else None
            ctx.violation("subset_%s_%s.json" % (name, cfg[5]), replay_obj(
                "the problems reported for a package depend on which other packages are named", files, meta, [base.cfg, r.cfg], {
                    "package": p, "problems_in_full_run": full.get(p), "problems_in_subset_run": got.get(p), "rc": r.rc,
                    "stderr_2": r.err[-2000:]}),
                text="C06: problems of package %s differ between `./...` and patterns %s (module %s)" % (p, named, name))

    # race detector
    race_cfgs = [(scrace, base_args + ["./..."], procs, ys, False, "r%d" % k) for k, (procs, ys) in enumerate(plan["race"])] if scrace else []
    with ThreadPoolExecutor(max_workers=max(1, WORKERS // 2)) as ex:
        race_results = list(ex.map(go, race_cfgs))
    for cfg, r in zip(race_cfgs, race_results):
        st["runs"] += 1
        st["race_runs"] += 1
        st["evaluations"] += 1
        if "WARNING: DATA RACE" in r.err or r.rc == 66:
            st["oracle_failures"] += 1
            ctx.violation("race_%s_%s.json" % (name, cfg[5]), replay_obj("the race detector reports a data race", files, meta, [r.cfg], {
                "build": "go build -race -tags verif ./cmd/staticcheck", "report": r.err[:6000]}),
                text="C06: data race reported on module %s (%s): %s" % (name, r.cfg, r.err[:400]))
        elif r.rc != base.rc or r.out != base.out:
            st["oracle_failures"] += 1
            ctx.violation("nondet_race_%s_%s.json" % (name, cfg[5]), replay_obj(
                "the run of the -race build did not terminate (deadlock)" if r.rc == -9 else
                "output of the -race build differs from the baseline", files, meta, [base.cfg, r.cfg], {
                    "rc": [base.rc, r.rc], "first_difference": first_diff(base.out, r.out), "stderr_2": r.err[-2000:]}),
                text="C06: -race build %s on module %s (%s): %s" % ("did not terminate" if r.rc == -9 else "output differs", name, r.cfg,
                                                                        first_diff(base.out, r.out)))
    return base, moddir


def check_traces(ctx, st):
    lines, metas = [], []
    for (name, cfg, text, files, meta) in st["traces"]:
        try:
            insts, problems = trace_lines(text, cfg["GOMAXPROCS"])
        except ValueError as e:
            insts, problems = None, [str(e)]
        if insts is None or problems:
            st["trace_rejects"].append({"module": name, "run": cfg, "problems": problems, "files": files, "meta": meta, "trace": text[:200000]})
            if insts is None:
                continue
        for i in insts:
            if i["line"] is None:
                st["empty_instances"] += 1
                continue
            lines.append(i["line"])
            metas.append((name, cfg, i, files, meta, text))
    if not lines:
        return
    if not st["use_model"]:
        outs = ["skipped (lean build broken)"] * len(lines)
    else:
        outs = vlib.run_model(ctx, "C06", lines)
    orders = set()
    for (name, cfg, i, files, meta, text), mo in zip(metas, outs):
        st["instances"] += 1
        st["inline_starts"] += i["inline"]
        st["moved_decs"] += i["moved"]
        st["instance_sizes"].append(i["n"] + 1)
        h = hashlib.sha1(("%s|%s|%s|%s" % (name, i["kind"], i["pkg"], i["order"])).encode()).hexdigest()
        orders.add(h)
        if not st["use_model"]:
            continue
        if len(st["samples"]) < 2 and (i["kind"] == "run" or st["samples"]):
            st["samples"].append({"module": name, "run": cfg, "instance_kind": i["kind"], "package": i["pkg"], "actions": i["n"] + 1,
                                  "model_input_prefix": i["line"][:600], "model_answer": mo[:80]})
        ok = False
        f = mo.split()
        if f and f[0] == "ok":
            # f = ok <final> <complete> <failed bits> <peak>.  The process exits without waiting for
            # handlers that are past their last decrement: `complete` is required, `final` counted.
            # The root's own failed flag is never set by genericHandle (it returns before the
            # propagation loop) and its result is not used: compared without the root.
            ok = f[2] == "1" and f[3][:-1] == i["flags"][:-1] and int(f[4]) <= cfg["GOMAXPROCS"]
            st["final_instances"] += 1 if f[1] == "1" else 0
            st["peak"] = max(st["peak"], int(f[4]))
            if "1" in i["flags"]:
                st["instances_with_failures"] += 1
        if not ok:
            st["trace_rejects"].append({"module": name, "run": cfg, "instance": i["inst"], "kind": i["kind"], "package": i["pkg"],
                                        "model_answer": mo, "expected": "ok <final> 1 %s <peak<=%d>" % (i["flags"], cfg["GOMAXPROCS"]),
                                        "action_names": i["names"], "model_input": i["line"], "files": files, "meta": meta})
    st["distinct_orders"] = len(orders)


def real_diag_list(ctx, sc, gob, moddir, meta, warm):
    """The problems of a real run, decoded from `-f binary`."""
    cache = fresh_cache(ctx, warm.get(sc), "bin")
    tests = ["-tests=false"] if not meta["std"] else []
    env = vlib.go_env({"STATICCHECK_CACHE": cache})
    p = os.path.join(ctx.scratch, "real_%s.bin" % os.path.basename(moddir))
    import subprocess
    with open(p, "wb") as f:
        pr = subprocess.run([sc, "-f", "binary", "-checks", "all"] + tests + ["./..."], cwd=moddir, env=env, stdout=f,
                            stderr=subprocess.PIPE, timeout=900)
    shutil.rmtree(cache, ignore_errors=True)
    if pr.returncode not in (0, 1):
        raise vlib.HarnessError("staticcheck -f binary failed: %s" % pr.stderr.decode()[-1000:])
    rc, so, se = vlib.run([gob, "dump", p], env=vlib.go_env(), timeout=300)
    if rc != 0:
        raise vlib.HarnessError("c06gob dump failed: " + se[-1000:])
    runs = json.loads(so.splitlines()[0])["runs"]
    ds = runs[0]["diags"]
    # one problem per descriptor (the map of runFromLintResult), duplicates must be identical
    seen = {}
    dup_diff = []
    for d in ds:
        k = json.dumps([d[x] for x in ("file", "off", "line", "col", "efile", "eoff", "eline", "ecol", "cat", "msg")])
        if k in seen and seen[k] != d:
            dup_diff.append((seen[k], d))
        seen[k] = d
    return ds, dup_diff


def run(ctx):
    import time
    phases = {}
    t_last = [time.time()]

    def lap(name):
        now = time.time()
        phases[name] = round(phases.get(name, 0) + now - t_last[0], 1)
        t_last[0] = now

    # the Lean phase and the Go builds are independent: side by side
    with ThreadPoolExecutor(max_workers=4) as ex:
        f_lean = ex.submit(vlib.std_lean_phase, ctx, MODULES, THEOREMS)
        f_sc = ex.submit(vlib.build_repo_cmd, ctx, "./cmd/staticcheck")
        f_race = None
        if os.environ.get("VERIF_C06_NORACE") != "1":
            f_race = ex.submit(vlib.build_repo_cmd, ctx, "./cmd/staticcheck", "staticcheck-race", "verif", True)
        f_gob = ex.submit(vlib.build_harness, ctx, "c06gob")
        lean_ok, lean_broke = f_lean.result()
        sc = f_sc.result()
        scrace = f_race.result() if f_race else None
        gob = f_gob.result()
    lap("lean build+audit, go builds")
    rng = vlib.SplitMix(ctx.seed).fork("c06")
    st = {"runs": 0, "evaluations": 0, "oracle_failures": 0, "race_runs": 0, "traces": [], "trace_rejects": [], "instances": 0,
          "empty_instances": 0, "inline_starts": 0, "moved_decs": 0, "instance_sizes": [], "distinct_orders": 0, "peak": 0,
          "instances_with_failures": 0, "final_instances": 0, "use_model": lean_ok, "samples": [], "baseline_problems": [], "codes": {}}

    if ctx.replay:
        return replay(ctx, sc, scrace, st)

    # corpus first: fixed cases of the model (accepted and rejected schedules, comparator, sort+dedup)
    corpus_bad = []
    cases = [l.rstrip("\n").split("\t", 1) for l in open(os.path.join(CORPUS, "model_cases.txt")) if not l.startswith("#") and "\t" in l]
    if lean_ok:
        got = vlib.run_model(ctx, "C06", [c[1] for c in cases])
        corpus_bad = [{"input": c[1], "expected": c[0], "model": g} for c, g in zip(cases, got) if c[0] != g]
    st["corpus_cases"] = len(cases)
    lap("corpus")
    fixed_stats = fixed_corpus(ctx, st, sc, scrace)
    lap("fixed corpus of real modules (twins, overlap, many)")
    ignore_shape = filter_ignored_shape()

    # warm the std facts (only the normal binary analyses std-importing modules); this runs in
    # the background while the modules without std imports are explored
    warm = {}
    wdir = ctx.path("warm", "mod", "go.mod")
    wdir = os.path.dirname(wdir)
    write_module(wdir, {"go.mod": "module example.com/warm\n\ngo 1.22\n",
                        "w.go": "package warm\n\nimport (\n" + "".join('\t_ "%s"\n' % s for s in STD_IMPORTS) + ")\n",
                        "w_test.go": "package warm\n\nimport \"testing\"\n\nfunc TestW(t *testing.T) {}\n"})
    wc = ctx.path("warm", "cache", "x")
    wc = os.path.dirname(wc)
    warm_pool = ThreadPoolExecutor(max_workers=1)
    warm_future = warm_pool.submit(sc_run, ctx, sc, wdir, ["-checks", "all", "./..."], 4, 0, wc, False, 1500)

    def need_warm():
        """False when the linter crashed on the warm-up module (reported as a violation)."""
        if sc in warm:
            return warm[sc] is not None
        r = warm_future.result()
        lap("warm std facts (waited)")
        if r.rc not in (0, 1) or CRASH.search(r.err):
            st["oracle_failures"] += 1
            wfiles = {}
            for fn in os.listdir(wdir):
                wfiles[fn] = open(os.path.join(wdir, fn)).read()
            ctx.violation("crash_warmup.json", replay_obj(
                "the linter crashed / did not terminate on a module that only imports std packages", wfiles,
                {"packages": ["."], "std": True}, [r.cfg], {"rc": r.rc, "stderr": r.err[-3000:]}),
                text="C06: staticcheck exit %s on the std warm-up module: %s" % (r.rc, r.err[-400:]))
            warm[sc] = None
            return False
        warm[sc] = wc
        return True

    if ctx.quick:
        mods = [("q_nostd", 6, False, True), ("q_std", 3, True, False)]
        matrix_n, orders, subsets = 6, 1, 2
        race = {"q_nostd": [(4, 0), (16, 13)], "q_std": []}
        ncrafted, nperm = 14, 3
    else:
        mods = [("t_nostd_a", 12, False, True), ("t_nostd_b", 14, False, False), ("t_std_a", 9, True, True)]
        matrix_n, orders, subsets = 12, 3, 5
        race = {m[0]: [(2, 0), (3, 21), (4, 22), (8, 23), (16, 24)] for m in mods if not m[2]}
        ncrafted, nperm = 60, 4

    real_lists = []
    for (name, npk, std, broken) in mods:
        mrng = rng.fork(name)
        if std and not need_warm():
            continue
        files, meta = gen_module(mrng, "%s_s%d" % (name, ctx.seed), npk, std, broken)
        procs_all = [1, 2, 3, 4, 8, 16]
        matrix = []
        for k in range(matrix_n if not (ctx.quick and std) else 4):
            procs = procs_all[k % len(procs_all)]
            ys = 0 if k in (0, 1) else mrng.below(10 ** 6) + 1
            trace = (k % 2 == 0) or not ctx.quick
            matrix.append((procs, ys, trace))
        plan = {"matrix": matrix, "orders": orders, "subsets": subsets, "race": race.get(name, []), "rng": mrng.fork("plan"),
                "formats": ["sarif"] if ctx.quick else ["text", "stylish", "sarif"]}
        res = explore_module(ctx, st, "%s_s%d" % (name, ctx.seed), files, meta, sc, scrace, warm, plan)
        if res:
            base, moddir = res
            ds, dup_diff = real_diag_list(ctx, sc, gob, moddir, meta, warm)
            if dup_diff:
                st["oracle_failures"] += 1
                ctx.violation("dup_%s.json" % name, replay_obj(
                    "a problem delivered twice (same descriptor) is delivered with different severity/fixes: which one is printed depends on the order of delivery",
                    files, meta, [base.cfg], {"pair": dup_diff[0]}),
                    text="C06: duplicates with the same descriptor differ: %s" % (dup_diff[0],))
            # one per descriptor for the -merge tie (duplicates are identical, see above)
            uniq = {}
            for d in ds:
                uniq[json.dumps([d[x] for x in ("file", "off", "line", "col", "efile", "eoff", "eline", "ecol", "cat", "msg")])] = d
            real_lists.append(list(uniq.values()))
        lap("real runs: " + name)

    warm_pool.shutdown(wait=True)
    check_traces(ctx, st)
    lap("trace replay through the model")
    oracle_sort, sort_diffs, sort_stats = sort_tie(ctx, sc, gob, rng.fork("sort"), real_lists, ncrafted, nperm, st["use_model"])
    for k, o in enumerate(oracle_sort[:5]):
        st["oracle_failures"] += 1
        ctx.violation("sort_order_%d.json" % k, {
            "what": "the printed list depends on the order in which the problems are delivered",
            "how_to_replay": "encode each delivery as a `-f binary` run file (harness/cmd/c06gob run), `staticcheck -merge -f json <file>`; the two outputs differ",
            **o}, text="C06: `staticcheck -merge` prints different lists for two orders of the same problems (%s)" % o["list"])

    lap("sort tie (-merge)")
    sizes = st["instance_sizes"]
    ctx.coverage.update({
        "phase_wall_s": phases,
        "evaluations": st["evaluations"] + sort_stats["merge_runs"] + st["instances"],
        "distinct_nontrivial": st["distinct_orders"],
        "rule": "non-trivial = a scheduler instance (package level, or the analyzers of one package) of a traced real run whose order of "
                "executions differs from every other traced instance of the same input; evaluations = compared real runs + -merge runs + replayed instances",
        "runs_of_real_linter": st["runs"], "race_build_runs": st["race_runs"], "race_build": bool(scrace),
        "traced_runs": len(st["traces"]), "instances_replayed_through_model": st["instances"], "instances_all_handlers_returned": st["final_instances"],
        "instances_without_actions": st["empty_instances"], "inline_starts_seen": st["inline_starts"],
        "instances_with_failed_actions": st["instances_with_failures"], "peak_tokens_seen": st["peak"],
        "zero_decrements_relinearised": st["moved_decs"],
        "instance_size_histogram": {"<=10": sum(1 for s in sizes if s <= 10), "11-150": sum(1 for s in sizes if 10 < s <= 150),
                                    ">150": sum(1 for s in sizes if s > 150)},
        "baseline_problem_counts": st["baseline_problems"], "problem_codes": st["codes"],
        "sort_tie": sort_stats, "model_corpus_cases": st["corpus_cases"], "fixed_corpus": fixed_stats, "modules": [m[0] for m in mods],
        "gomaxprocs": [1, 2, 3, 4, 8, 16],
        "traces_validated_against_impl": st["instances"],
        "samples": st["samples"][:3] + [{"module": t[0], "run": t[1], "trace_events": t[2].count("\n")} for t in st["traces"][:3]],
    })
    ctx.assumptions += [
        "race freedom is run-time evidence only: the race detector saw no race on the explored runs of a -race build; the Lean theorem "
        "hb_write_before_read gives the ordering of result writes before reads in the model, not in the Go memory model",
        "analyzers are deterministic functions of their inputs (hypothesis `f` of results_schedule_independent); nondeterminism inside an "
        "analyzer (map iteration) is reached only by the repeated real runs",
        "the trace hook logs `dec` before the atomic decrement; the decrement that reached zero is re-linearised behind the other logged "
        "decrements of the same counter (sound: it was the last real one)",
        "modelled: Run/runAnalyzers dispatcher loops, genericHandle, DecrementPending, Semaphore, runFromLintResult, the sort+dedup of "
        "printDiagnostics; outside the model: loader, cache, the analyzers, formatters, go list",
    ]

    tie_broken = bool(st["trace_rejects"]) or bool(sort_diffs) or bool(corpus_bad) or not lean_ok or ignore_shape is not None
    if tie_broken and st["oracle_failures"] == 0:
        # violation search already happened: the whole matrix above is the search (every run is an oracle evaluation)
        obj = {"what": "the model no longer corresponds to the code (or a proof no longer checks); the oracle held on every explored run",
               "lean": lean_broke, "trace_rejects": [{k: v for k, v in t.items() if k not in ("files", "meta")} for t in st["trace_rejects"][:5]],
               "sort_model_diffs": sort_diffs[:5], "model_corpus_regressions": corpus_bad[:10],
               "filterIgnored_loops": None if ignore_shape is None else {"expected (modelled by Directives.lean)": FILTER_LOOP, "found": ignore_shape},
               "correspondence": "X-trace (scheduler instances of traced runs through c06driver), X-sort (-merge order vs model), X-ignore (source shape of the loops of filterIgnored); theorems " + ", ".join(THEOREMS)}
        if st["trace_rejects"]:
            t = st["trace_rejects"][0]
            obj["module_tar_gz_base64"] = tar_b64(t["files"])
            obj["run"] = t["run"]
        ctx.violation("correspondence.json", obj, nofail=True,
                      text="C06: model/implementation correspondence broke (%d trace rejects, %d sort diffs, lean_ok=%s, filterIgnored loops as modelled=%s) but no run violated the oracle"
                           % (len(st["trace_rejects"]), len(sort_diffs), lean_ok, ignore_shape is None))
    elif tie_broken:
        ctx.notes.append("correspondence also broke: %d trace rejects, %d sort diffs, lean_ok=%s, filterIgnored loops as modelled=%s"
                         % (len(st["trace_rejects"]), len(sort_diffs), lean_ok, ignore_shape is None))
        if st["trace_rejects"]:
            t = st["trace_rejects"][0]
            ctx.violation("trace_reject.json", replay_obj(
                "a scheduling trace of a real run is not admitted by the model: an action ran out of order / twice / beyond the semaphore, or the graph is not well formed",
                t["files"], t["meta"], [t["run"]], {k: v for k, v in t.items() if k not in ("files", "meta")}),
                text="C06: model rejects the scheduling trace of a real run: %s" % (t.get("model_answer") or t.get("problems")))
    return vlib.finish(ctx, "proof")


def replay(ctx, sc, scrace, st):
    import base64
    obj = json.load(open(ctx.replay))
    if "delivery_1" in obj:
        # two orders of delivery of the same problems through the real -merge
        gob = vlib.build_harness(ctx, "c06gob")
        jobs = [{"id": k, "runs": [{"checked": sorted(set(d["file"] for d in obj[k])), "diags": obj[k]}]} for k in ("delivery_1", "delivery_2")]
        jdir = os.path.dirname(ctx.path("gob", "x"))
        rc, so, se = vlib.run([gob, "run", "-bin", sc, "-dir", jdir], input="".join(json.dumps(j) + "\n" for j in jobs), env=vlib.go_env(), timeout=600)
        if rc != 0:
            raise vlib.HarnessError("c06gob run failed: " + se[-1000:])
        res = [json.loads(l) for l in so.splitlines()]
        same = res[0]["stdout"] == res[1]["stdout"] and res[0]["rc"] == res[1]["rc"]
        print("the two deliveries print %s" % ("the same list" if same else "different lists"))
        ctx.coverage.update({"evaluations": 2, "distinct_nontrivial": 0, "rule": "replay of " + os.path.basename(ctx.replay)})
        if not same:
            ctx.violation("replayed_" + os.path.basename(ctx.replay), obj, text="C06: replay reproduces: " + obj["what"])
        return vlib.finish(ctx, "proof")
    if "module_tar_gz_base64" not in obj:
        raise vlib.HarnessError("replay file names a broken correspondence, not an input; see its `correspondence` field")
    moddir = ctx.path("replay", "mod", "x")
    moddir = os.path.dirname(moddir)
    with tarfile.open(fileobj=io.BytesIO(base64.b64decode(obj["module_tar_gz_base64"])), mode="r:gz") as tf:
        tf.extractall(moddir)
    outs = []
    for k, cfg in enumerate(obj["runs"]):
        binary = scrace if "race" in cfg["binary"] else sc
        if binary is None:
            raise vlib.HarnessError("race build disabled")
        cache = fresh_cache(ctx, None, "replay%d" % k)
        r = sc_run(ctx, binary, moddir, cfg["args"], cfg["GOMAXPROCS"], cfg["VERIF_C06_YIELD"], cache, trace=False, timeout=3000)
        outs.append(r)
        print("run %d: rc=%d, %d lines, race=%s" % (k, r.rc, len(r.out.splitlines()), "WARNING: DATA RACE" in r.err))
    bad = any("WARNING: DATA RACE" in r.err or r.rc not in (0, 1) for r in outs)
    if len(outs) > 1 and not obj["what"].startswith("the problems reported for a package"):
        bad = bad or any(r.out != outs[0].out or r.rc != outs[0].rc for r in outs[1:])
    if obj["what"].startswith("the problems reported for a package") and len(outs) > 1:
        meta = obj["module_meta"]
        full, _ = by_package(outs[0].out, moddir, meta["packages"])
        got, _ = by_package(outs[1].out, moddir, meta["packages"])
        named = [a[2:] for a in obj["runs"][1]["args"] if a.startswith("./")]
        bad = bad or any(full[p] != got[p] for p in named)
    ctx.coverage.update({"evaluations": len(outs), "distinct_nontrivial": 0, "rule": "replay of " + os.path.basename(ctx.replay)})
    if bad:
        ctx.violation("replayed_" + os.path.basename(ctx.replay), obj, text="C06: replay reproduces: " + obj["what"])
    return vlib.finish(ctx, "proof")


META = {
    "level": "proof",
    "technique": "Lean 4 invariant proof over an LTS model of the runner's action scheduler (all DAGs, capacities, interleavings) and of "
                 "collect/sort/dedup of printDiagnostics and of the directive loops of filterIgnored; trace refinement of real runs through the "
                 "compiled model; differential runs of the real binary (a fixed corpus of hand-written modules, then generated ones: "
                 "GOMAXPROCS x seeded yields x pattern orders/subsets x cold-cache repetition) and a -race build as oracle",
    "text": "Proved over the model for every action graph, semaphore capacity and interleaving: every action is executed exactly once, only after all "
            "its dependencies (pending = 0; exec d < dec < zero < exec a as a chain of synchronising events), tokens held never exceed the capacity and "
            "at most one handler per instance runs inline without a token, no deadlock (some event of the instance is always enabled until the loop "
            "ends; the queue is never sent on after close; the runAnalyzers buffer never overflows), termination (a measure every event decreases), and "
            "the results equal the bottom-up evaluation of the graph whatever the schedule (hypothesis: an action's result is a function of its "
            "dependencies' results), each result depending only on the action's dependency cone; the comparator of printDiagnostics is a strict total "
            "order on descriptor+build name, so the printed list is the same for every order of delivery and every sorting algorithm; the loops of "
            "filterIgnored (every directive matched against every problem) report the same useless directives and leave the same severities for "
            "every order in which the directives are visited, and the variant that skips already-ignored problems does not. The model is tied "
            "to the current code on every run: scheduling traces of real runs (verif hook) must be admitted by the compiled model with well-formed "
            "graphs, the real -merge path must print crafted and real problem lists in the model's order, and the source text of the loops of "
            "filterIgnored must read as modelled. Explored, not proved: a fixed corpus of three modules (copied helpers.go in twin packages under "
            "11 pattern subsets; overlapping file/line ignore directives in 8 files x 14 cold-cache runs; 20 analyzers x >= 40 problems on one "
            "package, single worker vs 10 cold runs at 3..16 workers and the -race build). Byte-identical output across repeated "
            "runs x GOMAXPROCS 1..16 x seeded yields x pattern orders, per-package independence from the other named packages, and absence of data-race "
            "reports from a -race build are explored on generated multi-package modules, not proved.",
    "note": "Race freedom in the Go memory model is run-time evidence only (race detector on the explored runs). Determinism of the analyzers "
            "themselves (map iteration inside U1000, fact export) is a hypothesis of the theorem and is only explored by repeated real runs; the "
            "reconciliation of U1000 across packages (unusedKey) and lineIgnore.match are not modelled; the filterIgnored tie is textual. "
            "Trusted: Lean kernel, compiled c06driver, the verif trace hook (lintcmd/runner/verif_on.go) and its placement contract, checks/c06.py, "
            "harness/cmd/c06gob, Go toolchain and race detector.",
    "design_ref": "DESIGN.md section 5, C06",
}
