"""C02 — built IR is well-formed, strictly dominated, consistently typed SSA.

Lean: Verif/C02/{Model,Spec,Check,Sorting,Theorems,Driver,Main}.lean.
  Spec.lean      `WF : FnDump -> Prop`, nine clauses: shape / bookkeeping, Preds-Succs inverse (multiset), terminators + arity,
                 phis, STRICT SSA with path-quantified dominance (Verif.C14.DomFrom over Succs + virtual edge entry->Recover),
                 Operands-Referrers inverse, typing table (a row for all 46 instruction kinds), operands_complete
                 (Operands() = the ir.Value fields of the struct, as multisets), func_ok (Params/FreeVars/Locals vs Signature).
  Check.lean     `wfCheck : FnDump -> Bool`, the validator.
  Theorems.lean  `wfCheck_iff : wfCheck f = true <-> WF f` for all dumps (sound AND complete); readable corollaries.
  Sorting.lean   the sorting helpers of the validator are verified (permutation, sorted, canonical).
Tie: V (verified validator).  harness/cmd/c02dump builds packages with the real go/ir builder of the tree under test under
every combination of {naive|lifted} x GlobalDebug x InstantiateGenerics x BuildSerially and dumps every function
irutil.AllFunctions finds; the compiled, proved validator runs on every dump.  A rejected function violates WF: the replay
names the clause and the offending instruction, plus the IR text of the function.
Inputs: corpus, go/ir testdata, seeded random generator (Gen), the exhaustive grid (GRID_*: operand slot x expression x
context, ill-typed candidates dropped by c02dump -funcs and counted), real packages.
Also: no builder panic / hang in any mode, and no `mustSanityCheck` panic with SanityCheckFunctions on.
Level: translation_validation (WF decided per dump, for all paths; programs x modes explored).
"""
import itertools
import json
import os
import re
import signal
import subprocess
import threading
import time
from concurrent.futures import ThreadPoolExecutor

import vlib

MODULES = ["Verif.C02.Theorems"]
THEOREMS = [
    "Verif.C02.wfCheck_iff",
    "Verif.C02.wfCheck_sound",
    "Verif.C02.wfCheck_complete",
    "Verif.C02.domX_iff",
    "Verif.C02.wfCheck_eq_clauses",
    "Verif.C02.allKinds_complete",
    "Verif.C02.def_on_every_path",
    "Verif.C02.phi_def_on_every_path",
    "Verif.C02.field_operand_checked",
    "Verif.C02.field_operand_legit",
    "Verif.C02.params_match_signature",
    "Verif.C02.cfg_exact",
    "Verif.C02.refs_exact",
    "Verif.C02.closedOK_sound",
    "Verif.C02.msort_perm",
    "Verif.C02.msort_sorted",
    "Verif.C02.msort_canon",
    "Verif.C02.mem_canonSet",
    "Verif.C02.canonSet_eq_iff",
]
CORPUS = os.path.join(vlib.VERIF, "corpus", "C02")

# N naive form, D global debug, G instantiate generics, L build serially ("-" = none)
ALL_MODES = ["-"] + ["".join(l for l, on in zip("NDGL", bits) if on)
                     for bits in [[(k >> i) & 1 for i in range(4)] for k in range(1, 16)]]
SANITY_MODES = ["CL", "CLN", "CLDG"]


# ======================================================================= program generator
PRELUDE = '''package p

type T struct {
	a, b int
	s    string
	p    *int
	n    *T
}

type U struct {
	T
	k [4]int
	m map[string]int
}

type I interface{ M(int) int }

type N int

func (t T) M(x int) int      { return t.a + x }
func (t *T) P(x int) int     { t.a += x; return t.b }
func (n N) M(x int) int      { return int(n) * x }
func (u *U) Q() (int, error) { return u.a, nil }

type Num interface{ ~int | ~int64 | ~uint8 }

func id[X any](v X) X { return v }
func sum[X Num](xs []X) (t X) {
	for _, x := range xs {
		t += x
	}
	return
}
func mapf[A, B any](xs []A, f func(A) B) []B {
	var out []B
	for _, x := range xs {
		out = append(out, f(x))
	}
	return out
}

type Box[X any] struct{ v X }

func (b *Box[X]) Get() X       { return b.v }
func (b *Box[X]) Set(v X)      { b.v = v }
func conv[A Num, B Num](a A) B { return B(a) }
func first[S ~[]E, E any](s S) (e E) {
	if len(s) > 0 {
		e = s[0]
	}
	return
}

func g(x int) int              { return x + 1 }
func g2(p *int) int            { *p++; return *p }
func g3(x int) (int, bool)     { return x, x > 0 }
func use(vs ...any)            {}
func mk() (int, string, error) { return 0, "", nil }

var G int
var GP *int
var GI any
'''

SIG = "(a, b int, p, q bool, s string, xs []int, m map[string]int, ch chan int, e any, pt *T, seq func(func(int) bool))"

LOCALS = [
    ("x0", "int"), ("x1", "int"), ("x2", "int"), ("s0", "string"), ("t0", "T"), ("t1", "T"), ("u0", "U"),
    ("pp", "*int"), ("arr", "[4]int"), ("sl", "[]int"), ("f0", "func(int) int"), ("i0", "any"),
    ("it", "I"), ("bx", "Box[int]"), ("n0", "N"), ("by", "[]byte"), ("fl", "float64"), ("er", "error"),
]


class Gen:
    """Seeded generator of type-correct Go packages without imports.

    Every function declares all its locals (ints, strings, structs, arrays, slices, pointers,
    funcs, interfaces, generic boxes) before the first label, so gotos between top-level
    labelled segments never jump over a declaration; segments read and write the locals,
    take their addresses on some paths only (`pp = &x0`, `g2(&x1)`, closures), which makes
    lift.go place phis at irreducible joins and split partially escaping allocs.  Kinds:
    plain functions, methods, generic functions (instantiated twice from `callAll`).
    """

    def __init__(self, rng):
        self.r = rng
        self.uid = 0
        self.hist = {}

    def hit(self, k):
        self.hist[k] = self.hist.get(k, 0) + 1

    def fresh(self, p):
        self.uid += 1
        return "%s%d" % (p, self.uid)

    # ---------------------------------------------------------------- expressions
    def iv(self):
        r = self.r
        xs = ["a", "b", "x0", "x1", "x2", "x0 + x1", "a*3 + 1", "g(x1)", "len(s)", "len(xs)", "t0.a", "t1.b + x2",
              "arr[x0&3]", "u0.k[1]", "u0.a", "m[s]", "int(n0)", "bx.v", "id(x1)", "sum(xs)", "first(sl)",
              "int(fl)", "x2 << uint(a&3)", "cap(sl) - len(by)"]
        return xs[r.below(len(xs))]

    def cond(self, d=0):
        r = self.r
        k = r.below(16)
        if k < 2:
            return "a%%%d == %d" % (r.below(5) + 2, r.below(2))
        if k < 4:
            return "x0 > %d" % r.below(50)
        if k == 4:
            return "p"
        if k == 5:
            return "!q"
        if k == 6 and d < 2:
            self.hit("cond&&")
            return "(%s && %s)" % (self.cond(d + 1), self.cond(d + 1))
        if k == 7 and d < 2:
            self.hit("cond||")
            return "(%s || %s)" % (self.cond(d + 1), self.cond(d + 1))
        if k == 8:
            return "g(a) < x1"
        if k == 9:
            return "pp != nil"
        if k == 10:
            return "i0 == nil"
        if k == 11:
            return "s0 == s"
        if k == 12:
            return "t0 == t1"
        if k == 13:
            return "er != nil"
        if k == 14:
            return "it != nil && it.M(1) > 0"
        return "x1 < %s" % self.iv()

    def simple(self):
        r = self.r
        self.hit("simple")
        S = [
            "x0 = %s" % self.iv(), "x1 = %s" % self.iv(), "x2 += %s" % self.iv(), "x0++", "x1--", "a = a*3 + 1",
            "p = !p", "q = x0 > x1", "a, b = b, a", "x0, x1 = x1, x0+x2", "r += x0", "r = g(r)",
            "pp = &x0", "pp = &x1", "pp = &t0.a", "pp = &arr[x2&3]", "if pp != nil { *pp = x2 }", "x2 = g2(&x1)",
            "x2 = g2(&x2)", "GP = &x2", "t0.a = x0", "t0.b, t0.s = x1, s0", "t1 = t0", "t0 = T{a: x0, b: x1}",
            "t0.n = &t1", "pt = &t0", "if pt != nil { pt.a = x1 }", "u0.T = t0", "u0.k[x0&3] = x1", "u0.a += x2",
            "arr[x1&3] = x0", "arr = [4]int{x0, x1}", "sl = append(sl, x0)", "sl = arr[:]", "sl = xs[1:]",
            "if len(sl) > 2 { sl = sl[1:2:2] }", "if len(sl) > 0 { sl[0] = x1 }", "s0 = s0 + s", "s0 = string(by)",
            "by = []byte(s0)", "if len(s0) > 1 { s0 = s0[1:] }", "if len(s) > 0 { x0 = int(s[0]) }",
            "m[s0] = x0", "if v, ok := m[s]; ok { x1 = v }", "delete(m, s0)", "i0 = x0", "i0 = t0", "i0 = &t1", "i0 = s0",
            "it = t0", "it = n0", "it = &t1", "if it != nil { x0 = it.M(x1) }", "x1 = t0.M(x0)", "x2 = t1.P(x0)",
            "f0 = g", "f0 = t0.M", "f0 = func(v int) int { return v + x1 }", "if f0 != nil { x0 = f0(x1) }",
            "bx.Set(x0)", "x1 = bx.Get()", "n0 = N(x0)", "fl = float64(x0) / 2", "x0 = conv[int, int](x1)",
            "if v, ok := i0.(int); ok { x0 = v }", "if v, ok := e.(I); ok { it = v }", "x1, q = g3(x0)",
            "x0, s0, er = mk()", "x2, er = u0.Q()", "ch <- x0", "if er == nil { er = err }", "err = er",
            "GI = t0", "G = x1", "x0 = G", "_ = mapf(sl, func(v int) string { return s0 })",
            "sl = mapf(xs, func(v int) int { return v + x0 })", "use(x0, s0, t0)", "x0 = *id(&x1)",
            "x1 = id(t0).a", "x2 = first(xs) + first([]int{x0})", "_ = sum([]N{n0})", "defer g(x0)",
            "func() { x1++ }()", "x2 = func(v int) int { x0 += v; return x0 }(x1)", "r, err = x0, er",
        ]
        return S[r.below(len(S))]

    # ---------------------------------------------------------------- statements
    def block(self, ctx, depth, ind):
        n = 1 + self.r.below(3)
        out = []
        for _ in range(n):
            if ctx["budget"][0] <= 0:
                break
            out += self.stmt(ctx, depth, ind)
        if not out:
            out = [ind + self.simple()]
        return out

    def jump(self, ctx, ind):
        r = self.r
        opts = []
        if ctx["inloop"]:
            opts += ["break", "continue"]
        elif ctx["inswitch"]:
            opts += ["break"]
        labs = [l for l in ctx["loops"] if l]
        if labs:
            opts += ["breakL", "continueL", "breakL", "continueL"]
        if ctx["gotos"]:
            opts += ["goto", "goto", "goto"]
        if ctx.get("ret") == "void":
            opts += ["returnc"]
        elif ctx.get("ret") == "int":
            opts += ["returni", "panic"]
        else:
            opts += ["return", "panic"]
        k = r.choice(opts)
        self.hit("jump:" + k)
        if k == "breakL":
            return [ind + "break " + r.choice(labs)]
        if k == "continueL":
            return [ind + "continue " + r.choice(labs)]
        if k == "goto":
            return [ind + "goto " + r.choice(ctx["gotos"])]
        if k == "returnc":
            return [ind + "return"]
        if k == "returni":
            return [ind + "return x1"]
        if k == "return":
            return [ind + r.choice(["return", "return x0, er", "return g(x1), nil", "return g(x0), er"])]
        if k == "panic":
            return [ind + r.choice(['panic("x")', "panic(er)", "panic(x0)"])]
        return [ind + k]

    def stmt(self, ctx, depth, ind):
        r = self.r
        ctx["budget"][0] -= 1
        if depth <= 0:
            k = r.choice(["simple", "simple", "gjump"])
        else:
            k = r.choice(["simple", "simple", "simple", "simple", "if", "if", "ifelse", "ifelse", "ifchain",
                          "for", "for", "for3", "forever", "rangeint", "rangeseq", "rangesl", "rangemap",
                          "rangestr", "rangech", "rangearr", "switch", "switch", "tswitch", "select", "gjump",
                          "gjump", "gjump", "jump", "defer", "closure", "block", "dead", "shadow", "ifinit",
                          "scoped", "scoped", "scopedloop"])
        self.hit("stmt:" + k)
        i2 = ind + "\t"
        if k == "simple":
            return [ind + self.simple()]
        if k == "gjump":
            return [ind + "if %s {" % self.cond()] + self.jump(ctx, i2) + [ind + "}"]
        if k == "jump":
            return self.jump(ctx, ind)
        if k == "dead":
            return self.jump(ctx, ind) + [ind + self.simple()]
        if k == "if":
            return [ind + "if %s {" % self.cond()] + self.block(ctx, depth - 1, i2) + [ind + "}"]
        if k == "ifinit":
            v = self.fresh("w")
            return ([ind + "if %s := %s; %s > x0 {" % (v, self.iv(), v), i2 + "x1 = " + v] +
                    self.block(ctx, depth - 1, i2) + [ind + "} else {", i2 + "x2 = " + v, ind + "}"])
        if k == "ifelse":
            return ([ind + "if %s {" % self.cond()] + self.block(ctx, depth - 1, i2) + [ind + "} else {"] +
                    self.block(ctx, depth - 1, i2) + [ind + "}"])
        if k == "ifchain":
            return ([ind + "if %s {" % self.cond()] + self.block(ctx, depth - 1, i2) +
                    [ind + "} else if %s {" % self.cond()] + self.block(ctx, depth - 1, i2) +
                    [ind + "} else {"] + self.block(ctx, depth - 1, i2) + [ind + "}"])
        if k == "shadow":
            # a block-scoped variable whose address escapes on one path only
            v = self.fresh("y")
            return ([ind + "{", i2 + "%s := %s" % (v, self.iv()), i2 + "if %s {" % self.cond(), i2 + "\tpp = &" + v,
                     i2 + "}", i2 + "%s += x0" % v] + self.block(ctx, depth - 1, i2) + [i2 + "x1 = " + v, ind + "}"])
        if k == "scoped":
            # a variable that lives in one branch only and escapes on some path through that
            # branch; control joins afterwards with a path that never saw the variable
            return [ind + "if %s {" % self.cond()] + self.scoped_body(ctx, depth, i2) + [ind + "}"]
        if k == "scopedloop":
            lab = self.fresh("W")
            c2 = dict(ctx, loops=ctx["loops"] + [None], inloop=True, inswitch=False)
            v = self.fresh("i")
            head = r.choice(["for %s := range b {" % v, "for %s := 0; %s < a; %s++ {" % (v, v, v), "for %s := range xs {" % v])
            return [ind + head, i2 + "x0 += " + v] + self.scoped_body(c2, depth, i2) + [ind + "}"]
        if k in ("for", "for3", "forever", "rangeint", "rangeseq", "rangesl", "rangemap", "rangestr", "rangech", "rangearr"):
            lab = self.fresh("W")
            c2 = dict(ctx, loops=ctx["loops"] + [lab], inloop=True, inswitch=False)
            body = self.block(c2, depth - 1, i2)
            if k == "forever":
                body = body + [i2 + "if %s {" % self.cond(), i2 + "\tbreak", i2 + "}"]
            v = self.fresh("i")
            w = self.fresh("v")
            head = {"for": "for %s {" % self.cond(),
                    "for3": "for %s := 0; %s < b; %s++ {" % (v, v, v),
                    "forever": "for {",
                    "rangeint": "for %s := range b {" % v,
                    "rangeseq": "for %s := range seq {" % v,
                    "rangesl": "for %s, %s := range xs {" % (v, w),
                    "rangemap": "for %s, %s := range m {" % (w, v),
                    "rangestr": "for %s, %s := range s {" % (v, w),
                    "rangech": "for %s := range ch {" % v,
                    "rangearr": "for %s := range arr {" % v}[k]
            pre_body = []
            if k in ("for3", "rangeint", "rangeseq", "rangech", "rangearr"):
                pre_body = [i2 + "x0 += " + v]
            elif k == "rangesl":
                pre_body = [i2 + "x0 += %s + %s" % (v, w)]
            elif k == "rangemap":
                pre_body = [i2 + "x0 += %s + len(%s)" % (v, w)]
            elif k == "rangestr":
                pre_body = [i2 + "x0 += %s + int(%s)" % (v, w)]
            if k in ("for3", "rangeint", "rangesl") and r.chance(1, 3):
                self.hit("loopvar-escape")
                pre_body += [i2 + r.choice(["pp = &%s" % v, "f0 = func(z int) int { return z + %s }" % v,
                                            "defer func() { x1 += %s }()" % v])]
            body = pre_body + body
            text = "\n".join(body)
            used = ("break " + lab + "\n") in text + "\n" or ("continue " + lab + "\n") in text + "\n"
            pre = [ind + lab + ":"] if used else []
            if used:
                self.hit("labelled-loop")
            return pre + [ind + head] + body + [ind + "}"]
        if k == "switch":
            nc = 2 + r.below(3)
            tagless = r.chance(1, 3)
            tag = r.choice(["a %% %d" % (nc + 1), "x0 & 3", "s0", "i0"])
            out = [ind + ("switch {" if tagless else "switch %s {" % tag)]
            c2 = dict(ctx, inswitch=True, inloop=ctx["inloop"])
            defpos = r.below(nc + 1) if r.chance(2, 3) else -1
            for ci in range(nc):
                if ci == defpos:
                    out.append(ind + "default:")
                elif tagless:
                    out.append(ind + "case %s:" % self.cond())
                elif tag == "s0":
                    out.append(ind + 'case "k%d", "z%d":' % (ci, ci))
                elif tag == "i0":
                    out.append(ind + ("case %d:" % ci if ci else 'case "x":'))
                else:
                    out.append(ind + "case %d:" % ci)
                out += self.block(c2, depth - 1, i2)
                if ci < nc - 1 and r.chance(1, 3):
                    self.hit("fallthrough")
                    out.append(i2 + "fallthrough")
            return out + [ind + "}"]
        if k == "tswitch":
            c2 = dict(ctx, inswitch=True)
            v = self.fresh("z")
            return ([ind + "switch %s := %s.(type) {" % (v, r.choice(["i0", "e", "any(it)"])), ind + "case int:", i2 + "x0 = " + v] +
                    self.block(c2, depth - 1, i2) +
                    [ind + "case string, bool:", i2 + "i0 = " + v] + self.block(c2, depth - 1, i2) +
                    [ind + "case I:", i2 + "it = " + v, ind + "case *T:", i2 + "pt = " + v, ind + "case nil:", i2 + "x1++",
                     ind + "default:", i2 + "_ = " + v] + self.block(c2, depth - 1, i2) + [ind + "}"])
        if k == "select":
            c2 = dict(ctx, inswitch=True)
            v = self.fresh("v")
            out = [ind + "select {", ind + "case %s := <-ch:" % v, i2 + "x0 = " + v] + self.block(c2, depth - 1, i2)
            out += [ind + "case ch <- x1:"] + self.block(c2, depth - 1, i2)
            if r.chance(1, 2):
                w = self.fresh("v")
                out += [ind + "case %s, ok := <-ch:" % w, i2 + "q = ok", i2 + "x2 = " + w]
            if r.chance(1, 2):
                out += [ind + "default:"] + self.block(c2, depth - 1, i2)
            return out + [ind + "}"]
        if k == "defer":
            c = r.below(4)
            if c == 0:
                return [ind + "defer func() {", i2 + "if v := recover(); v != nil {", i2 + "\tr = -1", i2 + "\terr, _ = v.(error)",
                        i2 + "}", ind + "}()"]
            if c == 1:
                return [ind + "defer func() { r += x0 }()"]
            if c == 2:
                return [ind + "defer t1.P(x0)"]
            return [ind + "defer g(a)"]
        if k == "closure":
            c2 = dict(loops=[], inloop=False, inswitch=False, gotos=[], budget=ctx["budget"], ret="void")
            if r.chance(1, 2):
                return [ind + "func() {"] + self.block(c2, depth - 1, i2) + [ind + "}()"]
            return [ind + "f0 = func(v int) int {", i2 + "x2 += v"] + self.block(dict(c2, ret="int"), 1, i2) + [i2 + "return x2", ind + "}"]
        if k == "block":
            return [ind + "{"] + self.block(ctx, depth - 1, i2) + [ind + "}"]
        raise AssertionError(k)

    def scoped_body(self, ctx, depth, ind):
        r = self.r
        i2 = ind + "\t"
        v = self.fresh("y")
        ty = r.choice(["int", "int", "T", "[4]int"])
        self.hit("scoped:" + ty)
        if ty == "int":
            out = [ind + "%s := %s" % (v, self.iv())]
            esc = r.choice(["pp = &" + v, "x2 = g2(&%s)" % v, "f0 = func(z int) int { %s += z; return %s }" % (v, v), "GP = &" + v])
            upd, rd = "%s += x0" % v, "x1 = " + v
        elif ty == "T":
            out = [ind + "%s := T{a: %s}" % (v, self.iv())]
            esc = r.choice(["pt = &" + v, "pp = &%s.a" % v, "x2 = %s.P(x0)" % v, "it = &" + v])
            upd, rd = "%s.b += x0" % v, "x1 = %s.a + %s.b" % (v, v)
        else:
            out = [ind + "var %s [4]int" % v, ind + "%s[x0&3] = %s" % (v, self.iv())]
            esc = r.choice(["sl = %s[:]" % v, "pp = &%s[1]" % v])
            upd, rd = "%s[1] += x0" % v, "x1 = %s[x2&3]" % v
        if r.chance(1, 2):
            out += [ind + upd]
        if r.chance(1, 2) and depth > 1:
            out += self.block(ctx, depth - 2, ind)
        out += [ind + "if %s {" % self.cond(), i2 + esc]
        if r.chance(1, 3):
            out += self.jump(ctx, i2)
        out += [ind + "}"]
        if r.chance(1, 2):
            out += [ind + "if %s {" % self.cond()] + self.jump(ctx, i2) + [ind + "}"]
        out += [ind + upd, ind + rd]
        if r.chance(1, 3) and depth > 1:
            out += self.block(ctx, depth - 2, ind)
        return out

    # ---------------------------------------------------------------- functions
    def goto_graph(self):
        """arbitrary (usually irreducible) CFG from top-level labels and gotos."""
        r = self.r
        n = 3 + r.below(r.choice([4, 8, 16, 30]))
        labs = ["L%d" % i for i in range(n)]
        segs = []
        for i in range(n):
            body = []
            for _ in range(r.below(3)):
                body.append("\t" + self.simple())
            t = r.below(14)
            tgt = lambda: r.choice(labs)
            if t < 3:
                body += ["\tgoto " + tgt()]
            elif t < 7:
                body += ["\tif %s {" % self.cond(), "\t\tgoto " + tgt(), "\t}", "\tgoto " + tgt()]
            elif t < 9:
                body += ["\tif %s {" % self.cond(), "\t\tgoto " + tgt(), "\t}"]
            elif t == 9:
                k = 2 + r.below(3)
                body += ["\tswitch x0 %% %d {" % (k + 1)]
                for c in range(k):
                    body += ["\tcase %d:" % c, "\t\tgoto " + tgt()]
                if r.chance(1, 2):
                    body += ["\tdefault:", "\t\tgoto " + tgt()]
                body += ["\t}"]
            elif t == 10:
                body += ["\treturn"]
            elif t == 11:
                v = self.fresh("k")
                body += ["\tfor %s := range xs {" % v, "\t\tx0 += " + v, "\t\tif %s {" % self.cond(), "\t\t\tgoto " + tgt(), "\t\t}", "\t}"]
            elif t == 12:
                v = self.fresh("k")
                body += ["\tfor %s := range seq {" % v, "\t\tif %s {" % self.cond(), "\t\t\tgoto " + tgt(), "\t\t}", "\t\tx1 += " + v, "\t}"]
            else:
                body += ['\tpanic("x")'] if r.chance(1, 2) else []
            if r.chance(1, 4):
                ctx = dict(loops=[], inloop=False, inswitch=False, gotos=labs, budget=[4])
                body = ["\tif %s {" % self.cond()] + self.scoped_body(ctx, 1, "\t\t") + ["\t}"] + body
            segs.append(body)
        return labs, segs

    def mixed(self):
        r = self.r
        n = 1 + r.below(5)
        labs = ["L%d" % i for i in range(n)]
        budget = [6 + r.below(30)]
        segs = []
        for i in range(n):
            ctx = dict(loops=[], inloop=False, inswitch=False, gotos=labs if r.chance(3, 4) else [], budget=budget)
            budget[0] = max(budget[0], 3)
            segs.append(self.block(ctx, 1 + r.below(4), "\t"))
        return labs, segs

    def assemble(self, name, labs, segs, kind):
        r = self.r
        text = "\n".join("\n".join(s) for s in segs) + "\n"
        out = []
        recv = "(rc *U) " if kind == "method" else ""
        tparams = "[X any, Y Num]" if kind == "generic" else ""
        out.append("func %s%s%s%s (r int, err error) {" % (recv, name, tparams, SIG))
        for (v, ty) in LOCALS:
            out.append("\tvar %s %s" % (v, ty))
        if kind == "generic":
            out += ["\tvar gx X", "\tvar gy Y", "\tvar gs []Y", "\tgs = append(gs, gy)", "\tgy += sum(gs)", "\tx0 = int(gy)",
                    "\ti0 = gx", "\tgx = id(gx)", "\tvar gb Box[X]", "\tgb.Set(gx)", "\tgx = gb.Get()", "\tgy = conv[int, Y](x0)"]
        if kind == "method":
            out += ["\tu0 = *rc", "\tx0, err = rc.Q()"]
        if r.chance(1, 4):
            out += ["\tdefer func() { recover() }()"]
        for lab, s in zip(labs, segs):
            if ("goto " + lab + "\n") in text:
                out.append(lab + ":")
            out += s
        out += ["\tuse(x0, x1, x2, s0, t0, t1, u0, pp, arr, sl, f0, i0, it, bx, n0, by, fl, er, a, b, p, q, pt)",
                "\treturn r + x0, err", "}"]
        return "\n".join(out)

    def file(self, nfuncs):
        fs = []
        calls = []
        for i in range(nfuncs):
            self.uid = 0
            name = "f%d" % i
            kind = self.r.choice(["plain", "plain", "plain", "method", "generic"])
            if self.r.chance(2, 5):
                self.hit("fn:goto")
                labs, segs = self.goto_graph()
            else:
                self.hit("fn:mixed")
                labs, segs = self.mixed()
            self.hit("kind:" + kind)
            fs.append(self.assemble(name, labs, segs, kind))
            args = "(1, 2, true, false, \"s\", nil, nil, nil, nil, nil, nil)"
            if kind == "generic":
                calls.append("\t%s[string, int]%s" % (name, args))
                calls.append("\t%s[*T, N]%s" % (name, args))
            elif kind == "method":
                calls.append("\tnew(U).%s%s" % (name, args))
            else:
                calls.append("\t%s%s" % (name, args))
        main = "func callAll() {\n" + "\n".join(calls) + "\n}\n"
        return PRELUDE + "\n" + "\n\n".join(fs) + "\n\n" + main


def gen_sources(ctx, nfiles, per_file, tag):
    rng = vlib.SplitMix(ctx.seed).fork("c02/" + tag)
    hist = {}
    files, texts = [], {}
    for i in range(nfiles):
        g = Gen(rng.fork("file%d" % i))
        src = g.file(per_file)
        p = ctx.path("gen", tag, "g%04d.go" % i)
        with open(p, "w") as fh:
            fh.write(src)
        files.append(p)
        texts[p] = src
        for k, v in g.hist.items():
            hist[k] = hist.get(k, 0) + v
    return files, texts, hist


# ======================================================================= exhaustive grid
# Every expression form that creates control flow of its own (short-circuit operators, function
# literals called in place, calls with such arguments) and every conversion-relevant expression
# form, in every operand slot of every statement form, inside every surrounding context.
# The combinations are not filtered by the generator: c02dump -funcs type-checks every candidate
# function in-process and drops (and counts) the ones that do not compile.
GRID_PRELUDE = '''package p

type T struct {
	a, b int
	s    string
	p    *int
	n    *T
}

type U struct {
	T
	k [4]int
	m map[string]int
}

type I interface{ M(int) int }

type N int
type Strs []string
type Ints []int
type Anys []any
type Fn func(int) int
type Ch chan int

func (t T) M(x int) int       { return t.a + x }
func (t *T) P(x int) int      { t.a += x; return t.b }
func (t *T) V(xs ...int) int  { return len(xs) + t.a }
func (n N) M(x int) int       { return int(n) * x }
func (u *U) Q() (int, error)  { return u.a, nil }

type Num interface{ ~int | ~int64 | ~uint8 }

func id[X any](v X) X { return v }
func sum[X Num](xs []X) (t X) {
	for _, x := range xs {
		t += x
	}
	return
}
func mapf[A, B any](xs []A, f func(A) B) []B {
	var out []B
	for _, x := range xs {
		out = append(out, f(x))
	}
	return out
}

type Box[X any] struct{ v X }

func (b *Box[X]) Get() X       { return b.v }
func (b *Box[X]) Set(v X)      { b.v = v }
func conv[A Num, B Num](a A) B { return B(a) }
func first[S ~[]E, E any](s S) (e E) {
	if len(s) > 0 {
		e = s[0]
	}
	return
}
func pick[X any](c bool, x, y X) X {
	if c {
		return x
	}
	return y
}

func g(x int) int               { return x + 1 }
func g3(x int) (int, bool)      { return x, x > 0 }
func add(x, y int) int          { return x + y }
func b1(x int) bool             { return x > 0 }
func bi(c bool) int             { if c { return 1 }; return 0 }
func bs(c bool) string          { if c { return "t" }; return "f" }
func use(vs ...any)             {}
func usei(xs ...int) int        { return len(xs) }
func usei2(x int, ys ...int) int { return x + len(ys) }
func uses(xs ...string) int     { return len(xs) }
func gen(n int) func(func(int) bool) {
	return func(y func(int) bool) {
		for i := 0; i < n; i++ {
			if !y(i) {
				return
			}
		}
	}
}

var G int
var GP *int
'''

GRID_LOCALS = [("x0", "int"), ("x1", "int"), ("s0", "string"), ("sl", "[]int"), ("t0", "T"), ("u0", "U"), ("pp", "*int"),
               ("f0", "func(int) int"), ("i0", "any"), ("arr", "[4]int"), ("n0", "N"), ("by", "[]byte"), ("fl", "float64"),
               ("it", "I"), ("bx", "Box[int]"), ("chs", "[]chan int")]

# (name, type tag, text).  Tags select the slots an expression is tried in; the Go type checker
# has the last word.
GRID_EXPRS = [
    ("and", "bool", "p && q"),
    ("or", "bool", "p || b1(a)"),
    ("andor", "bool", "(p && a > 0) || (q && b1(b))"),
    ("nand", "bool", "!(p && q)"),
    ("litb", "bool", "func() bool { return p && q }()"),
    ("cmpand", "bool", "a > b && s != s0"),
    ("bi_and", "int", "bi(p && q)"),
    ("bi_or", "int", "bi(p || q) + g(a)"),
    ("liti", "int", "func() int { if p { return a }; return b }()"),
    ("min", "int", "min(a, bi(q || p), 3)"),
    ("max", "int", "max(a, b)"),
    ("gen_and", "int", "id(bi(p && q))"),
    ("pick", "int", "pick(p && q, a, b)"),
    ("first", "int", "first(xs)"),
    ("recv", "int", "<-ch"),
    ("idx", "int", "xs[bi(p && q)]"),
    ("nconv", "int", "int(N(a))"),
    ("plain", "int", "a"),
    ("bs_and", "string", "bs(p && q)"),
    ("lits", "string", 'func() string { if p { return s }; return "x" }()'),
    ("sconv", "string", "string(rune(bi(p || q)))"),
    ("picksl", "[]int", "pick(p || q, xs, sl)"),
    ("litsl", "[]int", "func() []int { if p && q { return xs }; return nil }()"),
    ("slice3", "[]int", "xs[a:b:bi(p && q)]"),
    ("ints", "Ints", "Ints(pick(p && q, xs, sl))"),
    ("anys", "Anys", "Anys{bi(p && q), s}"),
    ("strs", "Strs", "Strs{bs(p || q)}"),
    ("sany", "[]any", "[]any{p && q, a}"),
    ("any_and", "any", "any(p && q)"),
    ("tlit", "T", "T{a: bi(p && q)}"),
    ("ptlit", "*T", "&T{a: bi(p || q)}"),
    ("pickpt", "*T", "pick(p && q, pt, &t0)"),
    ("fnlit", "func", "func(v int) int { if p && v > 0 { return v }; return a }"),
    ("fnnamed", "Fn", "Fn(pick(p && q, g, f0))"),
    ("pickch", "chan", "pick(p && q, ch, nil)"),
    ("chnamed", "Ch", "Ch(pick(p || q, ch, nil))"),
    ("pickm", "map", "pick(p && q, m, nil)"),
    ("seqgen", "seq", "gen(bi(p && q))"),
    ("box", "Box", "Box[int]{v: bi(p && q)}"),
    ("nval", "N", "N(bi(p && q))"),
    ("iface", "I", "pick(p && q, I(t0), I(n0))"),
    ("bytes", "[]byte", "[]byte(bs(p && q))"),
    ("arrlit", "[4]int", "[4]int{bi(p && q), a, b, 1}"),
    ("parr", "*[4]int", "pick(p && q, &arr, nil)"),
]

# expressions tried in every slot already in the quick tier (one or two control-flow creating forms per type);
# the others join in the thorough tier and, in the quick tier, in rotation
GRID_CORE = {"and", "or", "andor", "litb", "bi_and", "liti", "min", "pick", "bs_and", "lits", "picksl", "litsl", "ints", "anys",
             "strs", "sany", "any_and", "tlit", "pickpt", "fnlit", "fnnamed", "pickch", "chnamed", "pickm", "seqgen", "box",
             "nval", "iface", "bytes", "arrlit", "parr"}

B, I_, S_ = ["bool"], ["int"], ["string"]
SL = ["[]int", "Ints"]
SLT = ["[]int", "Ints", "Anys", "Strs", "[]any", "[]byte"]
ANY = ["*"]
# (name, accepted type tags, statement template; `@` = the hole)
GRID_SLOTS = [
    # ---- switch
    ("sw_const_bool", B, "switch @ {\ncase true:\n\tx0 = 1\ncase false:\n\tx0 = 2\n}"),
    ("sw_const_bool_def", B, "switch @ {\ncase true:\n\tx0 = 1\ndefault:\n\tx0 = 3\n}"),
    ("sw_const_int", I_ + ["N"], "switch @ {\ncase 1:\n\tx0 = 1\ncase 2, 3:\n\tx0 = 2\n\tfallthrough\ndefault:\n\tx0 = 3\n}"),
    ("sw_const_str", S_, 'switch @ {\ncase "a":\n\tx0 = 1\ncase "b", "c":\n\tx0 = 2\n}'),
    ("sw_const_iface", ANY, 'switch any(@) {\ncase 1:\n\tx0 = 1\ncase true:\n\tx0 = 2\ncase "a":\n\tx0 = 3\ncase nil:\n\tx0 = 4\n}'),
    ("sw_init_const", ANY, "switch y := @; a {\ncase 1:\n\tx0 = 1\n\t_ = y\ncase 2:\n\t_ = y\n}"),
    ("sw_init_tag", I_ + B + S_, "switch y := @; y {\ncase y:\n\tx0 = 1\n}"),
    ("sw_dyn_tag", I_, "switch @ {\ncase a:\n\tx0 = 1\ncase b + 1, 7:\n\tx0 = 2\n\tfallthrough\ndefault:\n\tx0 = 3\n}"),
    ("sw_dyn_case", ANY, "switch y := @; y {\ncase @:\n\tx0 = 1\n}"),
    ("sw_dyn_case_int", I_, "switch a {\ncase 1, @, b:\n\tx0 = 1\n\tfallthrough\ncase 7:\n\tx0++\n}"),
    ("sw_dyn_case_any", ANY, "switch e {\ncase @:\n\tx0 = 1\ncase nil:\n\tx0 = 2\n}"),
    ("sw_tagless", B, "switch {\ncase @:\n\tx0 = 1\ncase q:\n\tx0 = 2\n\tfallthrough\ndefault:\n\tx0 = 3\n}"),
    ("sw_tagless_2nd", B, "switch {\ncase a > 1:\n\tx0 = 1\ncase @:\n\tx0 = 2\n}"),
    ("sw_true_tag", B, "switch true {\ncase @:\n\tx0 = 1\ndefault:\n\tx0 = 2\n}"),
    ("tsw_init", ANY, "switch y := @; z := e.(type) {\ncase int:\n\tx0 = z\n\t_ = y\ncase string:\n\ts0 = z\ndefault:\n\t_ = z\n\t_ = y\n}"),
    ("tsw_operand", ANY, "switch z := any(@).(type) {\ncase int:\n\tx0 = z\ncase bool:\n\tp = z\ncase string, []int:\n\ti0 = z\ncase nil:\n\tx0 = -1\ndefault:\n\t_ = z\n}"),
    ("tsw_iface", ["I"], "switch z := @.(type) {\ncase T:\n\tt0 = z\ncase N, *T:\n\ti0 = z\n}"),
    # ---- if / for
    ("if_cond", B, "if @ {\n\tx0 = 1\n} else {\n\tx0 = 2\n}"),
    ("if_cond_chain", B, "if a > 3 {\n\tx0 = 1\n} else if @ {\n\tx0 = 2\n} else {\n\tx0 = 3\n}"),
    ("if_init", ANY, "if y := @; a > 0 {\n\t_ = y\n\tx0 = 1\n}"),
    ("if_init_cond", B, "if y := @; y && @ {\n\tx0 = 1\n}"),
    ("for_cond", B, "for @ {\n\tx0++\n\tif x0 > 3 {\n\t\tbreak\n\t}\n}"),
    ("for3_init", I_, "for i := @; i < b; i++ {\n\tx0 += i\n}"),
    ("for3_cond", I_, "for i := 0; i < @; i++ {\n\tx0 += i\n}"),
    ("for3_condb", B, "for i := 0; @; i++ {\n\tx0 += i\n\tif i > 3 {\n\t\tbreak\n\t}\n}"),
    ("for3_post", I_, "for i := 0; i < b; i += @ {\n\tx0 += i\n}"),
    ("for3_esc_init", I_, "for i := @; i < b; i++ {\n\tpp = &i\n\tx0 += *pp\n}"),
    ("for3_esc_cond", I_, "for i := 0; i < @; i++ {\n\tf0 = func(z int) int { return z + i }\n}"),
    ("for3_esc_condb", B, "for i := 0; @ && i < b; i++ {\n\tdefer func() { x0 += i }()\n}"),
    ("for3_esc_post", I_, "for i := 0; i < b; i += @ {\n\tGP = &i\n}"),
    ("for3_esc_two", I_, "for i, j := @, 0; i < b; i, j = i+1, j+@ {\n\tpp = &j\n\tx0 += i\n}"),
    ("for3_esc_cont", B, "for i := 0; i < b; i++ {\n\tif @ {\n\t\tcontinue\n\t}\n\tpp = &i\n}"),
    ("range_kv", ANY, "for k, v := range @ {\n\t_ = k\n\t_ = v\n\tx0++\n}"),
    ("range_k", ANY, "for k := range @ {\n\t_ = k\n\tx0++\n\tif x0 > 9 {\n\t\tbreak\n\t}\n}"),
    ("range_none", ANY, "for range @ {\n\tx0++\n\tif x0 > 9 {\n\t\tbreak\n\t}\n}"),
    ("range_kv_esc", SL + ["map", "string"], "for k, v := range @ {\n\tf0 = func(z int) int { _ = k; _ = v; return z }\n}"),
    ("range_func_ret", ["seq"], "for v := range @ {\n\tif v > 2 {\n\t\treturn v, nil\n\t}\n\tx0 += v\n}"),
    ("range_func_defer", ["seq"], "for v := range @ {\n\tdefer func() { x0 += v }()\n\tif v > a {\n\t\tbreak\n\t}\n}"),
    ("range_body", B, "for _, v := range xs {\n\tif @ {\n\t\tcontinue\n\t}\n\tx0 += v\n}"),
    ("rangefunc_body", B, "for v := range seq {\n\tif @ {\n\t\treturn v, nil\n\t}\n\tif v > b {\n\t\tbreak\n\t}\n}"),
    # ---- select
    ("sel_send_val", I_, "select {\ncase ch <- @:\n\tx0 = 1\ndefault:\n\tx0 = 2\n}"),
    ("sel_send_chan", ["chan", "Ch"], "select {\ncase @ <- a:\n\tx0 = 1\ncase v := <-ch:\n\tx0 = v\n}"),
    ("sel_recv_chan", ["chan", "Ch"], "select {\ncase v, ok := <-@:\n\tx0 = v\n\tq = ok\ncase ch <- 1:\n}"),
    ("sel_recv_idx", I_, "select {\ncase v := <-chs[@]:\n\tx0 = v\ndefault:\n}"),
    ("sel_single", ["chan", "Ch"], "select {\ncase v := <-@:\n\tx0 = v\n}"),
    ("sel_single_send", I_, "select {\ncase ch <- @:\n}"),
    ("sel_body", B, "select {\ncase <-ch:\n\tif @ {\n\t\tx0 = 1\n\t}\ndefault:\n\tx0 = 2\n}"),
    ("sel_recv_assign", ["chan", "Ch"], "select {\ncase x0 = <-@:\ncase x1, q = <-ch:\n}"),
    # ---- calls
    ("call_arg", I_, "x0 = g(@)"),
    ("call_arg1", I_, "x0 = add(@, b)"),
    ("call_arg2", I_, "x0 = add(a, @)"),
    ("call_variadic", I_, "x0 = usei(a, @, b)"),
    ("call_variadic_any", ANY, "use(a, @, s)"),
    ("call_spread", SLT, "x0 = usei(@...)"),
    ("call_spread_any", SLT, "use(@...)"),
    ("call_spread_str", SLT, "x0 = uses(@...)"),
    ("call_spread2", SLT, "x0 = usei2(a, @...)"),
    ("call_spread2_first", I_, "x0 = usei2(@, xs...)"),
    ("call_method_spread", SLT, "x0 = pt.V(@...)"),
    ("call_recv", ["T", "*T", "N", "I"], "x0 = @.M(a)"),
    ("call_recv_ptr", ["*T"], "x0 = @.P(a)"),
    ("call_iface_arg", I_, "x0 = it.M(@)"),
    ("call_fnval", ["func", "Fn"], "x0 = @(a)"),
    ("call_multi", I_, "x0, q = g3(@)"),
    ("bi_len", ANY, "x0 = len(@)"),
    ("bi_cap", SLT + ["chan", "Ch", "[4]int", "*[4]int"], "x0 = cap(@)"),
    ("bi_append", I_, "sl = append(sl, @)"),
    ("bi_append_spread", SLT, "sl = append(sl, @...)"),
    ("bi_append_bytes", S_, "by = append(by, @...)"),
    ("bi_copy", SLT + S_, "x0 = copy(sl, @)"),
    ("bi_clear", SLT + ["map"], "clear(@)"),
    ("bi_min", I_ + S_, "_ = min(@, @)"),
    ("bi_max", I_, "x0 = max(b, @, a)"),
    ("bi_delete", S_, "delete(m, @)"),
    ("bi_make_len", I_, "sl = make([]int, @)"),
    ("bi_make_cap", I_, "sl = make([]int, a, @)"),
    ("bi_make_map", I_, "m = make(map[string]int, @)"),
    ("bi_make_chan", I_, "ch = make(chan int, @)"),
    ("bi_new", ANY, "_ = new(@)"),
    ("bi_panic", ANY, "if a > 100 {\n\tpanic(@)\n}"),
    ("bi_print", ANY, "print(@)"),
    # ---- index / slice
    ("idx_idx", I_, "x0 = xs[@]"),
    ("idx_base", SLT + S_ + ["map", "[4]int", "*[4]int"], "_ = @[a&1]"),
    ("idx_arr", I_, "x0 = arr[@]"),
    ("idx_store", I_, "arr[@] = a"),
    ("idx_store_sl", I_, "xs[@] = @"),
    ("idx_map", S_, "x0 = m[@]"),
    ("idx_map_ok", S_, "v, ok := m[@]\n_, _ = v, ok"),
    ("idx_map_store", S_, "m[@] = a"),
    ("idx_incdec", I_, "arr[@]++"),
    ("idx_str", I_, "x0 = int(s[@])"),
    ("sl2_lo", I_, "sl = xs[@:]"),
    ("sl2_hi", I_, "sl = xs[:@]"),
    ("sl3_lo", I_, "sl = xs[@:b:b]"),
    ("sl3_hi", I_, "sl = xs[a:@:b]"),
    ("sl3_max", I_, "sl = xs[a:b:@]"),
    ("sl3_all", I_, "sl = xs[@:@:@]"),
    ("sl3_nolo", I_, "sl = xs[:b:@]"),
    ("sl3_base", SLT + ["[4]int", "*[4]int"], "_ = @[a:b:b]"),
    ("sl2_base", SLT + S_ + ["[4]int", "*[4]int"], "_ = @[a:]"),
    ("sl3_arr", I_, "sl = arr[a:b:@]"),
    ("sl3_parr", I_, "sl = (&arr)[:@:@]"),
    ("sl_str", I_, "s0 = s[@:]"),
    # ---- composite literals
    ("cl_struct_kv", I_, "t0 = T{a: @, b: b}"),
    ("cl_struct_pos", I_, "t0 = T{@, b, s, nil, nil}"),
    ("cl_struct_str", S_, "t0 = T{s: @}"),
    ("cl_struct_ptr", ["*T"], "t0 = T{n: @}"),
    ("cl_embedded", I_, "u0 = U{T: T{a: @}, k: [4]int{@, 1, 2, 3}}"),
    ("cl_embedded_val", ["T"], "u0 = U{T: @}"),
    ("cl_ptr", I_, "pt = &T{a: @}"),
    ("cl_slice", I_, "_ = []int{a, @, b}"),
    ("cl_slice_idx", I_, "sl = []int{2: @, 5: a}"),
    ("cl_arr_full", I_, "arr = [4]int{@, a, b, 1}"),
    ("cl_arr_part", I_, "arr = [4]int{1: @}"),
    ("cl_arr_dots", I_, "_ = [...]int{@, @}"),
    ("cl_map_val", I_, 'm = map[string]int{s: @, "k": a}'),
    ("cl_map_key", S_, "m = map[string]int{@: a}"),
    ("cl_nested_sl", I_, "_ = [][]int{{@}, {a, b}}"),
    ("cl_nested_struct", I_, "_ = []T{{a: @}, {b: @}}"),
    ("cl_nested_ptr", I_, "_ = []*T{{a: @}}"),
    ("cl_nested_map", I_, '_ = map[string]T{"a": {a: @}}'),
    ("cl_any", ANY, "_ = []any{@, a, s}"),
    ("cl_iface", ["T", "*T", "N", "I"], "_ = []I{@}"),
    ("cl_box", I_, "bx = Box[int]{v: @}"),
    # ---- defer / go
    ("defer_arg", I_, "defer g(@)"),
    ("defer_lit", I_, "defer func(v int) { x0 += v }(@)"),
    ("defer_method", I_, "defer pt.P(@)"),
    ("defer_any", ANY, "defer use(@)"),
    ("defer_spread", SLT, "defer usei(@...)"),
    ("defer_fnval", ["func", "Fn"], "defer @(a)"),
    ("defer_recv", ["T", "*T", "N", "I"], "defer @.M(a)"),
    ("go_arg", I_, "go g(@)"),
    ("go_lit", I_, "go func(v int) { _ = v }(@)"),
    ("go_spread", SLT, "go use(@...)"),
    ("go_fnval", ["func", "Fn"], "go @(a)"),
    # ---- return (named results)
    ("ret_val", I_, "if a > 50 {\n\treturn @, nil\n}"),
    ("ret_bare", I_, "if a > 50 {\n\tr = @\n\treturn\n}"),
    ("ret_call", I_, "if a > 50 {\n\treturn (&u0).Q()\n}\nx0 = @"),
    # ---- assignments, operators, conversions
    ("asg", ANY, "y := @\n_ = y"),
    ("asg_var", ANY, "var y = @\n_ = y"),
    ("asg_int", I_, "x0 = @"),
    ("asg_any", ANY, "i0 = @"),
    ("asg_any_e", ANY, "e = @"),
    ("asg_iface", ["T", "*T", "N", "I"], "it = @"),
    ("asg_tuple1", I_, "x0, x1 = @, x0"),
    ("asg_tuple2", I_, "x0, x1 = x1, @"),
    ("asg_op", I_ + S_, "y := @\ny += @"),
    ("asg_shift", I_, "x0 <<= @"),
    ("asg_deref", I_, "if pp != nil {\n\t*pp = @\n}"),
    ("asg_field", I_, "t0.a = @"),
    ("asg_pfield", I_, "pt.a = @"),
    ("asg_fn", ["func", "Fn"], "f0 = @"),
    ("asg_blank", ANY, "_ = @"),
    ("asg_global", I_, "G = @"),
    ("send", I_, "ch <- @"),
    ("send_chan", ["chan", "Ch"], "@ <- a"),
    ("recv_chan", ["chan", "Ch"], "x0 = <-@"),
    ("recv_ok", ["chan", "Ch"], "v, ok := <-@\n_, _ = v, ok"),
    ("un_neg", I_, "x0 = -@"),
    ("un_not", B, "p = !@"),
    ("bin_arith", I_, "x0 = a + @*b"),
    ("bin_cmp", I_ + S_, "p = @ < @"),
    ("bin_eq", ANY, "p = any(@) == e"),
    ("bin_eq_self", ANY, "y := @\np = y == y"),
    ("bin_and", B, "p = q && @"),
    ("bin_shift", I_, "x0 = a << @"),
    ("tassert", ANY, "x0 = any(@).(int)"),
    ("tassert_ok", ANY, "v, ok := any(@).(I)\n_, _ = v, ok"),
    ("addr", ANY, "y := @\npy := &y\n_ = py"),
    ("conv_n", I_, "n0 = N(@)"),
    ("conv_float", I_, "fl = float64(@)"),
    ("conv_str_rune", I_, "s0 = string(rune(@))"),
    ("conv_bytes", S_, "by = []byte(@)"),
    ("conv_runes", S_, "_ = []rune(@)"),
    ("conv_str", ["[]byte"], "s0 = string(@)"),
    ("conv_any", ANY, "i0 = any(@)"),
    ("conv_ints", SL, "_ = Ints(@)"),
    ("conv_sl", SL, "sl = []int(@)"),
    ("conv_fn", ["func", "Fn"], "_ = Fn(@)"),
    ("conv_arr", SL, "if len(xs) >= 4 {\n\tarr = [4]int(@)\n}"),
    ("conv_parr", SL, "if len(xs) >= 4 {\n\t_ = (*[4]int)(@)\n}"),
    ("gen_id", ANY, "_ = id(@)"),
    ("gen_first", SLT, "_ = first(@)"),
    ("gen_sum", SLT, "_ = sum(@)"),
    ("gen_mapf", SLT, "_ = mapf(@, func(v int) int { return v })"),
    ("gen_mapf_fn", ["func", "Fn"], "_ = mapf(xs, @)"),
    ("gen_box", I_, "bx.Set(@)"),
    ("gen_conv", I_, "_ = conv[int, int64](@)"),
    ("gen_pick", ANY, "_ = pick(p, @, @)"),
    ("tp_conv", I_, "gy = Y(@)"),
    ("tp_conv_back", I_, "x0 = int(gy) + @"),
    ("tp_assert", ANY, "gx, _ = any(@).(X)"),
    ("tp_sum", I_, "gy = sum([]Y{gy, Y(@)})"),
    ("tp_box", ANY, "var gb Box[X]\ngb.Set(gx)\ngx = gb.Get()\n_ = @"),
    ("tp_id", ANY, "gx = id(gx)\n_ = id(@)"),
    ("clo_capture", ANY, "f0 = func(v int) int {\n\t_ = @\n\treturn v\n}"),
    ("clo_call", ANY, "func() {\n\t_ = @\n}()"),
    # ---- labels, goto
    ("goto_back", I_, "L:\n\tx0++\n\tif x0 < @ {\n\t\tgoto L\n\t}"),
    ("goto_fwd", B, "if @ {\n\tgoto L1\n}\nx0 = 1\nL1:\n\tx0++"),
    ("goto_irred", B, "if @ {\n\tgoto L3\n}\nL2:\n\tx0++\nL3:\n\tx1++\n\tif x1 < b && @ {\n\t\tgoto L2\n\t}"),
    ("lab_cont", B, "L:\n\tfor i := 0; i < b; i++ {\n\t\tfor j := range xs {\n\t\t\tif @ {\n\t\t\t\tcontinue L\n\t\t\t}\n\t\t\tif j > i {\n\t\t\t\tbreak L\n\t\t\t}\n\t\t}\n\t}"),
    ("lab_break_sw", B, "L:\n\tswitch a {\n\tcase 1:\n\t\tif @ {\n\t\t\tbreak L\n\t\t}\n\t\tx0 = 1\n\t\tfallthrough\n\tcase 2:\n\t\tx0++\n\t}"),
    ("lab_break_sel", B, "L:\n\tselect {\n\tcase <-ch:\n\t\tif @ {\n\t\t\tbreak L\n\t\t}\n\t\tx0 = 1\n\tdefault:\n\t}"),
]

# (name, function kind, wrapper with `$S` = the statement); kinds: plain / generic / method
GRID_CTXS = [
    ("plain", "plain", "$S"),
    ("if", "plain", "if a > 0 {\n$S\n} else {\n\tx1 = 2\n}"),
    ("else", "plain", "if a > 0 {\n\tx1 = 1\n} else {\n$S\n}"),
    ("for3esc", "plain", "for ii := 0; ii < b; ii++ {\n\tpp = &ii\n$S\n}"),
    ("rangefunc", "plain", "for vv := range seq {\n\tx1 = vv\n$S\n\tif vv > 2 {\n\t\tbreak\n\t}\n}"),
    ("rangefunc_defer", "plain", "for vv := range seq {\n\tdefer func() { x1 += vv }()\n$S\n}"),
    ("closure", "plain", "func() {\n$S\n}()"),
    ("swcase", "plain", "switch a {\ncase 1:\n$S\n\tfallthrough\ncase 2:\n\tx1++\ndefault:\n}"),
    ("goto", "plain", "if a > 0 {\n\tgoto L9\n}\nx1 = 1\nL9:\n$S\nif x1 < 0 {\n\tgoto L9\n}"),
    ("select", "plain", "select {\ncase vv := <-ch:\n\tx1 = vv\n$S\ndefault:\n}"),
    ("recover", "plain", "defer func() {\n\tif vv := recover(); vv != nil {\n\t\tr = -1\n\t}\n}()\n$S"),
    ("tswitch", "plain", "switch zz := e.(type) {\ncase int:\n\tx1 = zz\n$S\ndefault:\n}"),
    ("labloop", "plain", "L8:\n\tfor x1 < 10 {\n\t\tx1++\n\t\tfor range 2 {\n$S\n\t\t\tif p {\n\t\t\t\tcontinue L8\n\t\t\t}\n\t\t\tbreak L8\n\t\t}\n\t}"),
    ("generic", "generic", "$S"),
    ("method", "method", "$S"),
]


def grid_accepts(slot_tags, etag):
    return "*" in slot_tags or etag in slot_tags


GRID_LIT = {"anys", "strs", "sany", "tlit", "ptlit", "box", "arrlit", "fnlit"}    # composite / function literals: always parenthesised
GRID_OPER = {"and", "or", "andor", "nand", "cmpand", "bi_or", "recv"}              # operator expressions: bare where the hole is delimited


def grid_fill(tmpl, ename, etext):
    """substitute the expression for every hole; parenthesise where the grammar needs it (a composite literal in
    a statement header, an operator expression next to a selector / call / index / unary operator)"""
    out, i = [], 0
    while True:
        j = tmpl.find("@", i)
        if j < 0:
            out.append(tmpl[i:])
            return "".join(out)
        before = tmpl[j - 1] if j > 0 else " "
        after = tmpl[j + 1] if j + 1 < len(tmpl) else " "
        delimited = after not in ".([" and before not in "-!<&*^+"
        bare = ename not in GRID_LIT and (ename not in GRID_OPER or delimited)
        out.append(tmpl[i:j] + (etext if bare else "(" + etext + ")"))
        i = j + 1


GRID_PARAMS = [("a", "int"), ("b", "int"), ("p", "bool"), ("q", "bool"), ("s", "string"), ("xs", "[]int"), ("m", "map[string]int"),
               ("ch", "chan int"), ("e", "any"), ("pt", "*T"), ("seq", "func(func(int) bool)")]
GRID_ZERO = {"int": "1", "bool": "true", "string": '"s"'}
_WORD = re.compile(r"[A-Za-z_][A-Za-z_0-9]*")


def grid_function(name, slot, expr, gctx):
    """(text of one candidate function, text of its caller or None); only the parameters and locals the body
    mentions are declared, so that the candidates stay small"""
    sname, _, tmpl = slot
    ename, _, etext = expr
    cname, kind, wrap = gctx
    stmt = grid_fill(tmpl, ename, etext)
    body = wrap.replace("$S", "\n".join("\t" + l for l in stmt.split("\n")))
    words = set(_WORD.findall(body))
    params = [(v, ty) for v, ty in GRID_PARAMS if v in words]
    locs = [(v, ty) for v, ty in GRID_LOCALS if v in words]
    recv = "(rc *U) " if kind == "method" else ""
    tparams = "[X any, Y Num]" if kind == "generic" else ""
    out = ["// slot=%s expr=%s ctx=%s" % (sname, ename, cname),
           "func %s%s%s(%s) (r int, err error) {" % (recv, name, tparams, ", ".join("%s %s" % pv for pv in params))]
    for v, ty in locs:
        out.append("\tvar %s %s" % (v, ty))
    if kind == "generic":
        out += ["\tvar gx X", "\tvar gy Y", "\t_, _ = gx, gy"]
    if kind == "method":
        out += ["\tr = rc.a"]
    out += ["\t" + l for l in body.split("\n")]
    if locs:
        out.append("\tuse(%s)" % ", ".join(v for v, _ in locs))
    out += ["\treturn r, err", "}"]
    caller = None
    if kind == "generic":
        args = ", ".join(GRID_ZERO.get(ty, "nil") for _, ty in params)
        caller = "func c_%s() {\n\t%s[string, int](%s)\n\t%s[*T, N](%s)\n}" % (name, name, args, name, args)
    return "\n".join(out), caller


def grid_candidates(rng, full):
    """list of (slot, expr, ctx) index triples.
    thorough (full): the complete product slot x expression (accepted by tag) x context.
    quick: every core expression in every slot (plain context); every other expression in every slot for a
    third of the slots; every slot in every context for a third of the slots (expression in rotation); every
    expression in every context (slot in rotation).  The thirds and rotations are chosen by the seed, so three
    seeds cover all pairs."""
    ok = {si: [ei for ei, e in enumerate(GRID_EXPRS) if grid_accepts(s[1], e[1])] for si, s in enumerate(GRID_SLOTS)}
    cands = []
    if full:
        for ci in range(len(GRID_CTXS)):
            for si in range(len(GRID_SLOTS)):
                for ei in ok[si]:
                    cands.append((si, ei, ci))
        return cands
    off = rng.below(1 << 20)
    seen = set()

    def add(c):
        if c not in seen:
            seen.add(c)
            cands.append(c)
    for si in range(len(GRID_SLOTS)):
        for ei in ok[si]:
            if GRID_EXPRS[ei][0] in GRID_CORE or (si + off) % 3 == 0:
                add((si, ei, 0))
    for ci in range(1, len(GRID_CTXS)):
        for si in range(len(GRID_SLOTS)):
            if (si + ci + off) % 3 == 0:
                es = ok[si]
                add((si, es[(off + si + ci) % len(es)], ci))
        for ei in range(len(GRID_EXPRS)):
            ss = [si for si in range(len(GRID_SLOTS)) if ei in ok[si]]
            add((ss[(off + ei + ci) % len(ss)], ei, ci))
    return cands


def grid_files(cands, per_file):
    """[(file text, {function name: (triple, text)})]"""
    files = []
    for k in range(0, len(cands), per_file):
        fns, calls, table = [], [], {}
        for j, (si, ei, ci) in enumerate(cands[k:k + per_file]):
            name = "k%d" % (k + j)
            text, caller = grid_function(name, GRID_SLOTS[si], GRID_EXPRS[ei], GRID_CTXS[ci])
            fns.append(text)
            table[name] = ((si, ei, ci), text)
            if caller:
                calls.append(caller)
        files.append((GRID_PRELUDE + "\n" + "\n\n".join(fns + calls) + "\n", table))
    return files


# ======================================================================= running dump | validator
GRID_NAME = re.compile(r"\.(k\d+)(?:[\[$]|$)")


def grid_caller_of(text):
    """the caller that instantiates a generic grid candidate (recomputed from its header)"""
    m = re.search(r"^func (k\d+)\[X any, Y Num\]\((.*?)\) \(r int", text, re.M)
    if not m:
        return None
    args = ", ".join(GRID_ZERO.get(p.split(" ", 1)[1], "nil") for p in m.group(2).split(", ") if p)
    return "func c_%s() {\n\t%s[string, int](%s)\n\t%s[*T, N](%s)\n}\n" % (m.group(1), m.group(1), args, m.group(1), args)


AWK = r'''/^C /{ i = index($0, " chk "); print substr($0, i + 1); next } { print > META }'''
PANIC_RE = re.compile(r"^(panic: |fatal error: |goroutine \d+ \[)", re.M)


def unhex(s):
    return "" if s == "-" else bytes.fromhex(s).decode("utf-8", "replace")


_COUNTER = itertools.count()
_LOCK = threading.Lock()


def next_id():
    with _LOCK:
        return next(_COUNTER)


class Job:
    """one run of c02dump piped into c02driver"""

    def __init__(self, origin, kind, items, modes, dir=None, texts=None, tables=None):
        self.origin, self.kind, self.items, self.modes, self.dir, self.texts = origin, kind, list(items), list(modes), dir, texts or {}
        # kind "funcs": file -> {candidate function name: ((slot, expr, ctx), text)}
        self.tables = tables or {}

    def args(self, extra=()):
        a = ["-modes", ",".join(self.modes)] + list(extra)
        if self.kind == "funcs":
            return a + ["-funcs"] + self.items
        if self.kind == "src":
            return a + ["-src"] + self.items
        return a + ["-dir", self.dir, "-pkgs"] + self.items


class Runner:
    def __init__(self, ctx, tool):
        self.ctx, self.tool = ctx, tool
        self.driver = vlib.driver_path("C02")
        self.stats = {"functions": 0, "nontrivial": 0, "instructions": 0, "phis": 0, "cross_block_uses": 0,
                      "typed_instructions": 0, "packages": 0, "max_blocks": 0, "max_instrs": 0, "unreachable_blocks": 0,
                      "functions_with_unreachable_blocks": 0, "dom_sets_failed_recheck": 0, "instructions_operands_reordered": 0}
        self.grid_dropped = {}   # (file, function) -> first type error
        self.grid_built = set()  # (file, function)
        self.by_mode = {}
        self.by_origin = {}
        self.skipped = []
        self.hashes = set()
        self.failures = []       # rejected functions
        self.crashes = []        # builder panics / hangs
        self.samples = []

    # ---- low level
    def pipeline(self, job, timeout):
        base = self.ctx.path("run", "j%06d" % next_id())
        meta, out, err = base + ".meta", base + ".out", base + ".err"
        open(meta, "w").close()
        dump = " ".join(shquote(x) for x in [self.tool] + job.args())
        cmd = ("ulimit -s unlimited 2>/dev/null; set -o pipefail; %s 2> %s | awk -v META=%s %s | %s > %s"
               % (dump, shquote(err), shquote(meta), shquote(AWK), shquote(self.driver), shquote(out)))
        p = subprocess.Popen(["bash", "-c", cmd], env=vlib.go_env(), cwd=job.dir or None, start_new_session=True,
                             stdout=subprocess.DEVNULL, stderr=subprocess.PIPE, text=True)
        hung = False
        try:
            _, se = p.communicate(timeout=timeout)
        except subprocess.TimeoutExpired:
            hung = True
            try:
                os.killpg(p.pid, signal.SIGQUIT)
                time.sleep(2)
                os.killpg(p.pid, signal.SIGKILL)
            except OSError:
                pass
            _, se = p.communicate()
        res = {"rc": p.returncode, "hung": hung, "meta": open(meta, errors="replace").read(),
               "out": open(out, errors="replace").read() if os.path.exists(out) else "",
               "err": (open(err, errors="replace").read() if os.path.exists(err) else "") + (se or "")}
        for f in (meta, out, err):
            try:
                os.remove(f)
            except OSError:
                pass
        return res

    def run(self, job, timeout=900, sanity=False):
        """run a job, account every function; crashes are bisected to one item."""
        res = self.pipeline(job, timeout)
        crashed = res["hung"] or (res["rc"] != 0 and PANIC_RE.search(res["err"]))
        if res["rc"] != 0 and not crashed:
            raise vlib.HarnessError("c02dump|c02driver failed (rc=%s) for %s %s: %s" % (res["rc"], job.origin, job.items[:3], res["err"][-2000:]))
        if crashed and job.kind == "funcs":
            self.bisect_funcs(job, timeout)
            return
        if crashed:
            if len(job.items) > 1 or len(job.modes) > 1:
                # attribute: every item alone, every mode alone, serially where the mode allows
                found = False
                for it in job.items:
                    for m in job.modes:
                        sub = Job(job.origin, job.kind, [it], [m], job.dir, job.texts)
                        r2 = self.pipeline(sub, timeout)
                        if r2["hung"] or (r2["rc"] != 0 and PANIC_RE.search(r2["err"])):
                            self.crash(sub, r2)
                            found = True
                        else:
                            self.account(sub, r2, sanity)
                if not found:
                    self.crash(job, res, note="not reproducible with one item and one mode at a time")
            else:
                self.crash(job, res)
            return
        self.account(job, res, sanity)

    def bisect_funcs(self, job, timeout):
        """a builder panic / hang while building grid candidates: find single candidate functions (and the mode)
        that reproduce it, by halving the list of candidates of each file"""
        found = 0
        for it in job.items:
            table = job.tables.get(it, {})
            for m in job.modes:
                work = [sorted(table, key=lambda n: int(n[1:]))]
                while work and found < 4:
                    names = work.pop()
                    src = GRID_PRELUDE + "\n" + "\n\n".join(table[n][1] + "\n" + (grid_caller_of(table[n][1]) or "") for n in names) + "\n"
                    p = self.ctx.path("run", "bis%06d.go" % next_id())
                    open(p, "w").write(src)
                    sub = Job(job.origin, "funcs", [p], [m], None, {p: src}, {p: {n: table[n] for n in names}})
                    r2 = self.pipeline(sub, timeout)
                    bad = r2["hung"] or (r2["rc"] != 0 and PANIC_RE.search(r2["err"])) or "builder panic" in "".join(
                        unhex(l.split(" ")[3]) for l in r2["meta"].splitlines() if l.startswith("X "))
                    if not bad:
                        if len(names) == len(table):
                            self.account(sub, r2)
                        continue
                    if len(names) == 1:
                        (si, ei, ci), _ = table[names[0]]
                        if r2["rc"] == 0 and not r2["hung"]:
                            self.account(sub, r2)      # records the X "builder panic" as a crash
                            self.crashes[-1]["grid"] = {"slot": GRID_SLOTS[si][0], "expr": GRID_EXPRS[ei][0], "ctx": GRID_CTXS[ci][0]}
                        else:
                            self.crash(sub, r2, note="grid slot=%s expr=%s ctx=%s" % (GRID_SLOTS[si][0], GRID_EXPRS[ei][0], GRID_CTXS[ci][0]))
                        found += 1
                    else:
                        h = len(names) // 2
                        work += [names[h:], names[:h]]
        if not found:
            self.crashes.append({"origin": job.origin, "kind": "panic", "items": job.items[:5], "modes": job.modes, "stderr": "",
                                 "note": "crash of the whole grid job not reproducible on its parts", "source": None})

    def crash(self, job, res, note=""):
        self.crashes.append({"origin": job.origin, "kind": "hang" if res["hung"] else "panic", "items": job.items[:5],
                             "modes": job.modes, "stderr": res["err"][-8000:], "note": note,
                             "source": job.texts.get(job.items[0]) if job.kind in ("src", "funcs") else None})

    def account(self, job, res, sanity=False):
        pkgs, funcs = {}, []
        for line in res["meta"].splitlines():
            t = line.split(" ")
            if t[0] == "P":
                pkgs[int(t[1])] = {"path": unhex(t[2]), "file": unhex(t[3])}
            elif t[0] == "X":
                pid, mode, msg = int(t[1]), unhex(t[2]), unhex(t[3])
                pk = pkgs.get(pid, {"path": "?", "file": ""})
                if msg.startswith("builder panic"):
                    self.crashes.append({"origin": job.origin, "kind": "sanity-panic" if "SanityCheck failed" in msg else "panic",
                                         "items": job.items[:5], "modes": [mode], "stderr": msg[:8000] + "\n--- stderr\n" + res["err"][-6000:],
                                         "note": "", "source": job.texts.get(job.items[0]) if job.kind == "src" and len(job.items) == 1 else None})
                elif job.kind in ("src", "funcs"):
                    raise vlib.HarnessError("generated/corpus program rejected (%s): %s" % (pk["file"] or pk["path"], msg[:500]))
                else:
                    self.skipped.append("%s: %s" % (pk["path"], msg[:120]))
            elif t[0] == "D":
                pk = pkgs.get(int(t[1]), {"path": "?", "file": ""})
                if not unhex(t[2]).startswith("c_"):
                    self.grid_dropped[(pk["file"], unhex(t[2]))] = unhex(t[3])[:160]
            elif t[0] == "F":
                funcs.append({"pid": int(t[2]), "name": unhex(t[3]), "mode": t[4], "nb": int(t[5]), "ni": int(t[6]),
                              "synthetic": unhex(t[7])})
        outs = res["out"].splitlines()
        if len(outs) != len(funcs):
            raise vlib.HarnessError("c02driver: %d answers for %d functions (%s %s)\n%s" % (len(outs), len(funcs), job.origin, job.items[:3], res["err"][-1500:]))
        st = self.stats
        st["packages"] += len(set(p["path"] for p in pkgs.values()))
        for f, o in zip(funcs, outs):
            if o.startswith("bad-op"):
                raise vlib.HarnessError("c02driver rejected the dump of %s (%s, mode %s): unknown record/instruction kind?" % (f["name"], job.origin, f["mode"]))
            head, _, h = o.partition(" # h=")
            verdict = head.split(" ", 1)[0]
            kv = dict(x.split("=", 1) for x in head.split(" | ")[0].split(" ")[1:] if "=" in x)
            st["functions"] += 1
            self.by_mode[f["mode"]] = self.by_mode.get(f["mode"], 0) + 1
            self.by_origin[job.origin] = self.by_origin.get(job.origin, 0) + 1
            nb, ni = int(kv.get("nb", 0)), int(kv.get("ni", 0))
            st["instructions"] += ni
            st["phis"] += int(kv.get("phi", 0))
            st["cross_block_uses"] += int(kv.get("xuse", 0))
            st["typed_instructions"] += int(kv.get("typed", 0))
            st["unreachable_blocks"] += int(kv.get("unreach", 0))
            st["dom_sets_failed_recheck"] += int(kv.get("vetbad", 0))
            st["instructions_operands_reordered"] += int(kv.get("reordered", 0))
            st["functions_with_unreachable_blocks"] += 1 if int(kv.get("unreach", 0)) else 0
            st["max_blocks"] = max(st["max_blocks"], nb)
            st["max_instrs"] = max(st["max_instrs"], ni)
            if nb >= 2 and int(kv.get("xuse", 0)) >= 1:
                st["nontrivial"] += 1
                if h not in self.hashes:
                    self.hashes.add(h)
                    if len(self.samples) < 2 and int(kv.get("phi", 0)) >= 1:
                        self.samples.append({"origin": job.origin, "function": f["name"], "mode": f["mode"], "verdict": head[:200],
                                             "package_or_file": (pkgs.get(f["pid"]) or {}).get("path", "")})
            gm = GRID_NAME.search(f["name"]) if job.kind == "funcs" else None
            pk = pkgs.get(f["pid"], {"path": "", "file": ""})
            if gm:
                self.grid_built.add((pk["file"], gm.group(1)))
            if verdict != "ok":
                x = {"origin": job.origin, "package": pk["path"], "file": pk["file"], "function": f["name"],
                     "mode": f["mode"], "synthetic": f["synthetic"], "blocks": nb, "instrs": ni,
                     "clauses": verdict.split(":", 1)[-1], "details": head.partition(" | ")[2][:3000],
                     "source": job.texts.get(pk["file"]), "kind": job.kind, "dir": job.dir,
                     "item": pk["file"] if job.kind in ("src", "funcs") else pk["path"]}
                ent = job.tables.get(pk["file"], {}).get(gm.group(1)) if gm else None
                if ent:
                    # a grid candidate is self-contained: the replay carries the prelude and this one function
                    (si, ei, ci), text = ent
                    x["source"] = GRID_PRELUDE + "\n" + text + "\n" + (grid_caller_of(text) or "")
                    x["grid"] = {"slot": GRID_SLOTS[si][0], "expr": GRID_EXPRS[ei][0], "ctx": GRID_CTXS[ci][0]}
                    x["kind"] = "src"
                self.failures.append(x)

    # ---- enrich a failure with the IR text and the case line (re-dump of the one item)
    def enrich(self, f):
        job = Job(f["origin"], f["kind"], [f["item"]], [f["mode"]], f["dir"])
        name = f["function"]
        try:
            p = subprocess.run([self.tool] + job.args(["-print", name]), env=vlib.go_env(), cwd=job.dir or None,
                               stdout=subprocess.PIPE, stderr=subprocess.PIPE, text=True, timeout=900)
        except subprocess.TimeoutExpired:
            return
        text = p.stderr
        # keep only the function with exactly this name
        blocks = re.split(r"(?m)^(?=# Name: )", text)
        want = [b for b in blocks if b.startswith("# Name: " + name + "\n")]
        f["ir_text"] = ("\n".join(want) or text)[:60000]
        fid = None
        for line in p.stdout.splitlines():
            if line.startswith("F "):
                t = line.split(" ")
                fid = t[1] if unhex(t[3]) == name else None
            elif line.startswith("C ") and fid is not None and line.split(" ", 2)[1] == fid:
                case = line.split(" ", 2)[2]
                f["case_line"] = case if len(case) < 400000 else case[:400000] + " ...truncated"
                break


def first_line(stderr):
    m = PANIC_RE.search(stderr or "")
    if m:
        return stderr[m.start():].splitlines()[0][:200]
    return (stderr or "").strip().splitlines()[0][:200] if (stderr or "").strip() else ""


def shquote(s):
    return "'" + s.replace("'", "'\\''") + "'"


def chunks(xs, k):
    return [xs[i:i + k] for i in range(0, len(xs), k)]


def go_list(ctx, cwd, patterns):
    rc, so, se = vlib.run([vlib.GO, "list", "-e"] + patterns, cwd=cwd, env=vlib.go_env(), timeout=600)
    if rc != 0:
        raise vlib.HarnessError("go list %s failed: %s" % (patterns, se[-1000:]))
    return [l.strip() for l in so.splitlines() if l.strip()]


def list_testdata(repo):
    """package directories under */testdata/ (GOPATH-style `src` trees excluded)"""
    dirs = []
    for root, ds, fs in os.walk(repo):
        if "/testdata/" not in root + "/" or "/website" in root or "/.git" in root or "/_benchmarks" in root:
            continue
        if "/src/" in root + "/":
            continue
        if any(f.endswith(".go") and not f.endswith("_test.go") for f in fs):
            dirs.append("./" + os.path.relpath(root, repo))
    dirs.sort()
    return dirs


def ir_testdata_files(repo):
    td = os.path.join(repo, "go", "ir", "testdata")
    out = []
    for root, _, fs in os.walk(td):
        if os.sep + "src" + os.sep in root + os.sep:
            continue
        out += [os.path.join(root, f) for f in sorted(fs) if f.endswith(".go")]
    return sorted(out)


def mode_sample(rng, k):
    """'-' and 'N' always, plus k seeded others (one of them with G)"""
    rest = [m for m in ALL_MODES if m not in ("-", "N")]
    pick = rng.shuffle(rest)[:k]
    if not any("G" in m for m in pick):
        pick[-1] = rng.choice([m for m in rest if "G" in m])
    return ["-", "N"] + sorted(set(pick))


def controls(ctx):
    """validator self-test (corpus/C02/controls.txt): a real dump and single-edit corruptions of it with the
    verdict each must get; a validator (or parser) that lost a clause is a machinery error, not a finding."""
    p = os.path.join(CORPUS, "controls.txt")
    if not os.path.exists(p):
        raise vlib.HarnessError("corpus/C02/controls.txt is missing")
    cases = []
    for line in open(p):
        line = line.strip()
        if not line or line.startswith("#"):
            continue
        name, want, case = line.split(" ", 2)
        cases.append((name, want, case))
    outs = vlib.run_model(ctx, "C02", [c for _, _, c in cases])
    bad = [(n, w, o.split(" ")[0]) for (n, w, _), o in zip(cases, outs) if o.split(" ")[0] != w]
    if bad:
        raise vlib.HarnessError("validator self-test failed (name, expected, got): %s" % bad)
    return len(cases), sum(1 for _, w, _ in cases if w != "ok")


def kinds_tie(ctx, tool):
    """G-style tie: the instruction kinds of the Lean model (allKinds, proved total over the typing table)
    against the types of package go/ir of the tree under test that implement ir.Instruction."""
    rc, so, se = vlib.run([tool, "-kinds", "-dir", vlib.REPO], env=vlib.go_env(), timeout=900)
    if rc != 0:
        raise vlib.HarnessError("c02dump -kinds failed: " + se[-1500:])
    tree = {}
    for line in so.splitlines():
        t = line.split()
        if len(t) == 3 and t[0] == "K":
            tree[t[1]] = t[2]
    out = vlib.run_model(ctx, "C02", ["kinds"])[0]
    model = dict(x.split(":") for x in out.split())
    return tree, model


# ======================================================================= the run
def replay(ctx, R):
    rp = json.load(open(ctx.replay))
    cases = [c for c in ([rp.get("first")] + (rp.get("cases") or [])) if c]
    for i, c in enumerate(cases):
        modes = [c["mode"]] if c.get("mode") else (c.get("modes") or ["-"])
        if c.get("source"):
            p = ctx.path("replay", "r%d.go" % i)
            open(p, "w").write(c["source"])
            job = Job("replay", "src", [p], modes, None, {p: c["source"]})
        elif c.get("kind") == "pkgs" or c.get("package"):
            job = Job("replay", "pkgs", [c.get("item") or c["package"]], modes, vlib.REPO)
        else:
            continue
        R.run(job)
    want = set((c.get("function"), c.get("mode")) for c in cases if c.get("function"))
    if want:
        R.failures = [f for f in R.failures if (f["function"], f["mode"]) in want]


def run(ctx):
    timing = {}
    t0 = [time.time()]

    def lap(name):
        timing[name] = round(time.time() - t0[0], 1)
        t0[0] = time.time()

    # replays of earlier runs of this property are stale once a new run starts
    rdir = os.path.join(vlib.VERIF, "replays", ctx.prop)
    if os.path.isdir(rdir) and not ctx.replay:
        for fn in os.listdir(rdir):
            if fn.endswith(".json"):
                try:
                    os.remove(os.path.join(rdir, fn))
                except OSError:
                    pass
    lean_ok, lean_broke = vlib.std_lean_phase(ctx, MODULES, THEOREMS)
    lap("lean_build_audit")
    have_driver = os.path.exists(vlib.driver_path("C02"))
    tool = vlib.build_harness(ctx, "c02dump")
    lap("go_build")
    R = Runner(ctx, tool)
    quick = ctx.quick
    hist = {}
    if not have_driver:
        ctx.violation("lean_build.json", {"what": "the Lean validator does not build, nothing can be validated",
                                          "lean": lean_broke, "theorems": THEOREMS}, nofail=True)
        return vlib.finish(ctx, "translation_validation")

    ncontrols, nrejected = controls(ctx)
    ctx.coverage["validator_selftest_cases"] = ncontrols
    ctx.coverage["validator_selftest_rejected_as_expected"] = nrejected
    rng = vlib.SplitMix(ctx.seed).fork("c02/modes")
    workers = 6 if quick else 8

    grid_info = {}

    def explore():
        nonlocal hist
        jobs = []
        # 1. corpus (fixed regression programs), every mode
        corpus = sorted(os.path.join(CORPUS, f) for f in os.listdir(CORPUS) if f.endswith(".go")) if os.path.isdir(CORPUS) else []
        if corpus:
            texts = {p: open(p).read() for p in corpus}
            for ms in chunks(ALL_MODES, 8):
                jobs.append(Job("corpus", "src", corpus, ms, None, texts))
        # 2. go/ir's own test inputs (single files), every mode; files that do not type-check alone are skipped
        tfiles = ir_testdata_files(vlib.REPO)
        if tfiles:
            texts = {p: open(p).read() for p in tfiles}
            for ms in chunks(ALL_MODES, 8):
                jobs.append(Job("go/ir/testdata", "srcopt", tfiles, ms, None, texts))
        # 3. generated programs, every mode
        nfiles, per = (16, 10) if quick else (160, 16)
        files, texts, hist = gen_sources(ctx, nfiles, per, "main")
        for group in chunks(files, 4 if quick else 8):
            tx = {p: texts[p] for p in group}
            for ms in chunks(ALL_MODES, 8):
                jobs.append(Job("generated", "src", group, ms, None, tx))
        # 3b. the exhaustive grid: control-flow creating expression x operand slot x surrounding context
        gr = vlib.SplitMix(ctx.seed).fork("c02/grid")
        cands = grid_candidates(gr, not quick)
        gfiles = grid_files(cands, 250)
        gmodes = ["-", "N", "DG", "NDGL"] if quick else ALL_MODES
        gpaths, gtexts, gtables = [], {}, {}
        for i, (text, table) in enumerate(gfiles):
            p = ctx.path("gen", "grid", "q%04d.go" % i)
            with open(p, "w") as fh:
                fh.write(text)
            gpaths.append(p)
            gtexts[p] = text
            gtables[p] = table
        grid_info.update({"candidates": len(cands), "files": len(gpaths), "modes": gmodes, "tables": gtables})
        for group in chunks(gpaths, 3 if quick else 4):
            for ms in chunks(gmodes, 4 if quick else 8):
                jobs.append(Job("grid", "funcs", group, ms, None, {p: gtexts[p] for p in group}, {p: gtables[p] for p in group}))
        # 4. real packages
        tds = list_testdata(vlib.REPO)
        if quick:
            ms = mode_sample(rng, 2)
            repo_pk = ["./go/ir/irutil", "./pattern", "./lintcmd/cache", "./analysis/code", "./staticcheck/sa4006",
                       "./simple/s1008", "./internal/passes/buildir"] + rng.shuffle(["./go/ir", "./unused", "./lintcmd/runner", "./go/types/typeutil"])[:1]
            std_pk = ["fmt", "encoding/json", "go/types", "sort", "strings", "net/url", "regexp/syntax", "slices", "maps",
                      "iter", "sync", "context", "container/heap", "text/template/parse"]
            std_pk = rng.shuffle(std_pk)[:8]
            jobs.append(Job("repo", "pkgs", repo_pk, ms, vlib.REPO))
            for g in chunks(sorted(std_pk), 4):
                jobs.append(Job("std", "pkgs", g, ms, vlib.REPO))
            sample = rng.shuffle(tds)[:36]
            for g in chunks(sorted(sample), 18):
                jobs.append(Job("testdata", "pkgs", g, ms, vlib.REPO))
        else:
            std = [p for p in go_list(ctx, vlib.REPO, ["std"]) if not p.startswith("vendor/")]
            vend = [p for p in go_list(ctx, vlib.REPO, ["std"]) if p.startswith("vendor/")]
            repo = go_list(ctx, vlib.REPO, ["./..."])
            for g in chunks(repo, 30):
                for ms in chunks(ALL_MODES, 8):
                    jobs.append(Job("repo", "pkgs", g, ms, vlib.REPO))
            for g in chunks(std + vend, 24):
                for ms in chunks(ALL_MODES, 8):
                    jobs.append(Job("std", "pkgs", g, ms, vlib.REPO))
            for g in chunks(tds, 40):
                for ms in chunks(ALL_MODES, 8):
                    jobs.append(Job("testdata", "pkgs", g, ms, vlib.REPO))
        # 5. the in-tree self check must not panic (SanityCheckFunctions, serial so that a panic is attributed)
        sjobs = []
        if corpus:
            sjobs.append(Job("sanity:corpus", "src", corpus, SANITY_MODES, None, {p: open(p).read() for p in corpus}))
        for group in chunks(files, 6 if quick else 10):
            sjobs.append(Job("sanity:generated", "src", group, SANITY_MODES, None, {p: texts[p] for p in group}))
        if not quick:
            for g in chunks(go_list(ctx, vlib.REPO, ["./..."]), 40):
                sjobs.append(Job("sanity:repo", "pkgs", g, SANITY_MODES, vlib.REPO))

        def one(job):
            r2 = Runner(ctx, tool)
            if job.kind == "srcopt":
                # files that do not type-check on their own are not cases
                try:
                    job2 = Job(job.origin, "src", job.items, job.modes, job.dir, job.texts)
                    r2.run(job2, timeout=300 if quick else 2400)
                except vlib.HarnessError as e:
                    if "program rejected" not in str(e):
                        raise
                    good = []
                    for it in job.items:
                        r3 = Runner(ctx, tool)
                        try:
                            r3.run(Job(job.origin, "src", [it], job.modes, job.dir, job.texts), timeout=300 if quick else 2400)
                            merge(r2, r3)
                            good.append(it)
                        except vlib.HarnessError as e2:
                            if "program rejected" not in str(e2):
                                raise
                            r2.skipped.append("%s: does not type-check alone" % os.path.relpath(it, vlib.REPO))
                return r2
            r2.run(job, timeout=300 if quick else 2400)
            return r2

        with ThreadPoolExecutor(max_workers=workers) as ex:
            done = list(ex.map(one, jobs + sjobs))
        for r2 in done:
            merge(R, r2)
        lap("explore")
        return len(jobs), len(sjobs)

    njobs = (0, 0)
    kinds_broke = None
    if ctx.replay:
        replay(ctx, R)
    else:
        with ThreadPoolExecutor(max_workers=1) as kx:
            kfut = kx.submit(kinds_tie, ctx, tool)
            njobs = explore()
            tree, model = kfut.result()
        missing = sorted(set(tree) - set(model))
        stale = sorted(set(model) - set(tree))
        ctx.coverage["instruction_kinds_in_tree"] = len(tree)
        ctx.coverage["instruction_kinds_in_model"] = len(model)
        ctx.coverage["kinds_with_typing_row"] = sorted(k for k, v in model.items() if v == "typed")
        if missing or stale:
            kinds_broke = {"instruction_types_of_go_ir_unknown_to_the_model": missing,
                           "model_kinds_that_no_longer_exist_in_go_ir": stale}
        lap("kinds_tie")

    st = R.stats
    sanity_fns = sum(v for k, v in R.by_origin.items() if k.startswith("sanity:"))
    ctx.coverage.update({
        "timing_s": timing,
        "evaluations": st["functions"],
        "programs": st["functions"],
        "disagreements_checked": st["functions"],
        "distinct_nontrivial": len(R.hashes),
        "rule": "a case is one built function in one builder mode (its dump); evaluations = dumps validated by the proved "
                "validator; non-trivial = function with >= 2 blocks and >= 1 operand whose definition lives in another block "
                "(so the path-quantified dominance clause is exercised); distinct = distinct dump contents (hash of the case line)",
        "functions_validated": st["functions"], "nontrivial_functions": st["nontrivial"],
        "instructions_validated": st["instructions"], "phi_nodes": st["phis"],
        "cross_block_def_use_slots": st["cross_block_uses"], "instructions_with_typing_row": st["typed_instructions"],
        "blocks_unreachable_from_entry": st["unreachable_blocks"],
        "functions_with_unreachable_blocks": st["functions_with_unreachable_blocks"],
        "functions_by_mode": dict(sorted(R.by_mode.items())), "modes": ALL_MODES, "sanity_modes": SANITY_MODES,
        "functions_by_origin": dict(sorted(R.by_origin.items())),
        "functions_built_with_sanity_check_on": sanity_fns,
        "packages_or_files": st["packages"], "skipped_packages": sorted(set(R.skipped))[:30], "skipped_count": len(set(R.skipped)),
        "max_blocks": st["max_blocks"], "max_instructions": st["max_instrs"],
        "jobs": njobs[0], "sanity_jobs": njobs[1],
        "generator_histogram": dict(sorted(hist.items())),
        "grid": grid_coverage(grid_info, R),
        "kinds_without_typing_row": [],
        "dom_sets_failed_recheck": st["dom_sets_failed_recheck"],
        "instructions_whose_operands_and_fields_agree_only_as_multisets": st["instructions_operands_reordered"],
        "samples": R.samples,
    })
    ctx.assumptions += [
        "translation validation: WF is proved per accepted dump by running the compiled validator (wfCheck_sound is kernel-checked, "
        "its evaluation on a dump is compiled Lean); the quantifier over programs x builder modes is explored (corpus, go/ir testdata, "
        "seeded generator incl. goto-built irreducible CFGs with escaping locals, repository / std / testdata packages), not proved",
        "harness/cmd/c02dump (exported go/ir API -> records; types.Identical classes via x/tools typeutil.Map; core types via "
        "honnef.co/go/tools/go/types/typeutil.CoreType; type entries deeper than 6 levels are not expanded) and the awk split of the dump are trusted",
        "the validator decides WF (wfCheck_iff): a rejected function violates a clause of WF as stated in Spec.lean; whether WF over-demands is "
        "a question about Spec.lean / the typing table, calibrated on the unchanged tree (the replay carries the offending instruction and the IR text)",
        "Instruction.Operands() is not trusted: the dump also enumerates the ir.Value-holding fields of every instruction struct by reflection "
        "(static field types ir.Value / concrete Value pointers / slices of those / slices of go/ir structs) and WF requires both to agree",
        "a Function.Locals entry that is in no block is a violation in lifted form only (naive form: forStmtGo122 leaves the fused copy for lift to remove)",
        "reading: dominance is taken over Succs plus a virtual edge entry -> Recover (the Recover block is entered only after a panic inside the function); "
        "uses in blocks unreachable from the entry are vacuously dominated (coverage.blocks_unreachable_from_entry counts them; "
        "deleteUnreachableBlocks removes such blocks)",
        "reading: Operands/Referrers are inverse as relations; multiplicities of duplicate referrers are documented as unspecified (lift.go replace/replaceAll)",
        "TypeSwitch is a value-defining instruction in this tree (its result feeds a ConstantSwitch), not a terminator",
    ]

    # ---- report
    if R.crashes:
        R.crashes.sort(key=lambda c: (c["kind"], len(c.get("source") or "") or 10 ** 9))
        by = {}
        for c in R.crashes:
            by.setdefault(c["kind"], []).append(c)
        for kind, cs in sorted(by.items()):
            first = cs[0]
            ctx.violation("builder_%s.json" % kind.replace("-", "_"), {
                "what": {"panic": "the IR builder panics on a type-correct package in one of the builder modes: no function body is produced",
                         "hang": "the IR builder does not terminate on a type-correct package in one of the builder modes",
                         "sanity-panic": "go/ir's own self check (SanityCheckFunctions) rejects a function the builder produced and panics"}[kind],
                "how_to_replay": "./check C02 --replay <this file>; by hand: write `source` to x.go and run harness/cmd/c02dump -modes <modes> -src x.go "
                                 "(packages: -dir /repo -pkgs <items>); `stderr` holds the panic value and stack",
                "first": dict(first, mode=first["modes"][0]), "count": len(cs),
                "cases": [dict(c, source=None) for c in cs[1:10]],
            }, text="C02: builder %s in mode %s on %s: %s" % (kind, first["modes"], first["items"][:2], first_line(first["stderr"])))
    if R.failures:
        by = {}
        for x in R.failures:
            by.setdefault(x["clauses"], []).append(x)
        for clause, xs in sorted(by.items()):
            xs.sort(key=lambda x: (x["instrs"], x["function"], x["mode"]))
            first = xs[0]
            R.enrich(first)
            name = "wf_%s.json" % re.sub(r"[^a-z0-9]+", "_", clause.lower())
            ctx.violation(name, {
                "what": "the proved validator rejects a function built by go/ir: clause(s) %s of WF (lean/Verif/C02/Spec.lean) fail" % clause,
                "how_to_replay": "./check C02 --replay <this file>; by hand: write `source` to x.go (or use `package`), run "
                                 "harness/cmd/c02dump -modes <mode> -print <function> -src x.go | grep '^C' | cut -d' ' -f3- | lean/.lake/build/bin/c02driver; "
                                 "`details` names the offending instruction (iN = N-th instruction in block order, @bB.K = block B position K), "
                                 "`ir_text` is Function.WriteTo of the function, `case_line` the exact validator input",
                "first": first, "count": len(xs),
                "functions": sorted(set("%s [%s]" % (x["function"], x["mode"]) for x in xs))[:40],
                "cases": [dict(x, source=None) for x in xs[1:12]],
            }, text="C02: %d function dump(s) fail clause %s, smallest: %s (mode %s, %s, %d instrs): %s" % (
                len(xs), clause, first["function"], first["mode"], first.get("file") or first.get("package"), first["instrs"], first["details"][:300]))
    elif kinds_broke and not R.crashes:
        ctx.violation("kinds.json", {
            "what": "the instruction kinds of package go/ir and of the Lean model (typing table) differ: functions that contain an "
                    "unknown kind cannot be validated; every explored function was accepted",
            "correspondence": "c02dump -kinds vs c02driver kinds (theorem allKinds_complete)", "diff": kinds_broke,
        }, nofail=True)
    elif not lean_ok and not R.crashes:
        ctx.violation("lean.json", {
            "what": "a proof of the validator no longer checks (or the audit found a forbidden axiom/token), but the compiled validator "
                    "accepted every explored function",
            "correspondence": "theorems " + ", ".join(THEOREMS), "lean": lean_broke,
        }, nofail=True)
    return vlib.finish(ctx, "translation_validation")


def grid_coverage(gi, R):
    """what the exhaustive grid covered: candidates, how many the type checker discarded, per coordinate"""
    if not gi:
        return {}
    per = {"slot": {}, "expr": {}, "ctx": {}}
    built = dropped = 0
    pairs = set()
    for p, table in gi["tables"].items():
        for name, ((si, ei, ci), _) in table.items():
            ok = (p, name) in R.grid_built
            if ok:
                built += 1
                pairs.add(("se", si, ei))
                pairs.add(("sc", si, ci))
                pairs.add(("ec", ei, ci))
            elif (p, name) in R.grid_dropped:
                dropped += 1
            for k, nm in (("slot", GRID_SLOTS[si][0]), ("expr", GRID_EXPRS[ei][0]), ("ctx", GRID_CTXS[ci][0])):
                c = per[k].setdefault(nm, [0, 0])
                c[0] += 1
                c[1] += 1 if ok else 0
    return {"candidates": gi["candidates"], "files": gi["files"], "modes": gi["modes"],
            "type_correct_and_built": built, "discarded_by_the_type_checker": dropped,
            "slots": len(GRID_SLOTS), "expressions": len(GRID_EXPRS), "contexts": len(GRID_CTXS),
            "slot_expr_pairs_built": sum(1 for x in pairs if x[0] == "se"),
            "slot_ctx_pairs_built": sum(1 for x in pairs if x[0] == "sc"),
            "expr_ctx_pairs_built": sum(1 for x in pairs if x[0] == "ec"),
            "slots_with_no_type_correct_candidate_in_this_run": sorted(k for k, v in per["slot"].items() if v[1] == 0),
            "built_per_context": {k: v[1] for k, v in sorted(per["ctx"].items())},
            "built_per_expression": {k: v[1] for k, v in sorted(per["expr"].items())},
            "sample_discards": sorted(set(R.grid_dropped.values()))[:8]}


def merge(R, r2):
    a, b = R.stats, r2.stats
    for k in ("functions", "nontrivial", "instructions", "phis", "cross_block_uses", "typed_instructions", "packages",
              "unreachable_blocks", "functions_with_unreachable_blocks", "dom_sets_failed_recheck",
              "instructions_operands_reordered"):
        a[k] += b[k]
    for k in ("max_blocks", "max_instrs"):
        a[k] = max(a[k], b[k])
    R.grid_dropped.update(r2.grid_dropped)
    R.grid_built |= r2.grid_built
    for k, v in r2.by_mode.items():
        R.by_mode[k] = R.by_mode.get(k, 0) + v
    for k, v in r2.by_origin.items():
        R.by_origin[k] = R.by_origin.get(k, 0) + v
    R.skipped += r2.skipped
    R.hashes |= r2.hashes
    for s in r2.samples:
        # a few cases per origin, different functions
        if (len(R.samples) < 10 and sum(1 for t in R.samples if t["origin"] == s["origin"]) < 2
                and all(t["function"] != s["function"] for t in R.samples)):
            R.samples.append(s)
    R.failures += r2.failures
    R.crashes += r2.crashes


META = {
    "level": "translation_validation",
    "technique": "Lean 4 verified validator that DECIDES a declarative WF spec (path-quantified dominance from C14's Dom.lean, multiset CFG "
                 "inverse, relational def-use inverse, terminators/phis, typing table with a row for all 46 instruction kinds, "
                 "Operands() = struct fields, Params/FreeVars/Locals vs signature), run on the dump of every function the real go/ir "
                 "builder produces under all 16 combinations of NaiveForm/GlobalDebug/InstantiateGenerics/BuildSerially; inputs: corpus, "
                 "go/ir testdata, seeded random generator, an exhaustive statement-slot x expression x context grid, real packages",
    "text": "wfCheck_iff: for EVERY dump (any CFG, any size) wfCheck f = true <-> WF f (wfCheck_sound / wfCheck_complete), where WF states: "
            "Blocks[i].Index = i, no empty block, instr.Block() correct, IDs distinct; Preds/Succs inverse as multisets; one terminator per "
            "block, last, arity = len(Succs); phis lead, one non-nil operand per predecessor; every operand is a legitimate non-instruction "
            "value or a value-defining instruction that is earlier in the same block or whose block lies on ALL control-flow paths from the "
            "entry to the use (phi operand k: to predecessor k); Referrers defined exactly for value instructions/params/freevars/anon funcs "
            "and inverse to Operands; every instruction obeys the typing row of its kind (all 46 kinds; ChangeType/Convert per their "
            "documentation, ConstantSwitch conds = constants of the tag type with at most one nil, CompositeValue one operand of the exact "
            "type per field/element); operands_complete: Instruction.Operands() equals, as a multiset, the ir.Value-holding fields of the "
            "instruction's struct (enumerated by reflection, independently of the method - referrer building, lifting and sanity.go all trust "
            "Operands()); func_ok: Params = receiver + Signature parameters (count, order, types), FreeVars and Locals consistent. "
            "Corollaries def_on_every_path / phi_def_on_every_path / field_operand_checked / field_operand_legit / params_match_signature / "
            "cfg_exact / refs_exact. domX_iff: the dominance test is exact for any output of the unverified search (every candidate set is "
            "re-checked before use). msort_sorted / msort_canon / canonSet_eq_iff: the sorting helpers are verified, so the sort-based "
            "clauses are exact. The quantifier over programs and modes is explored: corpus (incl. the regression for fix 2d9a422), go/ir "
            "testdata, seeded generator (goto-built irreducible CFGs, escaping locals, closures, generics, range-over-func, defer/recover, "
            "select), an exhaustive grid of 203 operand slots of statement forms x 44 control-flow-creating / conversion-relevant "
            "expressions x 15 surrounding contexts whose candidates are type-checked in-process (ill-typed ones dropped and counted; "
            "quick: all core pairs + rotating contexts, thorough: full product), repository, std and testdata packages (quick: sample; "
            "thorough: all), plus builds with SanityCheckFunctions on (no panic).",
    "note": "Trusted: Lean kernel (axioms propext/Quot.sound/Classical.choice), compiled c02driver, harness/cmd/c02dump + internal/c02ir "
            "(exported API + reflection over instruction struct types -> records, types.Identical classes, CoreType), awk/python plumbing. "
            "Not proved: the quantifier over programs/modes (explored; the grid is exhaustive only over its own slot/expression/context "
            "lists). Approximations: the ChangeType row compares underlying types up to struct tags structurally to depth 4 and accepts "
            "type-parameter cases wholesale; a Locals entry that is in no block is rejected in lifted form only (naive form keeps the fused "
            "Go 1.22 loop-variable copy by design). Readings: dominance over Succs + virtual edge entry->Recover; Operands/Referrers "
            "inverse as relations (duplicates documented as unspecified); TypeSwitch is a value instruction in this tree. Shares no code "
            "with go/ir/sanity.go. Genuine defect fixed: switchStmt emitted the ConstantSwitch into the block current before the tag was "
            "evaluated (2d9a422, found by an outside reader; the grid now covers the shape in every statement form). Seeded C02-1-1 "
            "(Slice.Operands forgets Max), C02-1-2, C02-1-3 are reported. Thorough tier not re-measured after the strengthening pass.",
    "design_ref": "DESIGN.md section 5, C02; Appendix A",
}
