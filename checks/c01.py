"""C01 — IR preserves program semantics (lifted and naive form).

Stage A (exploration, tie X): seeded type-correct Go programs are (1) compiled with the Go
toolchain and run on input vectors, (2) built into IR by the real go/ir builder in the modes
{NaiveForm, lifted} x {GlobalDebug off, on}, dumped through the exported API
(harness/cmd/c01dump) and executed by the Lean reference interpreter
(lean/Verif/C01/Interp.lean) on the same vectors.  Results, panic class, observer trace and
final globals must agree.

Stage B (validator, tie V): see the LIFT part of run().
"""
import os
import sys

sys.path.insert(0, os.path.dirname(os.path.dirname(os.path.abspath(__file__))))
import vlib

# =========================================================================== generator
INT_RANGE = {
    "int": (-(1 << 63), (1 << 63) - 1), "int64": (-(1 << 63), (1 << 63) - 1),
    "int8": (-128, 127), "int16": (-32768, 32767), "int32": (-(1 << 31), (1 << 31) - 1),
    "uint8": (0, 255), "uint16": (0, 65535), "uint32": (0, (1 << 32) - 1),
    "uint64": (0, (1 << 64) - 1), "uint": (0, (1 << 64) - 1),
}
INT_TYPES = list(INT_RANGE)
SMALL_INT_TYPES = ["int8", "uint8", "int16", "uint16", "int32", "uint32", "int64", "uint64", "uint"]
STR_POOL = ["", "a", "ab", "xyz", "hello", "hé", "世界", "qé世z", "GoGo", "0123456789"]

PRELUDE = '''package main

type S0 struct {
	A int
	B string
	C bool
	D [3]int
}

type S1 struct {
	P  *int
	N  int
	In S0
}

type I0 interface {
	M(int) int
}

type T0 struct{ k int }

func (t T0) M(x int) int {
	obsI(x)
	return t.k*x + %(c0)d
}

type T1 struct{ k, n int }

func (t *T1) M(x int) int {
	t.n++
	obsI(t.n)
	return t.k - x
}

type E0 int

func (e E0) M(x int) int { return int(e) ^ x }

func (s S0) Sum() int { return s.A + len(s.B) + s.D[0] + s.D[1]*2 + s.D[2]*%(c1)d }

func (s *S0) Inc(d int) {
	s.A += d
	s.D[d&1] ^= d
}

func tb(k int) bool {
	obsI(k)
	return k%%2 == 0
}

func idI(k int) int {
	obsI(k)
	return k
}

func idS(s string) string {
	obsS(s)
	return s
}

func bump(p *int, d int) int {
	*p += d
	return *p
}

func setS(p *S0, a int) {
	p.A = a
	p.C = !p.C
}

func fill(s []int, v int) {
	for i := range s {
		s[i] += v + i
	}
}

func mk(k int) I0 {
	switch k %% 3 {
	case 0:
		return T0{k}
	case 1:
		return &T1{k, 0}
	}
	return E0(k)
}

func anyOf(k int) any {
	switch k & 3 {
	case 0:
		return k
	case 1:
		return "s"
	case 2:
		return k > 5
	}
	return nil
}
'''

STUB = '''package main

func obsI(x int)
func obsS(x string)
func obsB(x bool)
'''


class Var:
    def __init__(self, name, ty, private=True, assignable=True, is_global=False):
        self.name = name
        self.ty = ty
        self.private = private       # never address-taken / captured / global: calls cannot modify it
        self.assignable = assignable
        self.is_global = is_global


class Prof:
    """What one statement's expression tree may contain (evaluation-order rules R1/R2):
    calls: 0 none, 1 calls that write no variable, 2 also effectful calls
    panicky: number of potentially panicking non-call operations still allowed (0/1)
    exposed: may read variables that a call could modify"""
    def __init__(self, calls, panicky, exposed):
        self.calls = calls
        self.panicky = panicky
        self.exposed = exposed

    def split(self, rng):
        """profiles for two sibling operands: the panicky allowance goes to one side only"""
        if self.panicky and rng.chance(1, 2):
            return Prof(self.calls, self.panicky, self.exposed), Prof(self.calls, 0, self.exposed)
        return Prof(self.calls, 0, self.exposed), Prof(self.calls, self.panicky, self.exposed)

    def nopanic(self):
        return Prof(self.calls, 0, self.exposed)


def PA():
    return Prof(0, 1, True)


def PB1():
    return Prof(1, 0, True)


def PB2():
    return Prof(2, 0, False)


def PC():
    return Prof(0, 0, True)


class Helper:
    def __init__(self, name, params, results, eff):
        self.name = name
        self.params = params     # [(name, type)]
        self.results = results   # [type]
        self.eff = eff           # writes globals / through pointers


def go_str(s):
    out = []
    for b in s.encode("utf-8"):
        if 32 <= b < 127 and b not in (34, 92):
            out.append(chr(b))
        else:
            out.append("\\x%02x" % b)
    return '"' + "".join(out) + '"'


class FnGen:
    """Generates the body of one function."""

    def __init__(self, pg, rng, name, params, results, named, is_entry, budget):
        self.pg = pg
        self.rng = rng
        self.name = name
        self.params = params
        self.results = results
        self.named = named
        self.is_entry = is_entry
        self.budget = budget
        self.lines = []
        self.ind = 1
        self.scopes = [[]]
        self.loops = []          # (label or None)
        self.uid = 0
        self.eff = False
        self.in_closure = 0
        self.ret_stack = [(results, named)]
        self.pool = {}
        for g in pg.globals:
            self.scopes[0].append(g)

    # ---------------------------------------------------------------- utilities
    def emit(self, s):
        self.lines.append("\t" * self.ind + s)

    def fresh(self, p="v"):
        self.uid += 1
        return "%s%d" % (p, self.uid)

    def push(self):
        self.scopes.append([])

    def pop(self):
        self.scopes.pop()

    def declare(self, v):
        self.scopes[-1].append(v)

    def visible(self):
        seen = {}
        for sc in self.scopes:
            for v in sc:
                seen[v.name] = v
        return list(seen.values())

    def vars_of(self, ty, prof=None, assignable=False):
        out = []
        for v in self.visible():
            if v.ty != ty:
                continue
            if assignable and not v.assignable:
                continue
            if prof is not None and not prof.exposed and not v.private:
                continue
            out.append(v)
        return out

    def lit_int(self, ty):
        lo, hi = INT_RANGE[ty]
        r = self.rng
        k = r.below(20)
        if k < 12:
            v = r.below(9) - 2
        elif k < 15:
            v = r.below(200) - 50
        elif k == 15:
            v = hi
        elif k == 16:
            v = lo
        elif k == 17:
            v = hi - r.below(3)
        else:
            v = r.below(1 << 20) - (1 << 10)
        v = max(lo, min(hi, v))
        return v

    def lit(self, ty):
        if ty in INT_RANGE:
            # integer literals live in never-assigned local variables so that the compiler does not
            # fold (and reject overflowing) constant expressions; lifting turns them back into constants
            v = self.lit_int(ty)
            key = (ty, v)
            if key not in self.pool:
                self.pool[key] = "k%d" % len(self.pool)
            return self.pool[key]
        if ty == "bool":
            return self.rng.choice(["true", "false"])
        if ty == "string":
            return go_str(self.rng.choice(STR_POOL))
        raise ValueError(ty)

    # ---------------------------------------------------------------- expressions
    def e(self, ty, d, prof):
        if ty in INT_RANGE:
            return self.e_int(ty, d, prof)
        if ty == "bool":
            return self.e_bool(d, prof)
        if ty == "string":
            return self.e_str(d, prof)
        vs = self.vars_of(ty, prof)
        if vs:
            return self.rng.choice(vs).name
        return self.zero_of(ty)

    def zero_of(self, ty):
        if ty.startswith("*") or ty.startswith("[]") or ty.startswith("func") or ty in ("I0", "any"):
            return "nil" if not ty.startswith("[]") else ty + "(nil)"
        if ty.startswith("["):
            return ty + "{}"
        if ty in ("S0", "S1", "T0", "T1"):
            return ty + "{}"
        raise ValueError(ty)

    def small_index(self, n, d, prof):
        """an int expression; with a panicky allowance it may be out of [0,n)"""
        r = self.rng
        if prof.panicky and r.chance(1, 4):
            prof.panicky = 0
            return self.e_int("int", d - 1, prof.nopanic()), True
        if r.chance(1, 3):
            return "%d" % r.below(n), False
        e = self.e_int("int", d - 1, prof.nopanic())
        return "int(uint(%s) %% %d)" % (e, n), False

    def e_int(self, ty, d, prof):
        r = self.rng
        vs = self.vars_of(ty, prof)
        if d <= 0 or r.chance(1, 4):
            if vs and r.chance(3, 4):
                return r.choice(vs).name
            return self.lit(ty)
        k = r.below(100)
        if k < 30:
            op = r.choice(["+", "-", "*", "&", "|", "^", "&^", "+", "-"])
            pa, pb = prof.split(r)
            a = self.e_int(ty, d - 1, pa)
            b = self.e_int(ty, d - 1, pb)
            return "(%s %s %s)" % (a, op, b)
        if k < 38:
            op = r.choice(["/", "%"])
            a = self.e_int(ty, d - 1, prof.nopanic())
            if prof.panicky and r.chance(1, 3):
                prof.panicky = 0
                b = self.e_int(ty, d - 1, prof.nopanic())
                return "(%s %s %s)" % (a, op, b)
            b = self.e_int(ty, d - 1, prof.nopanic())
            return "(%s %s (%s | 1))" % (a, op, b)
        if k < 46:
            op = r.choice(["<<", ">>"])
            a = self.e_int(ty, d - 1, prof.nopanic())
            if r.chance(1, 2):
                return "(%s %s %d)" % (a, op, r.below(9))
            b = self.e_int("uint8", d - 1, prof.nopanic())
            return "(%s %s (%s %% 70))" % (a, op, b)
        if k < 52:
            a = self.e_int(ty, d - 1, prof)
            return "(%s%s)" % (r.choice(["-", "^"]), a)
        if k < 60:
            src = r.choice(INT_TYPES)
            a = self.e_int(src, d - 1, prof)
            return "%s(%s)" % (ty, a)
        if k < 66 and ty == "int":
            svs = self.vars_of("string", prof) + self.vars_of("[]int", prof)
            if svs:
                return "len(%s)" % r.choice(svs).name
        if k < 74 and ty == "int" and prof.calls >= 1:
            hs = [h for h in self.pg.helpers if h.results == ["int"] and (not h.eff or prof.calls >= 2)]
            if hs and r.chance(3, 4):
                h = r.choice(hs)
                return self.call(h, d, prof)
            return "idI(%s)" % self.e_int("int", d - 1, prof)
        if k < 80 and ty == "int":
            # aggregate reads
            c = []
            for v in self.visible():
                if not prof.exposed and not v.private:
                    continue
                if v.ty == "S0":
                    c.append(("field", v))
                elif v.ty.startswith("[") and v.ty.endswith("]int") and not v.ty.startswith("[]"):
                    c.append(("arr", v))
                elif v.ty == "[]int" and prof.panicky:
                    c.append(("sl", v))
                elif v.ty == "*int" and prof.panicky and prof.exposed:
                    c.append(("deref", v))
                elif v.ty == "*S0" and prof.panicky and prof.exposed:
                    c.append(("pfield", v))
                elif v.ty == "string" and prof.panicky:
                    c.append(("sidx", v))
                elif v.ty in ("S0",) and prof.calls >= 1:
                    c.append(("sum", v))
            if c:
                kind, v = r.choice(c)
                if kind == "field":
                    if r.chance(1, 2):
                        return v.name + ".A"
                    i, _ = self.small_index(3, d, prof)
                    return "%s.D[%s]" % (v.name, i)
                if kind == "arr":
                    n = int(v.ty[1:v.ty.index("]")])
                    i, _ = self.small_index(n, d, prof)
                    return "%s[%s]" % (v.name, i)
                if kind == "sl":
                    prof.panicky = 0
                    i = self.e_int("int", d - 1, prof.nopanic())
                    return "%s[%s]" % (v.name, i)
                if kind == "deref":
                    prof.panicky = 0
                    return "(*%s)" % v.name
                if kind == "pfield":
                    prof.panicky = 0
                    return "%s.A" % v.name
                if kind == "sidx":
                    prof.panicky = 0
                    i = self.e_int("int", d - 1, prof.nopanic())
                    return "int(%s[%s])" % (v.name, i)
                if kind == "sum":
                    return "%s.Sum()" % v.name
        if k < 84 and ty == "int" and prof.calls >= 1:
            fs = [v for v in self.vars_of("func(int) int", prof) if prof.calls >= 2 or getattr(v, "pure", False)]
            if fs:
                return "%s(%s)" % (r.choice(fs).name, self.e_int("int", d - 1, prof))
        if k < 88 and ty == "int" and prof.calls >= 2:
            ivs = self.vars_of("I0", prof)
            if ivs:
                # invoking through a nil interface panics like a call does (ordered with other calls)
                return "%s.M(%s)" % (r.choice(ivs).name, self.e_int("int", d - 1, prof))
        if k < 92:
            return "(%s + %s)" % (self.e_int(ty, d - 1, prof), self.lit(ty))
        if vs:
            return r.choice(vs).name
        return self.lit(ty)

    def e_bool(self, d, prof):
        r = self.rng
        vs = self.vars_of("bool", prof)
        if d <= 0 or r.chance(1, 5):
            if vs and r.chance(3, 4):
                return r.choice(vs).name
            return self.lit("bool")
        k = r.below(100)
        if k < 45:
            ty = r.choice(["int", "int", "int", r.choice(SMALL_INT_TYPES)])
            op = r.choice(["==", "!=", "<", "<=", ">", ">="])
            pa, pb = prof.split(r)
            return "(%s %s %s)" % (self.e_int(ty, d - 1, pa), op, self.e_int(ty, d - 1, pb))
        if k < 55:
            op = r.choice(["==", "!=", "<", ">="])
            return "(%s %s %s)" % (self.e_str(d - 1, prof.nopanic()), op, self.e_str(d - 1, prof.nopanic()))
        if k < 75:
            op = r.choice(["&&", "||"])
            # short circuit: the right operand is evaluated conditionally, the left first (specified)
            return "(%s %s %s)" % (self.e_bool(d - 1, prof.nopanic()), op, self.e_bool(d - 1, prof.nopanic()))
        if k < 82:
            return "!%s" % self.e_bool(d - 1, prof)
        if k < 92 and prof.calls >= 1:
            return "tb(%s)" % self.e_int("int", d - 1, prof)
        if vs:
            return r.choice(vs).name
        return self.lit("bool")

    def e_str(self, d, prof):
        r = self.rng
        vs = self.vars_of("string", prof)
        if d <= 0 or r.chance(1, 3):
            if vs and r.chance(3, 4):
                return r.choice(vs).name
            return self.lit("string")
        k = r.below(100)
        if k < 40:
            pa, pb = prof.split(r)
            return "(%s + %s)" % (self.e_str(d - 1, pa), self.e_str(d - 1, pb))
        if k < 60 and vs and prof.panicky:
            prof.panicky = 0
            v = r.choice(vs).name
            a = self.e_int("int", d - 1, prof.nopanic())
            form = r.below(3)
            if form == 0:
                return "%s[%s:]" % (v, a)
            if form == 1:
                return "%s[:%s]" % (v, a)
            b = self.e_int("int", d - 1, prof.nopanic())
            return "%s[%s:%s]" % (v, a, b)
        if k < 70 and vs:
            v = r.choice(vs).name
            return "%s[:len(%s)/2]" % (v, v)
        if k < 80 and prof.calls >= 1:
            return "idS(%s)" % self.e_str(d - 1, prof)
        if k < 86:
            svs = [v for v in self.visible() if v.ty == "S0" and (prof.exposed or v.private)]
            if svs:
                return r.choice(svs).name + ".B"
        if vs:
            return r.choice(vs).name
        return self.lit("string")

    def call(self, h, d, prof):
        args = []
        for (_, t) in h.params:
            args.append(self.arg_for(t, d, prof))
        if h.eff:
            self.eff = True
        return "%s(%s)" % (h.name, ", ".join(args))

    def arg_for(self, t, d, prof):
        r = self.rng
        if t in INT_RANGE or t in ("bool", "string"):
            return self.e(t, d - 1, prof)
        if t == "*int":
            c = [v for v in self.visible() if v.ty == "int" and not v.private and v.assignable]
            p = self.vars_of("*int", prof)
            if c and (not p or r.chance(2, 3)):
                return "&" + r.choice(c).name
            if p:
                return r.choice(p).name
            return "new(int)"
        if t == "*S0":
            c = [v for v in self.visible() if v.ty == "S0" and not v.private]
            if c:
                return "&" + r.choice(c).name
            return "&S0{A: %s}" % self.e_int("int", 0, prof)
        if t == "[]int":
            c = self.vars_of("[]int", prof)
            if c:
                return r.choice(c).name
            return "[]int{%s, %s}" % (self.e_int("int", 0, prof), self.e_int("int", 0, prof))
        vs = self.vars_of(t, prof)
        if vs:
            return r.choice(vs).name
        if t == "S0":
            return "S0{A: %s, B: %s}" % (self.e_int("int", 0, prof), self.e_str(0, prof))
        if t.startswith("[") and not t.startswith("[]"):
            return t + "{%s}" % self.e_int("int", 0, prof)
        if t == "I0":
            return "mk(%s)" % self.e_int("int", 0, prof) if prof.calls >= 1 else "T0{%d}" % r.below(5)
        if t == "func(int) int":
            return "idI" if prof.calls >= 1 else "nil"
        return self.zero_of(t)
