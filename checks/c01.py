"""C01 — IR preserves program semantics (lifted and naive form).

Stage A (exploration, tie X): seeded type-correct Go programs are (1) compiled with the Go
toolchain and run on input vectors, (2) built into IR by the real go/ir builder in the modes
{NaiveForm, lifted} x {GlobalDebug off, on}, dumped through the exported API
(harness/cmd/c01dump) and executed by the Lean reference interpreter
(lean/Verif/C01/Interp.lean) on the same vectors.  Results, panic class, observer trace and
final globals must agree.

Stage B (validator, tie V): see the LIFT part of run().
"""
import os
import sys

sys.path.insert(0, os.path.dirname(os.path.dirname(os.path.abspath(__file__))))
import vlib

# =========================================================================== generator
INT_RANGE = {
    "int": (-(1 << 63), (1 << 63) - 1), "int64": (-(1 << 63), (1 << 63) - 1),
    "int8": (-128, 127), "int16": (-32768, 32767), "int32": (-(1 << 31), (1 << 31) - 1),
    "uint8": (0, 255), "uint16": (0, 65535), "uint32": (0, (1 << 32) - 1),
    "uint64": (0, (1 << 64) - 1), "uint": (0, (1 << 64) - 1),
}
INT_TYPES = list(INT_RANGE)
SMALL_INT_TYPES = ["int8", "uint8", "int16", "uint16", "int32", "uint32", "int64", "uint64", "uint"]
STR_POOL = ["", "a", "ab", "xyz", "hello", "hé", "世界", "qé世z", "GoGo", "0123456789"]

PRELUDE = '''package main

type S0 struct {
	A int
	B string
	C bool
	D [3]int
}

type S1 struct {
	P  *int
	N  int
	In S0
}

type I0 interface {
	M(int) int
}

type T0 struct{ k int }

func (t T0) M(x int) int {
	obsI(x)
	return t.k*x + %(c0)d
}

type T1 struct{ k, n int }

func (t *T1) M(x int) int {
	t.n++
	obsI(t.n)
	return t.k - x
}

type E0 int

func (e E0) M(x int) int { return int(e) ^ x }

func (s S0) Sum() int { return s.A + len(s.B) + s.D[0] + s.D[1]*2 + s.D[2]*%(c1)d }

func (s *S0) Inc(d int) {
	s.A += d
	s.D[d&1] ^= d
}

func tb(k int) bool {
	obsI(k)
	return k%%2 == 0
}

func idI(k int) int {
	obsI(k)
	return k
}

func idS(s string) string {
	obsS(s)
	return s
}

func bump(p *int, d int) int {
	*p += d
	return *p
}

func setS(p *S0, a int) {
	p.A = a
	p.C = !p.C
}

func fill(s []int, v int) {
	for i := range s {
		s[i] += v + i
	}
}

func mk(k int) I0 {
	switch k %% 3 {
	case 0:
		return T0{k}
	case 1:
		return &T1{k, 0}
	}
	return E0(k)
}

func upto(n int) func(func(int) bool) {
	return func(yield func(int) bool) {
		for i := 0; i < n; i++ {
			if !yield(i) {
				return
			}
		}
	}
}

func each(s []int) func(func(int, int) bool) {
	return func(yield func(int, int) bool) {
		for i, x := range s {
			if !yield(i, x) {
				return
			}
		}
	}
}

func anyOf(k int) any {
	switch k & 3 {
	case 0:
		return k
	case 1:
		return "s"
	case 2:
		return k > 5
	}
	return nil
}
'''

STUB = '''package main

func obsI(x int)
func obsS(x string)
func obsB(x bool)
'''


class Var:
    def __init__(self, name, ty, private=True, assignable=True, is_global=False):
        self.name = name
        self.ty = ty
        self.private = private       # never address-taken / captured / global: calls cannot modify it
        self.assignable = assignable
        self.is_global = is_global
        # []int only: another reference to (part of) its backing array may be live, so growing it in
        # place or not would be observable; capacity growth is implementation-defined, hence appends
        # to an aliased slice are emitted in the always-reallocating form append(v[:len(v):len(v)], ...)
        self.aliased = False


class Prof:
    """What one statement's expression tree may contain (evaluation-order rules R1/R2):
    calls: 0 none, 1 calls that write no variable, 2 also effectful calls
    panicky: number of potentially panicking non-call operations still allowed (0/1)
    exposed: may read variables that a call could modify"""
    def __init__(self, calls, panicky, exposed):
        self.calls = calls
        self.panicky = panicky
        self.exposed = exposed

    def split(self, rng):
        """profiles for two sibling operands: the panicky allowance goes to one side only"""
        if self.panicky and rng.chance(1, 2):
            return Prof(self.calls, self.panicky, self.exposed), Prof(self.calls, 0, self.exposed)
        return Prof(self.calls, 0, self.exposed), Prof(self.calls, self.panicky, self.exposed)

    def nopanic(self):
        return Prof(self.calls, 0, self.exposed)


def PA():
    return Prof(0, 1, True)


def PB1():
    return Prof(1, 0, True)


def PB2():
    return Prof(2, 0, False)


def PC():
    return Prof(0, 0, True)


class Helper:
    def __init__(self, name, params, results, eff):
        self.name = name
        self.params = params     # [(name, type)]
        self.results = results   # [type]
        self.eff = eff           # writes globals / through pointers


def go_str(s):
    out = []
    for b in s.encode("utf-8"):
        if 32 <= b < 127 and b not in (34, 92):
            out.append(chr(b))
        else:
            out.append("\\x%02x" % b)
    return '"' + "".join(out) + '"'


class FnGen:
    """Generates the body of one function."""

    def __init__(self, pg, rng, name, params, results, named, is_entry, budget):
        self.pg = pg
        self.rng = rng
        self.name = name
        self.params = params
        self.results = results
        self.named = named
        self.is_entry = is_entry
        self.budget = budget
        self.lines = []
        self.ind = 1
        self.scopes = [[]]
        self.loops = []          # (label or None)
        self.uid = 0
        self.eff = False
        self.in_closure = 0
        self.ret_stack = [(results, named)]
        self.pool = {}
        for g in pg.globals:
            self.scopes[0].append(g)

    # ---------------------------------------------------------------- utilities
    def emit(self, s):
        self.lines.append("\t" * self.ind + s)

    def fresh(self, p="v"):
        self.uid += 1
        return "%s%d" % (p, self.uid)

    def push(self):
        self.scopes.append([])

    def pop(self):
        self.scopes.pop()

    def declare(self, v):
        self.scopes[-1].append(v)

    def visible(self):
        seen = {}
        for sc in self.scopes:
            for v in sc:
                seen[v.name] = v
        return list(seen.values())

    def vars_of(self, ty, prof=None, assignable=False):
        out = []
        for v in self.visible():
            if v.ty != ty:
                continue
            if assignable and not v.assignable:
                continue
            if prof is not None and not prof.exposed and not v.private:
                continue
            out.append(v)
        return out

    def lit_int(self, ty):
        lo, hi = INT_RANGE[ty]
        r = self.rng
        k = r.below(20)
        if k < 12:
            v = r.below(9) - 2
        elif k < 15:
            v = r.below(200) - 50
        elif k == 15:
            v = hi
        elif k == 16:
            v = lo
        elif k == 17:
            v = hi - r.below(3)
        else:
            v = r.below(1 << 20) - (1 << 10)
        v = max(lo, min(hi, v))
        return v

    def lit(self, ty):
        if ty in INT_RANGE:
            # integer literals live in never-assigned local variables so that the compiler does not
            # fold (and reject overflowing) constant expressions; lifting turns them back into constants
            v = self.lit_int(ty)
            key = (ty, v)
            if key not in self.pool:
                self.pool[key] = "k%d" % len(self.pool)
            return self.pool[key]
        if ty == "bool":
            return self.rng.choice(["true", "false"])
        if ty == "string":
            return go_str(self.rng.choice(STR_POOL))
        raise ValueError(ty)

    # ---------------------------------------------------------------- expressions
    def e(self, ty, d, prof):
        if ty in INT_RANGE:
            return self.e_int(ty, d, prof)
        if ty == "bool":
            return self.e_bool(d, prof)
        if ty == "string":
            return self.e_str(d, prof)
        vs = self.vars_of(ty, prof)
        if vs:
            return self.rng.choice(vs).name
        return self.zero_of(ty)

    def zero_of(self, ty):
        if ty.startswith("*") or ty.startswith("[]") or ty.startswith("func") or ty in ("I0", "any"):
            return "nil" if not ty.startswith("[]") else ty + "(nil)"
        if ty.startswith("["):
            return ty + "{}"
        if ty in ("S0", "S1", "T0", "T1"):
            return ty + "{}"
        raise ValueError(ty)

    def small_index(self, n, d, prof):
        """an int expression; with a panicky allowance it may be out of [0,n)"""
        r = self.rng
        if prof.panicky and r.chance(1, 4):
            prof.panicky = 0
            return self.e_int("int", d - 1, prof.nopanic()), True
        if r.chance(1, 3):
            return "%d" % r.below(n), False
        e = self.e_int("int", d - 1, prof.nopanic())
        return "int(uint(%s) %% %d)" % (e, n), False

    def e_int(self, ty, d, prof):
        r = self.rng
        vs = self.vars_of(ty, prof)
        if d <= 0 or r.chance(1, 4):
            if vs and r.chance(3, 4):
                return r.choice(vs).name
            return self.lit(ty)
        k = r.below(100)
        if k < 30:
            op = r.choice(["+", "-", "*", "&", "|", "^", "&^", "+", "-"])
            pa, pb = prof.split(r)
            a = self.e_int(ty, d - 1, pa)
            b = self.e_int(ty, d - 1, pb)
            return "(%s %s %s)" % (a, op, b)
        if k < 38:
            op = r.choice(["/", "%"])
            a = self.e_int(ty, d - 1, prof.nopanic())
            if prof.panicky and r.chance(1, 3):
                prof.panicky = 0
                b = self.e_int(ty, d - 1, prof.nopanic())
                return "(%s %s %s)" % (a, op, b)
            b = self.e_int(ty, d - 1, prof.nopanic())
            return "(%s %s (%s | 1))" % (a, op, b)
        if k < 46:
            op = r.choice(["<<", ">>"])
            a = self.e_int(ty, d - 1, prof.nopanic())
            if r.chance(1, 2):
                return "(%s %s %d)" % (a, op, r.below(9))
            b = self.e_int("uint8", d - 1, prof.nopanic())
            return "(%s %s (%s %% 70))" % (a, op, b)
        if k < 52:
            a = self.e_int(ty, d - 1, prof)
            return "(%s%s)" % (r.choice(["-", "^"]), a)
        if k < 60:
            src = r.choice(INT_TYPES)
            a = self.e_int(src, d - 1, prof)
            return "%s(%s)" % (ty, a)
        if k < 66 and ty == "int":
            svs = self.vars_of("string", prof) + self.vars_of("[]int", prof)
            if svs:
                return "len(%s)" % r.choice(svs).name
        if k < 74 and ty == "int" and prof.calls >= 1:
            hs = [h for h in self.pg.helpers if h.results == ["int"] and (not h.eff or prof.calls >= 2)]
            if hs and r.chance(3, 4):
                h = r.choice(hs)
                return self.call(h, d, prof)
            return "idI(%s)" % self.e_int("int", d - 1, prof)
        if k < 80 and ty == "int":
            # aggregate reads
            c = []
            for v in self.visible():
                if not prof.exposed and not v.private:
                    continue
                if v.ty == "S0":
                    c.append(("field", v))
                elif v.ty.startswith("[") and v.ty.endswith("]int") and not v.ty.startswith("[]"):
                    c.append(("arr", v))
                elif v.ty == "[]int" and prof.panicky:
                    c.append(("sl", v))
                elif v.ty == "*int" and prof.panicky and prof.exposed:
                    c.append(("deref", v))
                elif v.ty == "*S0" and prof.panicky and prof.exposed:
                    c.append(("pfield", v))
                elif v.ty == "string" and prof.panicky:
                    c.append(("sidx", v))
                elif v.ty in ("S0",) and prof.calls >= 1:
                    c.append(("sum", v))
            if c:
                kind, v = r.choice(c)
                if kind == "field":
                    if r.chance(1, 2):
                        return v.name + ".A"
                    i, _ = self.small_index(3, d, prof)
                    return "%s.D[%s]" % (v.name, i)
                if kind == "arr":
                    n = int(v.ty[1:v.ty.index("]")])
                    i, _ = self.small_index(n, d, prof)
                    return "%s[%s]" % (v.name, i)
                if kind == "sl":
                    prof.panicky = 0
                    i = self.e_int("int", d - 1, prof.nopanic())
                    return "%s[%s]" % (v.name, i)
                if kind == "deref":
                    prof.panicky = 0
                    return "(*%s)" % v.name
                if kind == "pfield":
                    prof.panicky = 0
                    return "%s.A" % v.name
                if kind == "sidx":
                    prof.panicky = 0
                    i = self.e_int("int", d - 1, prof.nopanic())
                    return "int(%s[%s])" % (v.name, i)
                if kind == "sum":
                    return "%s.Sum()" % v.name
        if k < 84 and ty == "int" and prof.calls >= 1:
            fs = [v for v in self.vars_of("func(int) int", prof) if prof.calls >= 2 or getattr(v, "pure", False)]
            if fs:
                return "%s(%s)" % (r.choice(fs).name, self.e_int("int", d - 1, prof))
        if k < 88 and ty == "int" and prof.calls >= 2:
            ivs = self.vars_of("I0", prof)
            if ivs:
                # invoking through a nil interface panics like a call does (ordered with other calls)
                return "%s.M(%s)" % (r.choice(ivs).name, self.e_int("int", d - 1, prof))
        if k < 92:
            return "(%s + %s)" % (self.e_int(ty, d - 1, prof), self.lit(ty))
        if vs:
            return r.choice(vs).name
        return self.lit(ty)

    def e_bool(self, d, prof):
        r = self.rng
        vs = self.vars_of("bool", prof)
        if d <= 0 or r.chance(1, 5):
            if vs and r.chance(3, 4):
                return r.choice(vs).name
            return self.lit("bool")
        k = r.below(100)
        if k < 45:
            ty = r.choice(["int", "int", "int", r.choice(SMALL_INT_TYPES)])
            op = r.choice(["==", "!=", "<", "<=", ">", ">="])
            pa, pb = prof.split(r)
            return "(%s %s %s)" % (self.e_int(ty, d - 1, pa), op, self.e_int(ty, d - 1, pb))
        if k < 55:
            op = r.choice(["==", "!=", "<", ">="])
            return "(%s %s %s)" % (self.e_str(d - 1, prof.nopanic()), op, self.e_str(d - 1, prof.nopanic()))
        if k < 75:
            op = r.choice(["&&", "||"])
            # short circuit: the right operand is evaluated conditionally, the left first (specified)
            return "(%s %s %s)" % (self.e_bool(d - 1, prof.nopanic()), op, self.e_bool(d - 1, prof.nopanic()))
        if k < 82:
            return "!%s" % self.e_bool(d - 1, prof)
        if k < 92 and prof.calls >= 1:
            return "tb(%s)" % self.e_int("int", d - 1, prof)
        if vs:
            return r.choice(vs).name
        return self.lit("bool")

    def e_str(self, d, prof):
        r = self.rng
        vs = self.vars_of("string", prof)
        if d <= 0 or r.chance(1, 3):
            if vs and r.chance(3, 4):
                return r.choice(vs).name
            return self.lit("string")
        k = r.below(100)
        if k < 40:
            pa, pb = prof.split(r)
            return "(%s + %s)" % (self.e_str(d - 1, pa), self.e_str(d - 1, pb))
        if k < 60 and vs and prof.panicky:
            prof.panicky = 0
            v = r.choice(vs).name
            a = self.e_int("int", d - 1, prof.nopanic())
            form = r.below(3)
            if form == 0:
                return "%s[%s:]" % (v, a)
            if form == 1:
                return "%s[:%s]" % (v, a)
            b = self.e_int("int", d - 1, prof.nopanic())
            return "%s[%s:%s]" % (v, a, b)
        if k < 70 and vs:
            v = r.choice(vs).name
            return "%s[:len(%s)/2]" % (v, v)
        if k < 80 and prof.calls >= 1:
            return "idS(%s)" % self.e_str(d - 1, prof)
        if k < 86:
            svs = [v for v in self.visible() if v.ty == "S0" and (prof.exposed or v.private)]
            if svs:
                return r.choice(svs).name + ".B"
        if vs:
            return r.choice(vs).name
        return self.lit("string")

    def call(self, h, d, prof):
        args = []
        for (_, t) in h.params:
            args.append(self.arg_for(t, d, prof))
        if h.eff:
            self.eff = True
        return "%s(%s)" % (h.name, ", ".join(args))

    def arg_for(self, t, d, prof):
        r = self.rng
        if t in INT_RANGE or t in ("bool", "string"):
            return self.e(t, d - 1, prof)
        if t == "*int":
            c = [v for v in self.visible() if v.ty == "int" and not v.private and v.assignable]
            p = self.vars_of("*int", prof)
            if c and (not p or r.chance(2, 3)):
                return "&" + r.choice(c).name
            if p:
                return r.choice(p).name
            return "new(int)"
        if t == "*S0":
            c = [v for v in self.visible() if v.ty == "S0" and not v.private]
            if c:
                return "&" + r.choice(c).name
            return "&S0{A: %s}" % self.e_int("int", 0, prof)
        if t == "[]int":
            c = self.vars_of("[]int", prof)
            if c:
                return r.choice(c).name
            return "[]int{%s, %s}" % (self.e_int("int", 0, prof), self.e_int("int", 0, prof))
        vs = self.vars_of(t, prof)
        if vs:
            return r.choice(vs).name
        if t == "S0":
            return "S0{A: %s, B: %s}" % (self.e_int("int", 0, prof), self.e_str(0, prof))
        if t.startswith("[") and not t.startswith("[]"):
            return t + "{%s}" % self.e_int("int", 0, prof)
        if t == "I0":
            return "mk(%s)" % self.e_int("int", 0, prof) if prof.calls >= 1 else "T0{%d}" % r.below(5)
        if t == "func(int) int":
            return "idI" if prof.calls >= 1 else "nil"
        return self.zero_of(t)

    # ---------------------------------------------------------------- statements
    def prof_any(self):
        k = self.rng.below(10)
        if k < 4:
            return PA()
        if k < 8:
            return PB1()
        return PB2()

    def new_var(self, ty, expr, private=None, assignable=True):
        r = self.rng
        if private is None:
            private = not r.chance(2, 5)
        name = self.fresh()
        self.emit("%s := %s" % (name, expr))
        self.emit("_ = %s" % name)
        v = Var(name, ty, private=private, assignable=assignable)
        self.declare(v)
        return v

    def s_decl(self, d):
        r = self.rng
        k = r.below(100)
        prof = self.prof_any()
        if k < 45:
            ty = r.choice(["int", "int", "int", "int", "bool", "string", "string"] + SMALL_INT_TYPES[:4] + ["int64", "uint32"])
            self.new_var(ty, self.wrapty(ty, self.e(ty, 2, prof)))
        elif k < 55:
            n = 2 + r.below(3)
            elems = ", ".join(self.e_int("int", 1, prof.nopanic()) for _ in range(r.below(n + 1)))
            self.new_var("[%d]int" % n, "[%d]int{%s}" % (n, elems))
        elif k < 67:
            n = r.below(4)
            if r.chance(1, 4):
                self.new_var("[]int", "make([]int, %d, %d)" % (n, n + r.below(3)))
            else:
                elems = ", ".join(self.e_int("int", 1, prof.nopanic()) for _ in range(n))
                self.new_var("[]int", "[]int{%s}" % elems)
        elif k < 77:
            self.new_var("S0", "S0{A: %s, B: %s, C: %s}" % (self.e_int("int", 1, prof.nopanic()),
                                                            self.e_str(1, prof.nopanic()), self.e_bool(1, prof.nopanic())))
        elif k < 84:
            c = [v for v in self.visible() if v.ty == "int" and not v.private and v.assignable and not v.is_global]
            if c:
                self.new_var("*int", "&" + r.choice(c).name, private=False)
            else:
                name = self.fresh()
                self.emit("var %s *int" % name)
                self.emit("_ = %s" % name)
                self.declare(Var(name, "*int", private=False))
        elif k < 89:
            c = [v for v in self.visible() if v.ty == "S0" and not v.private]
            if c:
                self.new_var("*S0", "&" + r.choice(c).name, private=False)
            else:
                self.new_var("*S0", "&S0{A: %s}" % self.e_int("int", 1, PC()), private=False)
        elif k < 95:
            self.new_var("I0", "mk(%s)" % self.e_int("int", 1, PB1()), private=True)
        else:
            self.new_var("any", "anyOf(%s)" % self.e_int("int", 1, PB1()), private=True)

    def wrapty(self, ty, e):
        # `v := k3` infers the pool variable's type, `v := "a"` string etc.; comparisons give bool
        return e if ty in ("bool", "string") or ty in INT_RANGE else e

    def mark_write(self, v):
        if not v.private or v.is_global:
            self.eff = True

    def s_assign(self, d):
        r = self.rng
        cands = [v for v in self.visible() if v.assignable and (v.ty in INT_RANGE or v.ty in ("bool", "string"))]
        if not cands:
            return self.s_decl(d)
        v = r.choice(cands)
        prof = self.prof_any()
        self.mark_write(v)
        k = r.below(10)
        if v.ty in INT_RANGE and k < 4:
            if not v.private and prof.calls >= 2:
                prof = PB1()
            op = r.choice(["+=", "-=", "*=", "^=", "|=", "&=", "<<=", ">>="])
            if op in ("<<=", ">>="):
                self.emit("%s %s %d" % (v.name, op, r.below(7)))
            else:
                self.emit("%s %s %s" % (v.name, op, self.e_int(v.ty, 2, prof)))
        elif v.ty in INT_RANGE and k < 5:
            self.emit("%s%s" % (v.name, r.choice(["++", "--"])))
        elif v.ty == "string" and k < 3:
            if not v.private and prof.calls >= 2:
                prof = PB1()
            self.emit("%s += %s" % (v.name, self.e_str(1, prof)))
        else:
            self.emit("%s = %s" % (v.name, self.e(v.ty, 2, prof)))

    def s_agg(self, d):
        r = self.rng
        c = []
        for v in self.visible():
            if v.ty == "S0":
                c.append(("field", v))
            elif v.ty.startswith("[") and not v.ty.startswith("[]") and v.assignable:
                c.append(("arr", v))
            elif v.ty == "[]int":
                c += [("sl", v), ("app", v), ("sub", v), ("copy", v)]
            elif v.ty == "*int":
                c.append(("deref", v))
            elif v.ty == "*S0":
                c.append(("pfield", v))
        if not c:
            return self.s_decl(d)
        kind, v = r.choice(c)
        self.mark_write(v)
        if kind == "field":
            f = r.below(4)
            if f == 0:
                self.emit("%s.A = %s" % (v.name, self.e_int("int", 2, PA())))
            elif f == 1:
                self.emit("%s.B = %s" % (v.name, self.e_str(1, PA())))
            elif f == 2:
                self.emit("%s.C = %s" % (v.name, self.e_bool(1, PA())))
            else:
                prof = PA()
                i, _ = self.small_index(3, 2, prof)
                self.emit("%s.D[%s] = %s" % (v.name, i, self.e_int("int", 1, prof)))
        elif kind == "arr":
            n = int(v.ty[1:v.ty.index("]")])
            prof = PA()
            i, _ = self.small_index(n, 2, prof)
            self.emit("%s[%s] = %s" % (v.name, i, self.e_int("int", 1, prof)))
        elif kind == "sl":
            self.eff = True
            i = self.e_int("int", 1, PC())
            if r.chance(2, 3):
                self.emit("if len(%s) > 0 {" % v.name)
                self.emit("\t%s[int(uint(%s) %% uint(len(%s)))] = %s" % (v.name, i, v.name, self.e_int("int", 1, PC())))
                self.emit("}")
            else:
                self.emit("%s[%s] = %s" % (v.name, i, self.e_int("int", 1, PC())))
        elif kind == "app":
            n = 1 + r.below(2)
            base = "%s[:len(%s):len(%s)]" % (v.name, v.name, v.name) if (v.aliased or self.in_closure > 0) else v.name
            self.emit("%s = append(%s, %s)" % (v.name, base, ", ".join(self.e_int("int", 1, PC()) for _ in range(n))))
        elif kind == "sub":
            a = r.below(3)
            form = r.below(3)
            if form == 0:
                e = "%s[%d:]" % (v.name, a)
            elif form == 1:
                e = "%s[:%d]" % (v.name, a)
            else:
                e = "%s[%d:%d]" % (v.name, a, a + r.below(3))
            if r.chance(1, 2):
                self.emit("if len(%s) >= %d {" % (v.name, a + 3))
                self.ind += 1
                nv = self.fresh()
                self.emit("%s := %s" % (nv, e))
                self.emit("obsI(len(%s))" % nv)
                self.emit("if len(%s) > 0 {" % nv)
                self.emit("\t%s[0] = %s" % (nv, self.e_int("int", 1, PC())))
                self.emit("}")
                self.ind -= 1
                self.emit("}")
            else:
                # never reslice beyond len (the capacity after a growing append is implementation-defined);
                # v[e:] with an arbitrary e panics independently of the capacity
                form = r.below(4)
                ln = "len(%s)" % v.name
                if form == 0:
                    e = "%s[min(%d, %s):%s:%s]" % (v.name, a, ln, ln, ln)
                elif form == 1:
                    e = "%s[:min(%d, %s):min(%d, %s)]" % (v.name, a, ln, a, ln)
                elif form == 2:
                    e = "%s[min(%d, %s):min(%d, %s):min(%d, %s)]" % (v.name, a, ln, a + 2, ln, a + 2, ln)
                else:
                    e = "%s[%s:]" % (v.name, self.e_int("int", 1, PC()))
                v.aliased = True
                nv = self.new_var("[]int", e, private=False)
                nv.aliased = True
        elif kind == "copy":
            o = r.choice(self.vars_of("[]int"))
            self.emit("obsI(copy(%s, %s))" % (v.name, o.name))
        elif kind == "deref":
            self.eff = True
            if r.chance(3, 4):
                self.emit("if %s != nil {" % v.name)
                self.emit("\t*%s = %s" % (v.name, self.e_int("int", 2, PC())))
                self.emit("}")
            else:
                self.emit("*%s = %s" % (v.name, self.e_int("int", 1, PC())))
        elif kind == "pfield":
            self.eff = True
            self.emit("%s.A = %s" % (v.name, self.e_int("int", 2, PC())))

    def s_obs(self, d):
        r = self.rng
        k = r.below(10)
        prof = PA() if r.chance(1, 2) else PC()
        if k < 6:
            self.emit("obsI(%s)" % self.wrap_int(self.pick_int_expr(prof)))
        elif k < 8:
            self.emit("obsS(%s)" % self.e_str(2, prof))
        else:
            self.emit("obsB(%s)" % self.e_bool(2, prof))

    def pick_int_expr(self, prof):
        r = self.rng
        ty = r.choice(["int", "int", "int"] + SMALL_INT_TYPES)
        return ty, self.e_int(ty, 2, prof)

    def wrap_int(self, te):
        ty, e = te
        return e if ty == "int" else "int(%s)" % e

    def s_call(self, d):
        r = self.rng
        k = r.below(100)
        if k < 20:
            c = [v for v in self.visible() if v.ty == "int" and not v.private and v.assignable]
            if c:
                x = r.choice(c)
                self.eff = True
                self.emit("obsI(bump(&%s, %s))" % (x.name, self.e_int("int", 1, PB2())))
                return
        if k < 32:
            c = [v for v in self.visible() if v.ty == "S0" and not v.private]
            if c:
                x = r.choice(c)
                self.eff = True
                if r.chance(1, 2):
                    self.emit("setS(&%s, %s)" % (x.name, self.e_int("int", 1, PB2())))
                else:
                    self.emit("%s.Inc(%s)" % (x.name, self.e_int("int", 1, PB2())))
                return
        if k < 42:
            c = self.vars_of("[]int")
            if c:
                self.eff = True
                self.emit("fill(%s, %s)" % (r.choice(c).name, self.e_int("int", 1, PB2())))
                return
        if k < 52:
            c = self.vars_of("I0")
            if c:
                self.eff = True
                self.emit("obsI(%s.M(%s))" % (r.choice(c).name, self.e_int("int", 1, PB2())))
                return
        if k < 60:
            c = self.vars_of("*S0")
            if c:
                x = r.choice(c)
                self.eff = True
                self.emit("if %s != nil {" % x.name)
                self.emit("\t%s.Inc(%s)" % (x.name, self.e_int("int", 1, PB2())))
                self.emit("\tobsI(%s.Sum())" % x.name)
                self.emit("}")
                return
        hs = self.pg.helpers
        if hs:
            h = r.choice(hs)
            prof = PB2() if h.eff else PB1()
            call = self.call(h, 2, prof)
            if len(h.results) == 0:
                self.emit(call)
            elif len(h.results) == 1:
                t = h.results[0]
                self.new_var(t, call)
            else:
                names = [self.fresh() for _ in h.results]
                self.emit("%s := %s" % (", ".join(names), call))
                for n, t in zip(names, h.results):
                    self.emit("_ = %s" % n)
                    self.declare(Var(n, t, private=not r.chance(1, 3)))
            return
        self.s_obs(d)

    def s_tuple(self, d):
        r = self.rng
        c = [v for v in self.visible() if v.assignable and v.private and v.ty == "int"]
        if len(c) < 2:
            return self.s_assign(d)
        a, b = r.shuffle(c)[:2]
        k = r.below(3)
        if k == 0:
            self.emit("%s, %s = %s, %s" % (a.name, b.name, b.name, a.name))
        elif k == 1:
            self.emit("%s, %s = %s, %s" % (a.name, b.name, self.e_int("int", 1, PC()), self.e_int("int", 1, PC())))
        else:
            self.emit("%s, %s = %s+1, %s-%s" % (a.name, b.name, b.name, a.name, b.name))

    def cond(self, d=2):
        prof = self.prof_any()
        return self.e_bool(d, prof)

    def s_if(self, d):
        r = self.rng
        self.emit("if %s {" % self.cond())
        self.body(d - 1, 1 + r.below(3))
        k = r.below(10)
        if k < 4:
            self.emit("} else {")
            self.body(d - 1, 1 + r.below(3))
        elif k < 6:
            self.emit("} else if %s {" % self.cond(1))
            self.body(d - 1, 1 + r.below(2))
            if r.chance(1, 2):
                self.emit("} else {")
                self.body(d - 1, 1 + r.below(2))
        self.emit("}")

    def body(self, d, n):
        self.push()
        self.ind += 1
        for _ in range(n):
            self.stmt(d)
        self.ind -= 1
        self.pop()

    def s_for(self, d):
        r = self.rng
        k = r.below(100)
        hdr_at = len(self.lines)
        label = self.fresh("L")
        self.push()
        priv = not r.chance(1, 3)
        if k < 40:
            i = self.fresh("i")
            n = 1 + r.below(5)
            bound = "%d" % n
            iv = [v for v in self.vars_of("int", PC()) if v.private]
            if iv and r.chance(1, 3):
                bound = "int(uint(%s) %% %d)" % (r.choice(iv).name, n + 1)
            if r.chance(1, 5):
                hdr = "for %s := %s - 1; %s >= 0; %s-- {" % (i, bound, i, i)
            else:
                hdr = "for %s := 0; %s < %s; %s++ {" % (i, i, bound, i)
            self.declare(Var(i, "int", private=priv, assignable=False))
        elif k < 52:
            i = self.fresh("i")
            hdr = "for %s := range %d {" % (i, 1 + r.below(4))
            self.declare(Var(i, "int", private=priv, assignable=False))
        elif k < 67:
            c = self.vars_of("[]int") + [v for v in self.visible() if v.ty.startswith("[") and v.ty.endswith("]int")]
            if not c:
                self.pop()
                return self.s_if(d)
            s = r.choice(c)
            s.aliased = True   # the range expression is a live copy of the slice header
            i, x = self.fresh("i"), self.fresh("x")
            hdr = "for %s, %s := range %s {" % (i, x, s.name)
            self.declare(Var(i, "int", private=priv, assignable=False))
            self.declare(Var(x, "int", private=priv, assignable=True))
            self.lines.append(None)  # placeholder replaced below
            self.lines.pop()
        elif k < 76:
            c = self.vars_of("string")
            i, x = self.fresh("i"), self.fresh("c")
            src = r.choice(c).name if c and r.chance(3, 4) else go_str(r.choice(STR_POOL))
            hdr = "for %s, %s := range %s {" % (i, x, src)
            self.declare(Var(i, "int", private=priv, assignable=False))
            self.declare(Var(x, "int32", private=priv, assignable=True))
        elif k < 86:
            # range over func: the body becomes a synthesized yield function
            c = self.vars_of("[]int")
            if c and r.chance(1, 3):
                sv = r.choice(c)
                sv.aliased = True
                i, x = self.fresh("i"), self.fresh("x")
                hdr = "for %s, %s := range each(%s) {" % (i, x, sv.name)
                self.declare(Var(i, "int", private=priv, assignable=False))
                self.declare(Var(x, "int", private=priv, assignable=True))
            else:
                i = self.fresh("i")
                hdr = "for %s := range upto(%d) {" % (i, 1 + r.below(4))
                self.declare(Var(i, "int", private=priv, assignable=False))
        else:
            # while-style loop with a fuel counter
            i = self.fresh("w")
            hdr = "for %s := 0; %s < %d && %s; %s++ {" % (i, i, 2 + r.below(4), self.cond(1), i)
            self.declare(Var(i, "int", private=True, assignable=False))
        self.emit(hdr)
        self.ind += 1
        for v in self.scopes[-1]:
            self.emit("_ = %s" % v.name)
        self.loops.append(["loop", label, False])
        self.push()
        for _ in range(1 + r.below(3)):
            self.stmt(d - 1)
        self.pop()
        used = self.loops.pop()[2]
        self.ind -= 1
        self.emit("}")
        self.pop()
        if used:
            self.lines[hdr_at] = "\t" * self.ind + label + ":\n" + self.lines[hdr_at]

    def s_jump(self, d):
        r = self.rng
        loops = [l for l in self.loops if l[0] == "loop"]
        if not self.loops:
            return self.s_obs(d)
        inner = self.loops[-1]
        self.emit("if %s {" % self.cond(1))
        self.ind += 1
        if r.chance(1, 2):
            self.s_obs(d)
        k = r.below(10)
        if loops and k < 4 and len(loops) >= 1:
            # labelled jump to any enclosing loop
            l = r.choice(loops)
            l[2] = True
            self.emit("%s %s" % (r.choice(["break", "continue"]), l[1]))
        elif inner[0] == "loop":
            self.emit(r.choice(["break", "continue"]))
        elif loops and r.chance(1, 2):
            l = loops[-1]
            l[2] = True
            self.emit("continue %s" % l[1])
        else:
            self.emit("break")
        self.ind -= 1
        self.emit("}")

    def s_switch(self, d):
        r = self.rng
        k = r.below(10)
        self.loops.append(["switch", None, False])
        if k < 5:
            tag = self.e_int("int", 2, self.prof_any())
            if r.chance(1, 3):
                x = self.fresh()
                self.emit("switch %s := %s; %s & 3 {" % (x, tag, x))
            else:
                self.emit("switch int(uint(%s) %% 5) {" % tag)
            ncl = 2 + r.below(3)
            consts = r.shuffle(list(range(9)))
            dpos = r.below(ncl + 1) if r.chance(2, 3) else -1
            ci = 0
            for c in range(ncl + (1 if dpos >= 0 else 0)):
                last = c == ncl + (1 if dpos >= 0 else 0) - 1
                if c == dpos:
                    self.emit("default:")
                else:
                    if r.chance(1, 4) and ci + 1 < len(consts):
                        self.emit("case %d, %d:" % (consts[ci], consts[ci + 1]))
                        ci += 2
                    else:
                        self.emit("case %d:" % consts[ci])
                        ci += 1
                self.body(d - 1, 1 + r.below(2))
                if not last and r.chance(1, 3):
                    self.emit("\tfallthrough")
            self.emit("}")
        elif k < 8:
            self.emit("switch {")
            for c in range(1 + r.below(3)):
                self.emit("case %s:" % self.cond(2))
                self.body(d - 1, 1 + r.below(2))
                if r.chance(1, 4):
                    self.emit("\tfallthrough")
            self.emit("default:")
            self.body(d - 1, 1)
            self.emit("}")
        elif k < 9:
            tv = self.fresh("tv")
            avs = self.vars_of("any")
            src = r.choice(avs).name if avs else "anyOf(%s)" % self.e_int("int", 1, PB1())
            self.emit("switch %s := %s.(type) {" % (tv, src))
            order = r.shuffle(["int", "string", "boolnil", "default"])
            self.emit("case int8:")
            self.emit("\tobsI(int(%s))" % tv)
            for o in order:
                if o == "int":
                    self.emit("case int:")
                    self.push()
                    self.declare(Var(tv, "int", private=True, assignable=True))
                    self.emit("\tobsI(%s)" % tv)
                    self.body(d - 1, 1)
                    self.pop()
                elif o == "string":
                    self.emit("case string:")
                    self.push()
                    self.declare(Var(tv, "string", private=True, assignable=True))
                    self.emit("\tobsS(%s)" % tv)
                    self.body(d - 1, 1)
                    self.pop()
                elif o == "boolnil":
                    self.emit("case bool, nil:")
                    self.emit("\tobsB(%s == nil)" % tv)
                elif r.chance(1, 2):
                    self.emit("default:")
                    self.body(d - 1, 1)
            self.emit("}")
        else:
            ivs = self.vars_of("I0")
            src = r.choice(ivs).name if ivs else "mk(%s)" % self.e_int("int", 1, PB1())
            tv = self.fresh("tv")
            self.emit("switch %s := %s.(type) {" % (tv, src))
            self.emit("case T0:")
            self.emit("\tobsI(%s.k)" % tv)
            self.emit("case *T1:")
            self.emit("\tobsI(%s.n + %s.k)" % (tv, tv))
            self.body(d - 1, 1)
            if r.chance(1, 2):
                self.emit("case E0:")
                self.emit("\tobsI(int(%s))" % tv)
            else:
                self.emit("case I0:")
                self.emit("\tobsI(%s.M(1))" % tv)
            self.emit("}")
        self.loops.pop()

    def s_goto(self, d):
        r = self.rng
        saved = self.loops
        if r.chance(1, 2):
            # backward goto forming a loop
            g = self.fresh("g")
            lab = self.fresh("G")
            self.emit("{")
            self.ind += 1
            self.emit("%s := 0" % g)
            self.lines.append("\t" * (self.ind - 1) + lab + ":")
            self.push()
            self.declare(Var(g, "int", private=True, assignable=False))
            self.loops = []   # break/continue may not cross out of the goto loop's block structure
            self.emit("{")
            self.body(d - 1, 1 + r.below(3))
            self.emit("}")
            self.loops = saved
            self.emit("%s++" % g)
            self.emit("if %s < %d {" % (g, 1 + r.below(4)))
            self.emit("\tgoto %s" % lab)
            self.emit("}")
            self.pop()
            self.ind -= 1
            self.emit("}")
        else:
            lab = self.fresh("G")
            self.emit("if %s {" % self.cond(1))
            if r.chance(1, 2):
                self.ind += 1
                self.s_obs(d)
                self.ind -= 1
            self.emit("\tgoto %s" % lab)
            self.emit("}")
            self.emit("{")
            self.body(d - 1, 1 + r.below(2))
            self.emit("}")
            self.lines.append("\t" * (self.ind - 1) + lab + ":")
            self.s_obs(d)

    def s_addr(self, d):
        """address-taken local that escapes on some paths only (lift.go's split alloc)"""
        r = self.rng
        x = self.fresh()
        ty = "int"
        self.emit("%s := %s" % (x, self.e_int(ty, 2, PA())))
        v = Var(x, ty, private=False)
        self.declare(v)
        for _ in range(r.below(2)):
            self.emit("%s %s %s" % (x, r.choice(["+=", "^=", "*="]), self.e_int(ty, 1, PC())))
        if r.chance(1, 3):
            self.emit("obsI(%s)" % x)
        shape = r.below(5)
        if shape == 0:
            self.emit("if %s {" % self.cond(1))
            self.emit("\tobsI(bump(&%s, %s))" % (x, self.e_int("int", 1, PB2())))
            self.emit("}")
        elif shape == 1:
            self.emit("if %s {" % self.cond(1))
            self.ind += 1
            q = self.fresh("q")
            self.emit("%s := &%s" % (q, x))
            self.emit("*%s %s %s" % (q, r.choice(["=", "+=", "-="]), self.e_int("int", 1, PC())))
            self.ind -= 1
            self.emit("} else {")
            self.emit("\t%s++" % x)
            self.emit("}")
        elif shape == 2:
            i = self.fresh("i")
            self.emit("for %s := 0; %s < %d; %s++ {" % (i, i, 1 + r.below(3), i))
            self.ind += 1
            self.emit("%s += %s" % (x, i))
            self.emit("if %s == %d {" % (i, r.below(3)))
            self.emit("\tbump(&%s, %s)" % (x, i))
            self.emit("}")
            self.ind -= 1
            self.emit("}")
        elif shape == 3:
            p = self.fresh("pp")
            self.emit("var %s *int" % p)
            self.emit("if %s {" % self.cond(1))
            self.emit("\t%s = &%s" % (p, x))
            self.emit("}")
            self.emit("%s += %s" % (x, self.e_int("int", 1, PC())))
            self.emit("if %s != nil {" % p)
            self.emit("\t*%s += 3" % p)
            self.emit("}")
            self.declare(Var(p, "*int", private=False))
        else:
            self.emit("switch int(uint(%s) %% 3) {" % self.e_int("int", 1, PC()))
            self.emit("case 0:")
            self.emit("\tbump(&%s, 1)" % x)
            self.emit("\tfallthrough")
            self.emit("case 1:")
            self.emit("\t%s *= 2" % x)
            self.emit("default:")
            self.emit("\t%s--" % x)
            self.emit("}")
        self.emit("obsI(%s)" % x)

    def closure_body(self, params, results, nstm, d):
        """generate a func literal body; returns (lines, eff)"""
        saved_lines, saved_ind, saved_eff = self.lines, self.ind, self.eff
        saved_loops = self.loops
        self.lines, self.eff, self.loops = [], False, []
        self.ind += 1
        self.in_closure += 1
        self.barriers.append(len(self.scopes))
        self.push()
        for (n, t) in params:
            self.declare(Var(n, t, private=True))
        self.ret_stack.append((results, False))
        for _ in range(nstm):
            self.stmt(d)
        self.s_return(final=True)
        self.ret_stack.pop()
        self.pop()
        self.barriers.pop()
        self.in_closure -= 1
        lines, eff = self.lines, self.eff
        self.lines, self.ind, self.loops = saved_lines, saved_ind, saved_loops
        self.eff = saved_eff or eff
        return lines, eff

    def s_closure(self, d):
        r = self.rng
        k = r.below(10)
        if k < 5:
            f = self.fresh("fn")
            a = self.fresh("ca")
            lines, eff = self.closure_body([(a, "int")], ["int"], r.below(3), d - 1)
            self.emit("%s := func(%s int) int {" % (f, a))
            self.lines += lines
            self.emit("}")
            self.emit("_ = %s" % f)
            v = Var(f, "func(int) int", private=True, assignable=False)
            v.pure = not eff
            self.declare(v)
            if r.chance(2, 3):
                self.emit("obsI(%s(%s))" % (f, self.e_int("int", 1, PB2() if eff else PB1())))
        elif k < 7:
            lines, eff = self.closure_body([], [], 1 + r.below(3), d - 1)
            self.emit("func() {")
            self.lines += lines
            self.emit("}()")
        else:
            # closures made in a loop, capturing the per-iteration loop variable
            fs = self.fresh("fs")
            i = self.fresh("i")
            self.emit("var %s []func() int" % fs)
            self.emit("for %s := 0; %s < %d; %s++ {" % (i, i, 1 + r.below(4), i))
            self.ind += 1
            self.push()
            self.declare(Var(i, "int", private=False, assignable=False))
            lines, eff = self.closure_body([], ["int"], r.below(2), d - 1)
            self.emit("%s = append(%s, func() int {" % (fs, fs))
            self.lines += lines
            self.emit("})")
            if r.chance(1, 3):
                self.emit("if %s == 1 {" % i)
                self.emit("\t%s++" % i)
                self.emit("}")
            self.pop()
            self.ind -= 1
            self.emit("}")
            g = self.fresh("g")
            self.emit("for _, %s := range %s {" % (g, fs))
            self.emit("\tobsI(%s())" % g)
            self.emit("}")

    def s_defer(self, d):
        r = self.rng
        if self.loops and r.chance(1, 2):
            pass
        k = r.below(10)
        if k < 3:
            self.emit("defer obsI(%s)" % self.e_int("int", 1, PA()))
        elif k < 6:
            a = self.fresh("ca")
            lines, eff = self.closure_body([(a, "int")], [], 1 + r.below(2), d - 1)
            self.emit("defer func(%s int) {" % a)
            self.lines += lines
            self.emit("}(%s)" % self.e_int("int", 1, PA()))
        else:
            lines, eff = self.closure_body([], [], 1 + r.below(2), d - 1)
            self.emit("defer func() {")
            self.lines += lines
            self.emit("}()")

    def s_panic(self, d):
        r = self.rng
        self.emit("if %s {" % self.cond(1))
        if r.chance(1, 2):
            self.emit("\tpanic(%s)" % go_str(r.choice(["boom", "x", "bad state"])))
        else:
            self.emit("\tpanic(%s)" % self.e_int("int", 1, PC()))
        self.emit("}")

    def s_return(self, final=False):
        r = self.rng
        results, named = self.ret_stack[-1]
        if not results:
            if not final:
                self.emit("return")
            return
        if named and r.chance(1, 2):
            for (n, t) in zip(self.result_names, results):
                if r.chance(1, 2):
                    self.emit("%s = %s" % (n, self.e(t, 2, PA())))
            self.emit("return")
            return
        if len(results) >= 2 and not final and self.in_closure == 0:
            hs = [h for h in self.pg.helpers if h.results == results]
            if hs and r.chance(1, 3):
                h = r.choice(hs)
                self.emit("return %s" % self.call(h, 1, PB2() if h.eff else PB1()))
                return
        # each result expression: at most one panicky operation over all of them, no calls
        prof = PA()
        es = []
        for t in results:
            es.append(self.e(t, 2, prof))
            prof = Prof(0, prof.panicky, True)
        self.emit("return %s" % ", ".join(es))

    def s_cond_return(self, d):
        self.emit("if %s {" % self.cond(1))
        self.ind += 1
        self.s_return()
        self.ind -= 1
        self.emit("}")

    def stmt(self, d):
        r = self.rng
        if self.budget <= 0 or d <= 0:
            self.budget -= 1
            return r.choice([self.s_assign, self.s_obs, self.s_obs, self.s_agg])(d)
        self.budget -= 1
        table = [
            (14, self.s_decl), (14, self.s_assign), (8, self.s_agg), (10, self.s_obs), (8, self.s_call),
            (3, self.s_tuple), (10, self.s_if), (10, self.s_for), (5, self.s_switch), (3, self.s_goto),
            (6, self.s_addr), (5, self.s_closure), (2, self.s_panic), (3, self.s_cond_return),
        ]
        if self.loops:
            table.append((8, self.s_jump))
        if self.in_closure == 0 or r.chance(1, 3):
            table.append((3, self.s_defer))
        tot = sum(w for w, _ in table)
        k = r.below(tot)
        for w, f in table:
            if k < w:
                return f(d)
            k -= w

    def visible(self):
        seen = {}
        bar = self.barriers[-1] if self.barriers else 0
        for si, sc in enumerate(self.scopes):
            for v in sc:
                if si < bar and v.private and not v.is_global:
                    seen.pop(v.name, None)
                    continue
                seen[v.name] = v
        return list(seen.values())

    def generate(self):
        """returns the source text of the function"""
        r = self.rng
        self.barriers = []
        self.result_names = []
        self.push()
        ps = []
        for (n, t) in self.params:
            private = t in INT_RANGE or t in ("bool", "string")
            if private and r.chance(1, 3):
                private = False
            pv = Var(n, t, private=private)
            pv.aliased = True
            self.declare(pv)
            ps.append("%s %s" % (n, t))
        if self.named:
            rs = []
            for i, t in enumerate(self.results):
                n = "r%d" % i
                self.result_names.append(n)
                self.declare(Var(n, t, private=False))
                rs.append("%s %s" % (n, t))
            sig = "(%s)" % ", ".join(rs)
        elif len(self.results) == 1:
            sig = self.results[0]
        elif self.results:
            sig = "(%s)" % ", ".join(self.results)
        else:
            sig = ""
        if self.recovering:
            body = []
            saved = self.lines
            self.lines = []
            self.emit("defer func() {")
            self.emit("\tif e := recover(); e != nil {")
            self.ind += 2
            self.barriers.append(len(self.scopes))
            self.in_closure += 1
            self.s_obs(1)
            for (n, t) in zip(self.result_names, self.results):
                if r.chance(2, 3):
                    self.emit("%s = %s" % (n, self.e(t, 1, PC())))
            if r.chance(1, 6):
                self.emit("panic(e)")
            self.in_closure -= 1
            self.barriers.pop()
            self.ind -= 2
            self.emit("\t}")
            self.emit("}()")
            body = self.lines
            self.lines = saved + body
        n = 3 + r.below(6)
        for _ in range(n):
            self.stmt(3)
        self.s_return(final=True)
        if self.results and not self.lines[-1].strip().startswith("return"):
            self.emit("return " + ", ".join(self.zero_lit(t) for t in self.results))
        self.pop()
        pool = ["\tvar %s %s = %d" % (n, ty, v) for (ty, v), n in self.pool.items()]
        pool += ["\t_ = %s" % n for n in self.pool.values()]
        return "func %s(%s) %s {\n%s\n}\n" % (self.name, ", ".join(ps), sig, "\n".join(pool + self.lines))

    def zero_lit(self, t):
        if t in INT_RANGE:
            return "0"
        if t == "bool":
            return "false"
        if t == "string":
            return '""'
        return self.zero_of(t)


class PGen:
    """One generated program: prelude + globals + helpers + entry functions."""

    def __init__(self, seed, nentries=24, nhelpers=6):
        self.rng = vlib.SplitMix(seed)
        r = self.rng
        self.helpers = []
        self.globals = []
        self.entries = []      # (name, [param types], [result types])
        self.src = []
        gl = []
        for i, (t, init) in enumerate([("int", "%d" % r.below(9)), ("string", go_str(r.choice(STR_POOL))), ("bool", "false"),
                                       ("int", "0")]):
            name = "G%d" % i
            self.globals.append(Var(name, t, private=False, is_global=True))
            gl.append((name, t, init))
        self.global_inits = gl
        parts = [PRELUDE % {"c0": r.below(7), "c1": 1 + r.below(5)}]
        parts.append("var (\n" + "\n".join("\t%s %s = %s" % g for g in gl) + "\n)\n")
        scalar = ["int", "int", "int", "bool", "string", "int8", "uint8", "int32", "uint64", "int64", "uint16"]
        for i in range(nhelpers):
            np = 1 + r.below(3)
            kinds = scalar + ["*int", "[]int", "*S0", "S0", "[3]int", "I0", "func(int) int"]
            params = [("p%d" % j, r.choice(kinds)) for j in range(np)]
            nres = r.choice([0, 1, 1, 1, 2, 2, 3])
            results = [r.choice(["int", "int", "string", "bool", "int"]) for _ in range(nres)]
            if nres == 1 and r.chance(2, 3):
                results = ["int"]
            fg = FnGen(self, r.fork("h%d" % i), "h%d" % i, params, results, named=nres > 0 and r.chance(1, 4),
                       is_entry=False, budget=8 + r.below(8))
            fg.recovering = fg.named and r.chance(1, 2)
            parts.append(fg.generate())
            self.helpers.append(Helper("h%d" % i, params, results, fg.eff or any(t in ("*int", "[]int", "*S0", "I0", "func(int) int") for _, t in params)))
        for i in range(nentries):
            np = r.below(4)
            params = [("a%d" % j, r.choice(scalar)) for j in range(np)]
            nres = r.choice([1, 1, 2, 2, 3])
            results = [r.choice(["int", "int", "string", "bool", "int", "int8", "uint32", "int64"]) for _ in range(nres)]
            named = r.chance(2, 5)
            fg = FnGen(self, r.fork("f%d" % i), "f%d" % i, params, results, named=named, is_entry=True, budget=12 + r.below(14))
            fg.recovering = named and r.chance(2, 3)
            parts.append(fg.generate())
            self.entries.append(("f%d" % i, [t for _, t in params], results))
        self.prog_src = "\n".join(parts)

    # ---------------------------------------------------------------- input vectors
    def vectors(self, ptypes, n):
        r = self.rng
        out = []
        for k in range(n):
            vec = []
            for t in ptypes:
                if t in INT_RANGE:
                    lo, hi = INT_RANGE[t]
                    if k == 0:
                        v = 0
                    elif k == 1:
                        v = 1
                    elif k == 2:
                        v = max(lo, -1) if lo < 0 else 2
                    else:
                        c = r.below(10)
                        if c < 6:
                            v = r.below(12) - 3
                        elif c < 8:
                            v = r.below(2000) - 1000
                        elif c == 8:
                            v = r.choice([lo, hi, hi - 1, lo + 1])
                        else:
                            v = r.next() % (hi - lo + 1) + lo
                        v = max(lo, min(hi, v))
                    vec.append(("i", v))
                elif t == "bool":
                    vec.append(("b", (k + r.below(2)) % 2 == 0))
                else:
                    vec.append(("s", r.choice(STR_POOL) if k else ""))
            out.append(vec)
            if not ptypes:
                break
        return out


def go_lit(kind, v, ty):
    if kind == "i":
        if ty == "int":
            return "%d" % v
        return "%s(%d)" % (ty, v)
    if kind == "b":
        return "true" if v else "false"
    return go_str(v)


def lean_arg(kind, v):
    if kind == "i":
        return "i:%d" % v
    if kind == "b":
        return "b:%d" % (1 if v else 0)
    return "s:" + vlib.hexs(v)


MAIN_HEAD = '''package main

import (
	"fmt"
	"os"
	"runtime"
	"strings"
)

var trace []string

//go:noinline
func obsI(x int) { trace = append(trace, fmt.Sprintf("main.obsI(%d)", x)) }

//go:noinline
func obsS(x string) { trace = append(trace, "main.obsS("+showS(x)+")") }

//go:noinline
func obsB(x bool) { trace = append(trace, fmt.Sprintf("main.obsB(%v)", x)) }

func showS(s string) string {
	if s == "" {
		return "s-"
	}
	return fmt.Sprintf("s%x", s)
}

func show(v any) string {
	switch v := v.(type) {
	case string:
		return showS(v)
	case bool:
		return fmt.Sprintf("%v", v)
	}
	return fmt.Sprintf("%d", v)
}

func classify(r any) string {
	if e, ok := r.(runtime.Error); ok {
		m := e.Error()
		switch {
		case strings.Contains(m, "integer divide by zero"):
			return "rt:div"
		case strings.Contains(m, "index out of range"):
			return "rt:index"
		case strings.Contains(m, "slice bounds out of range"):
			return "rt:slice"
		case strings.Contains(m, "nil pointer dereference"):
			return "rt:nil"
		case strings.Contains(m, "interface conversion"):
			return "rt:assert"
		case strings.Contains(m, "makeslice: len"):
			return "rt:makeslice-len"
		case strings.Contains(m, "makeslice: cap"):
			return "rt:makeslice-cap"
		case strings.Contains(m, "negative shift amount"):
			return "rt:negshift"
		case strings.Contains(m, "comparing uncomparable"):
			return "rt:uncomparable"
		}
		return "rt:other:" + m
	}
	switch v := r.(type) {
	case string:
		return "custom:string:" + showS(v)
	case int, int8, int16, int32, int64, uint, uint8, uint16, uint32, uint64:
		return fmt.Sprintf("custom:int:%d", v)
	case bool:
		return fmt.Sprintf("custom:bool:%v", v)
	}
	return "custom:other"
}

func runCase(f func() string) {
	trace = trace[:0]
	resetGlobals()
	out := func() (out string) {
		defer func() {
			if r := recover(); r != nil {
				out = "PANIC " + classify(r)
			}
		}()
		return f()
	}()
	fmt.Fprintf(w, "%s|%s|%s\\n", strings.Join(trace, ";"), out, globals())
}

var w = os.Stdout
'''


def make_main(pg, cases):
    """cases: [(fname, ptypes, rtypes, vec)] -> main.go text"""
    out = [MAIN_HEAD]
    out.append("func resetGlobals() {")
    for (n, t, init) in pg.global_inits:
        out.append("\t%s = %s" % (n, init))
    out.append("}\n")
    names = sorted(n for (n, t, i) in pg.global_inits)
    out.append("func globals() string {")
    out.append("\treturn " + ' + " " + '.join('"%s=" + show(%s)' % (n, n) for n in names))
    out.append("}\n")
    out.append("func main() {")
    for (fname, ptypes, rtypes, vec) in cases:
        args = ", ".join(go_lit(k, v, t) for (k, v), t in zip(vec, ptypes))
        rs = ", ".join("x%d" % i for i in range(len(rtypes)))
        shows = ' + " " + '.join("show(x%d)" % i for i in range(len(rtypes)))
        out.append("\trunCase(func() string { %s := %s(%s); return \"RET \" + %s })" % (rs, fname, args, shows))
    out.append("}")
    return "\n".join(out) + "\n"




# =========================================================================== programs
class Program:
    """One program under test: `src` is a complete `package main` file that only lacks the
    observers obsI/obsS/obsB (bodyless in the IR build, recording in the compiled build)."""

    def __init__(self, name, src, global_inits, entries, cases, origin):
        self.name = name
        self.src = src
        self.global_inits = global_inits   # [(name, type, init literal)]
        self.entries = entries             # [(fname, [ptypes], [rtypes])]
        self.cases = cases                 # [(fname, ptypes, rtypes, vec)]
        self.origin = origin
        self.modes = list(MODES)
        self.resets = []                   # [(name, init literal)]: globals reset before each case but not printed


def program_from_seed(name, seed, nvec, nentries=24):
    pg = PGen(seed, nentries=nentries)
    cases = []
    for (fname, pt, rt) in pg.entries:
        for vec in pg.vectors(pt, nvec):
            cases.append((fname, pt, rt, vec))
    return Program(name, pg.prog_src, pg.global_inits, pg.entries, cases, {"generator_seed": seed, "nvec": nvec, "nentries": nentries})


import re as _re

_ENTRY = _re.compile(r"^//c01:entry\s+(\w+)\(([^)]*)\)\s*(.*)$")
_GLOBAL = _re.compile(r"^//c01:global\s+(\w+)\s+(\S+)\s+(.*)$")
_RESET = _re.compile(r"^//c01:reset\s+(\w+)\s+(.*)$")


def program_from_corpus(name, text, nvec, seed=12345):
    """corpus file: `package main` source with header comments
         //c01:global G0 int 3
         //c01:entry f0(int,string) int,bool
    input vectors are derived deterministically (the same scheme as generated programs)."""
    gl, entries = [], []
    for line in text.splitlines():
        m = _GLOBAL.match(line)
        if m:
            gl.append((m.group(1), m.group(2), m.group(3).strip()))
        m = _ENTRY.match(line)
        if m:
            pt = [x.strip() for x in m.group(2).split(",") if x.strip()]
            rt = [x.strip() for x in m.group(3).split(",") if x.strip()]
            entries.append((m.group(1), pt, rt))
    if not entries:
        raise vlib.HarnessError("corpus program %s declares no //c01:entry" % name)
    vg = PGen.__new__(PGen)
    vg.rng = vlib.SplitMix(seed)
    cases = []
    for (fname, pt, rt) in entries:
        for vec in PGen.vectors(vg, pt, nvec):
            cases.append((fname, pt, rt, vec))
    pr = Program(name, text, gl, entries, cases, {"corpus": name})
    pr.resets = [(m.group(1), m.group(2).strip()) for m in (_RESET.match(l) for l in text.splitlines()) if m]
    m = _re.search(r"^//c01:modes\s+(\S+)", text, flags=_re.M)
    if m:
        pr.modes = m.group(1).split(",")
    return pr


def make_run(prog, pkg):
    """run.go of the compiled copy: observers, case runner, `Run()`."""
    out = [MAIN_HEAD.replace("package main", "package %s" % pkg, 1)]
    out.append("func resetGlobals() {")
    for (n, t, init) in prog.global_inits:
        out.append("\t%s = %s" % (n, init))
    for (n, init) in prog.resets:
        out.append("\t%s = %s" % (n, init))
    out.append("}\n")
    names = sorted(n for (n, t, i) in prog.global_inits)
    out.append("func globals() string {")
    if names:
        out.append("\treturn " + ' + " " + '.join('"%s=" + show(%s)' % (n, n) for n in names))
    else:
        out.append('\treturn ""')
    out.append("}\n")
    out.append("func Run() {")
    for (fname, ptypes, rtypes, vec) in prog.cases:
        args = ", ".join(go_lit(k, v, t) for (k, v), t in zip(vec, ptypes))
        if rtypes:
            rs = ", ".join("x%d" % i for i in range(len(rtypes)))
            shows = ' + " " + '.join("show(x%d)" % i for i in range(len(rtypes)))
            out.append("\trunCase(func() string { %s := %s(%s); return \"RET \" + %s })" % (rs, fname, args, shows))
        else:
            out.append("\trunCase(func() string { %s(%s); return \"RET\" })" % (fname, args))
    out.append("}")
    return "\n".join(out) + "\n"


MODES = ["N", "L", "ND", "LD"]
MAXSTEPS = 400000
MAXSTEPS_RETRY = 60000000


def case_line(mode, fname, vec, steps=None):
    return ("RUN %s %s %d %s" % (mode, vlib.hexs("main." + fname), steps or MAXSTEPS, " ".join(lean_arg(k, v) for k, v in vec))).rstrip()


def show_case(c):
    fname, pt, rt, vec = c
    return "%s(%s)" % (fname, ", ".join(go_lit(k, v, t) for (k, v), t in zip(vec, pt)))


def set_pkg(src, pkg):
    return _re.sub(r"^package main\b", "package " + pkg, src, count=1, flags=_re.M)


def build_and_run_batch(ctx, bdir, progs):
    """Compile all programs of a batch into ONE binary (one package per program, one link) and run
    it: returns {prog.name: [output line per case]}."""
    os.makedirs(bdir, exist_ok=True)
    with open(os.path.join(bdir, "go.mod"), "w") as f:
        f.write("module gen\n\ngo 1.26\n")
    imports, calls = [], []
    for i, pr in enumerate(progs):
        pkg = "p%d" % i
        d = os.path.join(bdir, pkg)
        os.makedirs(d, exist_ok=True)
        with open(os.path.join(d, "prog.go"), "w") as f:
            f.write(set_pkg(pr.src, pkg))
        with open(os.path.join(d, "run.go"), "w") as f:
            f.write(make_run(pr, pkg))
        imports.append('\t%s "gen/%s"' % (pkg, pkg))
        calls.append('\tfmt.Println("##BEGIN %d")\n\t%s.Run()' % (i, pkg))
    with open(os.path.join(bdir, "main.go"), "w") as f:
        f.write("package main\n\nimport (\n\t\"fmt\"\n%s\n)\n\nfunc main() {\n%s\n}\n" % ("\n".join(imports), "\n".join(calls)))
    rc, so, se = vlib.run([vlib.GO, "build", "-p", "6", "-gcflags=-e", "-o", "prog", "."], cwd=bdir, env=vlib.go_env(), timeout=900)
    if rc != 0:
        raise vlib.HarnessError("the Go toolchain rejects a program of batch %s (generator/corpus bug, not a case):\n%s" % (bdir, (so + se)[-3000:]))
    rc, so, se = vlib.run([os.path.join(bdir, "prog")], cwd=bdir, timeout=300)
    if rc != 0:
        raise vlib.HarnessError("compiled batch %s failed (%d): %s" % (bdir, rc, se[-2000:]))
    res, cur = {}, None
    for line in so.splitlines():
        if line.startswith("##BEGIN "):
            cur = progs[int(line.split()[1])].name
            res[cur] = []
        else:
            res[cur].append(line)
    for pr in progs:
        if len(res.get(pr.name, [])) != len(pr.cases):
            raise vlib.HarnessError("compiled program %s: %d outputs for %d cases" % (pr.name, len(res.get(pr.name, [])), len(pr.cases)))
    return res


def dump_ir(ctx, dumpbin, pdir, prog, modes=None):
    modes = modes or prog.modes
    os.makedirs(pdir, exist_ok=True)
    a, b = os.path.join(pdir, "prog.go"), os.path.join(pdir, "stub.go")
    with open(a, "w") as f:
        f.write(prog.src)
    with open(b, "w") as f:
        f.write(STUB)
    rc, so, se = vlib.run([dumpbin, "-modes", ",".join(modes), a, b], env=vlib.go_env(), timeout=300)
    if rc != 0:
        raise vlib.HarnessError("c01dump failed on %s (%d): %s" % (prog.name, rc, se[-2000:]))
    return so.splitlines()


def run_driver(lines, timeout=900):
    rc, so, se = vlib.run([vlib.driver_path("C01")], input="".join(l + "\n" for l in lines), timeout=timeout)
    if rc != 0:
        raise vlib.HarnessError("c01driver exited %d: %s" % (rc, se[-2000:]))
    out = so.split("\n")
    if out and out[-1] == "":
        out.pop()
    if len(out) != len(lines):
        raise vlib.HarnessError("c01driver: %d outputs for %d inputs" % (len(out), len(lines)))
    return out


# =========================================================================== dump statistics
HEX_SPLIT = "split alloc".encode().hex()


def dump_stats(lines):
    """per mode: {function name: {...}} measured on the dump text (for the evidence only)."""
    out, mode, cur = {}, None, None
    for l in lines:
        t = l.split(" ")
        if t[0] == "prog":
            mode = t[1]
            out[mode] = {}
        elif t[0] == "func":
            name = bytes.fromhex(t[2]).decode() if t[2] != "-" else ""
            cur = {"name": name, "phis": 0, "allocs": 0, "loads": 0, "stores": 0, "split": 0, "recover": t[6] != "-",
                   "blocks": int(t[7]), "instrs": 0, "kinds": set(), "shape": []}
            out[mode][name] = cur
        elif t[0] == "ins" and cur is not None:
            k = t[4]
            cur["instrs"] += 1
            cur["kinds"].add(k)
            cur["shape"].append(k + ":" + t[2])
            if k == "phi":
                cur["phis"] += 1
            elif k == "alloc":
                cur["allocs"] += 1
                if t[-1] == HEX_SPLIT:
                    cur["split"] += 1
            elif k == "load":
                cur["loads"] += 1
            elif k == "store":
                cur["stores"] += 1
    return out


# =========================================================================== stage B: certificate inference (untrusted)
class DIns:
    __slots__ = ("id", "kind", "ty", "ops", "attrs", "comment")

    def __init__(self, id, kind, ty, ops, attrs, comment):
        self.id, self.kind, self.ty, self.ops, self.attrs, self.comment = id, kind, ty, ops, attrs, comment


class DBlock:
    def __init__(self, preds, succs):
        self.preds, self.succs, self.instrs = preds, succs, []


class DFn:
    def __init__(self, name, nparams, nfree, recover, external):
        self.name, self.nparams, self.nfree, self.recover, self.external = name, nparams, nfree, recover, external
        self.blocks = []
        self.vals = {}     # vid -> (tid, [desc tokens])


class DProg:
    def __init__(self):
        self.tkeys = {}
        self.fns = {}
        self.fnames = {}   # fid -> name
        self.globals = {}


def _unhex(h):
    return "" if h == "-" else bytes.fromhex(h).decode("utf-8", "replace")


def parse_dump(lines):
    """{mode: DProg}"""
    progs, cur, fn = {}, None, None
    for l in lines:
        t = l.split(" ")
        k = t[0]
        if k == "prog":
            cur = DProg()
            progs[t[1]] = cur
        elif k == "tkey":
            cur.tkeys[int(t[1])] = _unhex(t[2])
        elif k == "global":
            cur.globals[int(t[1])] = _unhex(t[2])
        elif k == "func":
            fn = DFn(_unhex(t[2]), int(t[3]), int(t[4]), None if t[6] == "-" else int(t[6]), t[8] == "1")
            cur.fns[fn.name] = fn
            cur.fnames[int(t[1])] = fn.name
        elif k == "val":
            fn.vals[int(t[2])] = (int(t[3]), t[4:])
        elif k == "block":
            np_ = int(t[3])
            preds = [int(x) for x in t[4:4 + np_]]
            ns = int(t[4 + np_])
            succs = [int(x) for x in t[5 + np_:5 + np_ + ns]]
            fn.blocks.append(DBlock(preds, succs))
        elif k == "ins":
            nops = int(t[6])
            ops = [None if x == "-" else int(x) for x in t[7:7 + nops]]
            na = int(t[7 + nops])
            attrs = t[8 + nops:8 + nops + na]
            fn.blocks[int(t[2])].instrs.append(DIns(int(t[3]), t[4], None if t[5] == "-" else int(t[5]), ops, attrs, t[-1]))
    return progs


class InferFail(Exception):
    pass


class Meta:
    __slots__ = ("ref", "tag")

    def __init__(self, tag):
        self.ref = None
        self.tag = tag


def _resolve(x):
    while isinstance(x, Meta) and x.ref is not None:
        x = x.ref
    return x


class FnView:
    """mirror of lean/Verif/C01/Abstract.lean (what is dropped, what denotes the own defer stack)"""

    def __init__(self, prog, fn):
        self.prog, self.fn = prog, fn
        self.all = [i for b in fn.blocks for i in b.instrs]
        self.uses = {}
        for ins in self.all:
            for pos, o in enumerate(ins.ops):
                if o is not None:
                    self.uses.setdefault(o, []).append((ins, pos))
        self.dropped, self.own, self.escapes = set(), set(), False
        self._ds()
        self.has_defer = any(i.kind == "defer" for i in self.all)
        self.drop_rundefers = (not self.has_defer) and (not self.escapes)

    def private(self, v):
        return all((i.kind == "load" and p == 0) or (i.kind == "store" and p == 0) or i.kind == "debugref" for i, p in self.uses.get(v, []))

    def _ds(self):
        calls = [i for i in self.all if i.kind == "call" and i.attrs[:1] == ["builtin"] and _unhex(i.attrs[1]) == "ssa:deferstack"]
        if not calls:
            return
        if len(calls) > 1:
            self.escapes = True
            return
        d = calls[0]
        us = self.uses.get(d.id, [])
        direct = lambda u: u[0].kind == "defer" and u[1] + 1 == len(u[0].ops)
        stores = [u for u in us if not direct(u)]
        cells = []
        for (i, p) in stores:
            c = i.ops[0] if (i.kind == "store" and p == 1) else None
            if c not in cells:
                cells.append(c)
        if not cells:
            self.dropped, self.own = {d.id}, {d.id}
            return
        if len(cells) != 1 or cells[0] is None:
            self.escapes = True
            return
        c = cells[0]
        is_alloc = any(i.id == c and i.kind == "alloc" for i in self.all)
        cu = self.uses.get(c, [])
        stores_ok = all((i.ops[1] == d.id) if (i.kind == "store" and p == 0) else True for i, p in cu)
        loads = [i for i, p in cu if i.kind == "load" and p == 0]
        loads_ok = all(all(direct(u) for u in self.uses.get(l.id, [])) for l in loads)
        if is_alloc and self.private(c) and stores_ok and loads_ok:
            self.dropped = {d.id, c} | {i.id for i, p in cu if i.kind != "debugref"}
            self.own = {d.id} | {l.id for l in loads}
        else:
            self.escapes = True

    def tkey(self, tid):
        return self.prog.tkeys.get(tid, "?%s" % tid)

    def canon(self, v):
        """canonical symbolic value of operand vid (None = absent)"""
        if v is None:
            return ("k", "absent")
        if v in self.own:
            return ("k", "deferstack:own")
        tid, desc = self.fn.vals.get(v, (None, None))
        if desc is None or desc[0] in ("param", "free"):
            return ("r", v)
        tk = self.tkey(tid)
        if desc[0] == "const":
            if desc[1] == "nil" or (desc[1] == "int" and desc[2] == "0") or (desc[1] == "bool" and desc[2] == "0") or (desc[1] == "str" and desc[2] == "-"):
                return ("k", "zero", tk)
            return ("k", "const", tk) + tuple(desc[1:])
        if desc[0] == "global":
            return ("k", "global", self.prog.globals.get(int(desc[1])))
        if desc[0] == "func":
            return ("k", "func", self.prog.fnames.get(int(desc[1])))
        if desc[0] == "builtin":
            return ("k", "builtin", desc[1], tk)
        return ("k", "foreign", v)

    def blocks(self):
        """per block: (phis, body, term) with the dropped instructions removed"""
        out = []
        for b in self.fn.blocks:
            phis, body, term = [], [], None
            for i in b.instrs:
                if i.kind == "debugref" or i.id in self.dropped:
                    continue
                if i.kind == "rundefers" and self.drop_rundefers:
                    continue
                if i.kind == "phi":
                    phis.append(i)
                elif i.kind in ("jump", "if", "constantswitch", "unreachable", "return", "panic"):
                    term = i
                else:
                    body.append(i)
            out.append((phis, body, term))
        return out


def alloc_key(v, i):
    return (i.attrs[0], v.tkey(i.ty), i.comment)


def infer_lift(pN, pL, name):
    """returns ('ok', cells, rho, maps, info) | ('skip', reason) for function `name` of the naive
    program pN and the lifted program pL.  Everything returned is untrusted input of the validator."""
    fN, fL = pN.fns[name], pL.fns[name]
    if fN.external or fL.external:
        return ("skip", "external")
    if len(fN.blocks) != len(fL.blocks):
        raise InferFail("number of blocks differs")
    vN, vL = FnView(pN, fN), FnView(pL, fL)
    bN, bL = vN.blocks(), vL.blocks()
    # ---- which naive Allocs were lifted away / split: match the Alloc subsequences of each block
    cells = set()
    split = {}      # naive alloc id -> lifted "split alloc" id
    for bi in range(len(bN)):
        aN = [i for i in bN[bi][1] if i.kind == "alloc"]
        aL = [i for i in bL[bi][1] if i.kind == "alloc"]
        j = 0
        for a in aN:
            if j < len(aL) and alloc_key(vN, a) == alloc_key(vL, aL[j]):
                j += 1
            elif (j < len(aL) and aL[j].comment == HEX_SPLIT and vN.tkey(a.ty) == vL.tkey(aL[j].ty)
                  and a.attrs[1:] == aL[j].attrs[1:] and not vN.private(a.id)):
                split[a.id] = aL[j].id
                j += 1
            elif vN.private(a.id):
                cells.add(a.id)
            else:
                # an Alloc whose address is stored into another local that was itself lifted (several
                # rounds of lift): outside the validated fragment
                return ("skip", "indirect-alloc")
        if j != len(aL):
            if any(x.comment == HEX_SPLIT for x in aL[j:]):
                return ("skip", "split-chain")
            raise InferFail("block %d: lifted function has an Alloc without counterpart" % bi)
    split_l = set(split.values())
    # escaping Allocs of the naive function that are neither kept nor split: their address was only
    # stored into locals that were lifted themselves (several rounds of lift) - outside the fragment
    n_split_l = sum(1 for i in vL.all if i.kind == "alloc" and i.comment == HEX_SPLIT)
    kept = sum(1 for i in vL.all if i.kind == "alloc") - n_split_l
    n_escaping = sum(1 for i in vN.all if i.kind == "alloc" and i.id not in vN.dropped and not vN.private(i.id))
    if n_escaping - kept > n_split_l or len(split) != n_split_l:
        return ("skip", "indirect-alloc")

    def is_pub(l):
        return l.kind == "store" and l.comment == HEX_SPLIT and l.ops[0] in split_l

    # ---- register relation by lock step
    rho = {i: i for i in range(fN.nparams + fN.nfree)}
    rho.update(split)
    # which direct accesses of a split Alloc go to the object (and have a counterpart in the lifted
    # function) rather than to the shadow cell: those after a use of the address as a value in the same
    # block, and all those in blocks reachable from a block with such a use (lift.go's own rule; being
    # part of the untrusted certificate it only has to be right, not trusted)
    world_by_block = [set() for _ in bN]
    for a in split:
        nb = len(fN.blocks)
        first_real = [None] * nb
        for bi, b in enumerate(fN.blocks):
            for pos, i in enumerate(b.instrs):
                if i.kind == "debugref":
                    continue
                if any(o == a and not (i.kind in ("load", "store") and k == 0) for k, o in enumerate(i.ops)):
                    first_real[bi] = 0 if i.kind == "phi" else pos
                    break
        tainted = [False] * nb
        stack = [sc for bi in range(nb) if first_real[bi] is not None for sc in fN.blocks[bi].succs]
        while stack:
            x = stack.pop()
            if not tainted[x]:
                tainted[x] = True
                stack += fN.blocks[x].succs
        for bi, b in enumerate(fN.blocks):
            for pos, i in enumerate(b.instrs):
                if i.kind in ("load", "store") and i.ops[0] == a:
                    if tainted[bi] or (first_real[bi] is not None and pos > first_real[bi]):
                        world_by_block[bi].add(i.id)
    world_all = set()
    for w in world_by_block:
        world_all |= w
    acc_of = {a: set(i.id for i in vN.all if i.kind in ("load", "store") and i.ops[0] == a) for a in split}
    inv_split = {v: k for k, v in split.items()}
    pairs = []   # per block: list of (naive ins, lifted ins or None) and ("pub", naive alloc id, lifted store)
    for bi in range(len(bN)):
        pn, bodyN, tn = bN[bi]
        pl, bodyL, tl = bL[bi]
        if len(pl) < len(pn):
            raise InferFail("block %d: fewer phis after lifting" % bi)
        for a, b in zip(pn, pl[len(pl) - len(pn):]):
            rho[a.id] = b.id
        j, pr = 0, []
        world = world_by_block[bi]

        def publishes(before_id):
            nonlocal j
            while j < len(bodyL) and is_pub(bodyL[j]):
                l = bodyL[j]
                pr.append(("pub", inv_split[l.ops[0]], l, before_id))
                j += 1

        for i in bodyN:
            if any(o in split and not (i.kind in ("load", "store") and pos == 0) for pos, o in enumerate(i.ops)):
                # the address of a split Alloc is used as a value: pending sync points come first
                publishes(i.id)
            if (i.kind == "alloc" and i.id in cells) or (i.kind in ("load", "store") and i.ops[0] in cells):
                pr.append((i, None))
                continue
            if i.kind in ("load", "store") and i.ops[0] in split and i.id not in world:
                pr.append((i, None))
                continue
            # an instruction with a counterpart: pending publish points come first
            publishes(i.id)
            if i.kind == "alloc" and i.id in split:
                # the shadow cell is initialised here; the Alloc itself corresponds to the split alloc
                if j >= len(bodyL) or bodyL[j].id != split[i.id]:
                    raise InferFail("block %d: split alloc of v%d is not where the Alloc was" % (bi, i.id))
                pr.append(("shadow", i))
            if j >= len(bodyL) or bodyL[j].kind != i.kind or len(bodyL[j].ops) != len(i.ops):
                raise InferFail("block %d: naive %s (v%d) has no counterpart at position %d" % (bi, i.kind, i.id, j))
            rho[i.id] = bodyL[j].id
            pr.append((i, bodyL[j]))
            j += 1
        if tn is not None:
            publishes(tn.id)
        if j != len(bodyL):
            raise InferFail("block %d: lifted block has %d extra instruction(s), first %s" % (bi, len(bodyL) - j, bodyL[j].kind))
        if (tn is None) != (tl is None) or (tn is not None and (tn.kind != tl.kind or len(tn.ops) != len(tl.ops))):
            raise InferFail("block %d: terminators differ" % bi)
        pairs.append(pr)

    # ---- sync points of the split Allocs: every "split alloc" store of the lifted function is mirrored
    # in the naive function by `load t <shadow cell>; store x t` with fresh temporaries t, r
    nvals = 1 + max([0] + list(fN.vals) + [i.id for i in vN.all])
    sync = {a: [] for a in split}
    tmp = nvals + 16
    for bi in range(len(bN)):
        for x in pairs[bi]:
            if x[0] == "pub":
                sync[x[1]].append((x[3], tmp, tmp + 1))
                rho[tmp + 1] = x[2].id
                tmp += 2

    # ---- entry maps by unification
    entry = [dict() for _ in bN]   # key -> Meta
    conflicts = []

    def E(bi, key):
        m = entry[bi].get(key)
        if m is None:
            m = entry[bi][key] = Meta((bi, key))
        return m

    def unify(a, b):
        a, b = _resolve(a), _resolve(b)
        if a is b:
            return False
        if isinstance(a, Meta):
            a.ref = b
            return True
        if isinstance(b, Meta):
            b.ref = a
            return True
        if a != b:
            conflicts.append((a, b))
        return False

    outs = []
    changed = [False]

    def walk(bi):
        env = {}

        def read(key):
            return env[key] if key in env else E(bi, key)

        def trsym(o):
            c = vN.canon(o)
            if c[0] == "r":
                if c[1] in rho:
                    return ("r", rho[c[1]])
                return read(("l", c[1]))
            return c

        for (i, l) in [(x[0], x[1]) if x[0] not in ("pub", "shadow") else (x, None) for x in pairs[bi]]:
            if isinstance(i, tuple) and i[0] == "shadow":
                env[("c", i[1].id)] = ("k", "zero", vN.tkey_elem(i[1]))
                continue
            if isinstance(i, tuple):
                # publish: the lifted store initialises the split alloc with the content of the cell
                _, a, st = i[:3]
                if unify(read(("c", a)), vL.canon(st.ops[1])):
                    changed[0] = True
                continue
            if l is None:
                if i.kind == "alloc":
                    env[("c", i.id)] = ("k", "zero", vN.tkey_elem(i))
                elif i.kind == "store":
                    env[("c", i.ops[0])] = trsym(i.ops[1])
                else:
                    env[("l", i.id)] = read(("c", i.ops[0]))
            else:
                for on, ol in zip(i.ops, l.ops):
                    if unify(trsym(on), vL.canon(ol)):
                        changed[0] = True
        tn, tl = bN[bi][2], bL[bi][2]
        if tn is not None:
            for on, ol in zip(tn.ops, tl.ops):
                if unify(trsym(on), vL.canon(ol)):
                    changed[0] = True
        return env, trsym

    FnView.tkey_elem = lambda self, i: _elem_key(self, i)
    for bi in range(len(bN)):
        outs.append(walk(bi))

    def out_of(p, key):
        env, _ = outs[p]
        return env[key] if key in env else E(p, key)

    lphis = [{p.id: p for p in bL[bi][0]} for bi in range(len(bL))]
    for _round in range(4 * len(bN) + 8):
        changed[0] = False
        for bi in range(len(bN)):
            preds = fN.blocks[bi].preds
            npn = len(bN[bi][0])
            oldL = bL[bi][0][len(bL[bi][0]) - npn:] if npn else []
            for k, p in enumerate(preds):
                if preds.index(p) != k:
                    continue
                _, trp = outs[p]
                for a, b in zip(bN[bi][0], oldL):
                    if unify(trp(a.ops[k]), vL.canon(b.ops[k])):
                        changed[0] = True
                for key, m in list(entry[bi].items()):
                    v = _resolve(m)
                    if isinstance(v, Meta):
                        continue
                    if v[0] == "r" and v[1] in lphis[bi]:
                        want = vL.canon(lphis[bi][v[1]].ops[k])
                    else:
                        want = v
                    if unify(out_of(p, key), want):
                        changed[0] = True
        if not changed[0]:
            break

    # ---- emit
    const_vid = {}
    for v, (tid, desc) in fL.vals.items():
        c = vL.canon(v)
        if c[0] == "k":
            const_vid.setdefault(c, v)
    maps = []
    for bi in range(len(bN)):
        ent = []
        if bi != 0 and bi != fN.recover:
            for key, m in sorted(entry[bi].items()):
                v = _resolve(m)
                if isinstance(v, Meta):
                    continue
                vid = v[1] if v[0] == "r" else const_vid.get(v)
                if vid is None:
                    continue
                ent.append("%s%d:%d" % (key[0], key[1], vid))
        maps.append("m=" + ";".join(ent))
    info = {"cells": len(cells), "split": len(split), "new_phis": sum(len(bL[bi][0]) - len(bN[bi][0]) for bi in range(len(bN))),
            "conflicts": len(conflicts)}
    sn = "sn=" + ",".join("%d@%s@%s" % (a, "+".join("%d:%d:%d" % p3 for p3 in sync[a]),
                                        "+".join(str(w) for w in sorted(world_all) if True and w in acc_of[a])) for a in sorted(split))
    return ("ok", sorted(cells), sorted(rho.items()), [sn] + maps, info)


def _elem_key(view, i):
    # the dumper's key of a pointer type is "*" + key of the element
    k = view.tkey(i.ty)
    return k[1:] if k.startswith("*") else k


def lift_line(mN, mL, name, cells, rho, maps):
    return "LIFT %s %s %s c=%s r=%s %s" % (mN, mL, vlib.hexs(name), ",".join(map(str, cells)),
                                           ",".join("%d:%d" % ab for ab in rho), " ".join(maps))


def lift_jobs(dump):
    """[(mN, mL, function name, status, driver line or None, info)] for every function of the dump"""
    progs = parse_dump(dump)
    jobs = []
    for (mN, mL) in (("N", "L"), ("ND", "LD"), ("NI", "LI")):
        if mN not in progs or mL not in progs:
            continue
        pN, pL = progs[mN], progs[mL]
        for name in pN.fns:
            if name not in pL.fns:
                jobs.append((mN, mL, name, "infer-fail", None, "function missing in the lifted program"))
                continue
            try:
                r = infer_lift(pN, pL, name)
            except InferFail as e:
                if any(i.kind == "alloc" and i.comment == HEX_SPLIT for b in pL.fns[name].blocks for i in b.instrs):
                    # lift.go split an Alloc and a later round lifted through it: outside the validated fragment
                    jobs.append((mN, mL, name, "skip-split-unvalidated", None, str(e)))
                else:
                    jobs.append((mN, mL, name, "infer-fail", None, str(e)))
                continue
            if r[0] == "skip":
                jobs.append((mN, mL, name, "skip-" + r[1], None, None))
            else:
                jobs.append((mN, mL, name, "check", lift_line(mN, mL, name, r[1], r[2], r[3]), r[4]))
    return jobs


# =========================================================================== stage A
def classify_case(go, by_mode):
    """compare the compiled program's line with the interpreted ones.
    returns (status, detail): diff if some mode disagrees; agree if at least one mode was executed and
    all executed modes agree; otherwise skip / fuel"""
    bad, nag, nskip, nfuel = {}, 0, 0, 0
    # the lifted form consists of a subset of the instructions of the naive form (plus phis): if the
    # naive form runs and agrees but the lifted form of the same build is not executable (it reads a
    # register that is never defined, a phi without the edge taken, ...), lifting produced IR without
    # a documented meaning
    for m, lo in by_mode.items():
        if m.startswith("L") and "|SKIP " in lo and by_mode.get("N" + m[1:]) == go:
            return "diff", {m: lo}
    for m, lo in by_mode.items():
        if "|SKIP " in lo:
            nskip += 1
            bad[m] = lo.split("|")[1]
        elif "|FUEL|" in lo:
            nfuel += 1
        elif lo != go:
            return "diff", {m: lo}
        else:
            nag += 1
    if nag:
        return "agree", bad
    return ("fuel" if nfuel else "skip"), bad


def explain_diff(go, by_mode):
    n, l = by_mode.get("N"), by_mode.get("L")
    ex = {m: v for m, v in by_mode.items() if "|SKIP " not in v and "|FUEL|" not in v}
    okN = all(v == go for m, v in ex.items() if m.startswith("N"))
    okL = all(v == go for m, v in ex.items() if m.startswith("L"))
    for m, v in by_mode.items():
        if m.startswith("L") and "|SKIP " in v and by_mode.get("N" + m[1:]) == go:
            return ("lifting: the naive IR runs and behaves like the compiled program, the lifted IR of the same function is not "
                    "executable (%s): it has no documented meaning (go/ir/lift.go)" % v.split("|")[1])
    if okN and not okL:
        return "lifting: the naive IR behaves like the compiled program, the lifted IR does not (go/ir/lift.go)"
    if okL and not okN:
        return "naive form only: the lifted IR behaves like the compiled program, the naive IR does not"
    if n is not None and l is not None and n == l:
        return "builder: naive and lifted IR agree with each other but not with the compiled program (go/ir/builder.go, emit.go, lvalue.go, blockopt.go) — or the reference interpreter is wrong"
    return "naive and lifted IR differ from the compiled program in different ways"


TIMES = {}


def ir_side(ctx, dumpbin, pdir, pr):
    """dump the IR of one program in its modes, run every case through the Lean interpreter and every
    function through the lift validator; returns (per case {mode: line}, lift results, stats)"""
    import time as _t
    t0 = _t.time()
    dump = dump_ir(ctx, dumpbin, pdir, pr)
    TIMES["c01dump"] = TIMES.get("c01dump", 0) + _t.time() - t0
    lines = list(dump)
    for m in pr.modes:
        for (fname, pt, rt, vec) in pr.cases:
            lines.append(case_line(m, fname, vec))
    t0 = _t.time()
    jobs = lift_jobs(dump)
    TIMES["infer"] = TIMES.get("infer", 0) + _t.time() - t0
    lines += [j[4] for j in jobs if j[4] is not None]
    t0 = _t.time()
    out = run_driver(lines)
    TIMES["c01driver"] = TIMES.get("c01driver", 0) + _t.time() - t0
    nd = len(dump)
    badrec = [i for i in range(nd) if out[i] != "ok"]
    if badrec:
        raise vlib.HarnessError("c01driver rejects dump record of %s: %s" % (pr.name, dump[badrec[0]][:300]))
    nc = len(pr.cases)
    by_case = []
    for ci, c in enumerate(pr.cases):
        by_mode = {m: out[nd + mi * nc + ci] for mi, m in enumerate(pr.modes)}
        if any(v == "bad-op" for v in by_mode.values()):
            raise vlib.HarnessError("c01driver rejects RUN line of %s %s" % (pr.name, show_case(c)))
        by_case.append(by_mode)
    # out of budget: once more with a budget no terminating generated/corpus program comes near; what
    # still does not finish is a divergence from the compiled program (which did terminate)
    again = [(ci, m) for ci, bm in enumerate(by_case) for m, v in bm.items() if "|FUEL|" in v]
    if again:
        l2 = list(dump) + [case_line(m, pr.cases[ci][0], pr.cases[ci][3], MAXSTEPS_RETRY) for (ci, m) in again]
        o2 = run_driver(l2, timeout=3000)[nd:]
        for (ci, m), v in zip(again, o2):
            by_case[ci][m] = v.replace("|FUEL|", "|NOTERM after %d instructions|" % MAXSTEPS_RETRY)
    lo = out[nd + len(pr.modes) * nc:]
    lift, li = [], 0
    for (mN, mL, name, st, line, info) in jobs:
        ans = None
        if line is not None:
            ans = lo[li]
            li += 1
            if ans == "bad-op":
                raise vlib.HarnessError("c01driver rejects LIFT line of %s %s: %s" % (pr.name, name, line[:300]))
        lift.append({"modes": mN + "/" + mL, "function": name, "status": st, "answer": ans, "info": info})
    return by_case, lift, dump_stats(dump)


def stage_a(ctx, dumpbin, progs, tag, workers=6, batch=40):
    """runs all programs: the compiled side (one binary per batch of programs) and the IR side (dump,
    Lean interpreter, lift validator) run concurrently; returns a list of per-program result dicts"""
    from concurrent.futures import ThreadPoolExecutor
    import time as _t
    batches = [progs[i:i + batch] for i in range(0, len(progs), batch)]

    def go_side(bi):
        t0 = _t.time()
        r = build_and_run_batch(ctx, os.path.dirname(ctx.path(tag, "b%d" % bi, "x")), batches[bi])
        TIMES["go_build_run"] = TIMES.get("go_build_run", 0) + _t.time() - t0
        return r

    with ThreadPoolExecutor(max_workers=workers) as ex:
        gof = [ex.submit(go_side, bi) for bi in range(len(batches))]
        irf = [ex.submit(ir_side, ctx, dumpbin, os.path.dirname(ctx.path(tag, "ir_%s" % pr.name, "x")), pr) for pr in progs]
        go_out = {}
        for f in gof:
            go_out.update(f.result())
        irs = [f.result() for f in irf]
    res = []
    for pr, (by_case, lift, stats) in zip(progs, irs):
        cases = []
        for ci, c in enumerate(pr.cases):
            st, bad = classify_case(go_out[pr.name][ci], by_case[ci])
            cases.append((st, go_out[pr.name][ci], by_case[ci]))
        res.append({"prog": pr, "cases": cases, "stats": stats, "lift": lift})
    return res


# =========================================================================== the check
MODULES = ["Verif.C01.Theorems"]
THEOREMS = [
    "Verif.C01.lift_validator_sound_partial",
    "Verif.C01.program_lift_sound_partial",
    "Verif.C01.Core.semD_eq",
    "Verif.C01.Core.run_sim",
    "Verif.C01.Core.walk_sound",
    "Verif.C01.Core.enter_sound",
    "Verif.C01.wrapInt_congr",
    "Verif.C01.wrapInt_signed_range",
    "Verif.C01.wrapInt_unsigned_range",
    "Verif.C01.wrapInt_id_signed",
    "Verif.C01.quo_by_zero_panics",
    "Verif.C01.rem_by_zero_panics",
    "Verif.C01.shl_large_is_zero",
    "Verif.C01.shift_negative_panics",
]

CORPUS_DIR = os.path.join(vlib.VERIF, "corpus", "C01")


def load_corpus(nvec):
    progs = []
    if os.path.isdir(CORPUS_DIR):
        for fn in sorted(os.listdir(CORPUS_DIR)):
            if fn.endswith(".go"):
                progs.append(program_from_corpus("corpus_" + fn[:-3], open(os.path.join(CORPUS_DIR, fn)).read(), nvec))
    return progs


def replay_obj(pr, ci, go, by_mode, why):
    c = pr.cases[ci]
    return {
        "what": "the IR built by go/ir for this function does not behave like the program compiled by the Go toolchain",
        "explanation": why,
        "program": pr.name, "origin": pr.origin,
        "case": show_case(c), "function": c[0], "param_types": c[1], "result_types": c[2],
        "vector": [[k, v] for (k, v) in c[3]],
        "compiled_program": go, "interpreted_ir": by_mode,
        "format": "<observer calls in order>|<RET results / PANIC class>|<final globals>",
        "global_inits": [list(g) for g in pr.global_inits], "resets": [list(g) for g in pr.resets], "modes": pr.modes,
        "how_to_replay": "./check C01 --replay <this file>   (rebuilds the source below with `go build`, dumps the IR of the "
                         "current tree with harness/cmd/c01dump in the modes N,L,ND,LD and runs lean/.lake/build/bin/c01driver on it)",
        "source": pr.src,
    }


def program_from_replay(obj):
    vec = [tuple(x) for x in obj["vector"]]
    case = (obj["function"], obj["param_types"], obj["result_types"], vec)
    pr = Program(obj["program"], obj["source"], [tuple(g) for g in obj["global_inits"]],
                 [(obj["function"], obj["param_types"], obj["result_types"])], [case], obj.get("origin", {}))
    pr.resets = [tuple(g) for g in obj.get("resets", [])]
    pr.modes = obj.get("modes", list(MODES))
    return pr


def run(ctx):
    import json
    import time
    lean_ok, lean_broke = vlib.std_lean_phase(ctx, MODULES, THEOREMS)
    if not lean_ok and "lake_build_failed" in lean_broke and not os.path.exists(vlib.driver_path("C01")):
        raise vlib.HarnessError("c01driver does not build: %s" % lean_broke)
    dumpbin = vlib.build_harness(ctx, "c01dump")
    known = vlib.load_known_findings("C01")

    if ctx.replay:
        progs = [program_from_replay(json.load(open(ctx.replay)))]
        corpus, gen = progs, []
    else:
        # count-based limits only (the machine is shared): quick = corpus on 4 vectors + 2 generated
        # programs (48 entry functions) on 5 vectors
        nvec = 5 if ctx.quick else 8
        corpus = load_corpus(4 if ctx.quick else 8)
        nprog = 2 if ctx.quick else 60
        rng = vlib.SplitMix(ctx.seed)
        gen = [program_from_seed("gen%d" % i, rng.fork("prog%d" % i).s, nvec) for i in range(nprog)]
    t0 = time.time()
    results = stage_a(ctx, dumpbin, corpus + gen, "run", workers=6, batch=40)
    t_a = time.time() - t0

    # ---- classify
    counts = {"agree": 0, "skip": 0, "fuel": 0, "diff": 0}
    skip_reasons = {}
    nontrivial = {}
    kinds = {}
    fn_total = 0
    samples = []
    ndiff_reported = 0
    for r in results:
        pr = r["prog"]
        stL, stN = r["stats"].get("L", {}), r["stats"].get("N", {})
        ran = set(c[0] for c in pr.cases)
        for name, s in stL.items():
            fn_total += 1
            for k in s["kinds"]:
                kinds[k] = kinds.get(k, 0) + 1
            n = stN.get(name)
            newphis = s["phis"] - (n["phis"] if n else 0)
            if newphis > 0 or s["split"] > 0 or s["recover"]:
                import hashlib
                h = hashlib.sha256(" ".join(s["shape"]).encode()).hexdigest()[:16]
                nontrivial[h] = name
        diffs_here = {}
        for ci, (st, go, by_mode) in enumerate(r["cases"]):
            counts[st] += 1
            if st == "skip":
                for m, lo in by_mode.items():
                    if "|SKIP " in lo:
                        w = lo.split("|")[1]
                        skip_reasons[w] = skip_reasons.get(w, 0) + 1
            if st == "diff":
                diffs_here.setdefault(pr.cases[ci][0], []).append(ci)
            elif len(samples) < 4 and ci % 37 == 5:
                samples.append({"program": pr.name, "case": show_case(pr.cases[ci]), "compiled": go, "ir_modes_agreeing": sorted(by_mode)})
        for fname, cis in sorted(diffs_here.items()):
            ci = cis[0]
            st, go, by_mode = r["cases"][ci]
            why = explain_diff(go, by_mode)
            obj = replay_obj(pr, ci, go, by_mode, why)
            obj["other_failing_cases_of_this_function"] = [show_case(pr.cases[i]) for i in cis[1:6]]
            key = finding_key(pr, fname, obj)
            if key and key in known:
                ctx.known_finding("key=%s %s %s" % (key, pr.name, show_case(pr.cases[ci])))
                continue
            ndiff_reported += 1
            if ndiff_reported <= 12:
                ctx.violation("stageA_%s_%s.json" % (pr.name, fname), obj,
                              text="C01: %s %s: compiled %r, IR %s" % (pr.name, show_case(pr.cases[ci]), go[-160:],
                                                                       {m: v[-160:] for m, v in by_mode.items() if v != go}) + "\n" + why)

    # ---- stage B: the proved validator on every dumped function
    lift_counts = {}
    lift_bad = []
    lift_cells = 0
    lift_phis = 0
    lift_split = 0
    for r in results:
        for l in r["lift"]:
            a = l["answer"]
            if a is None:
                k = l["status"]
            elif a == "lift ok":
                k = "validated"
                lift_cells += l["info"]["cells"]
                lift_phis += l["info"]["new_phis"]
                lift_split += l["info"].get("split", 0)
            elif l["info"].get("split", 0) > 0:
                # the shadow-cell certificate for a partially escaping Alloc could not be established:
                # not validated (differential execution still covers the function), not an alarm
                k = "skip-split-unvalidated"
            else:
                k = "rejected"
            lift_counts[k] = lift_counts.get(k, 0) + 1
            if k in ("rejected", "infer-fail"):
                lift_bad.append((r, l))
    if lift_bad:
        # a function whose lifted form the validator cannot relate to its naive form.  Stage A has
        # already run every entry function in both forms; look for a failing input with more vectors.
        by_prog = {}
        for (r, l) in lift_bad:
            by_prog.setdefault(r["prog"].name, (r, []))[1].append(l)
        for pname, (r, ls) in sorted(by_prog.items()):
            pr = r["prog"]
            has_diff = any(st == "diff" for (st, _, _) in r["cases"])
            found = has_diff
            if not has_diff and not ctx.replay:
                more = search_program(ctx, dumpbin, pr, 40 if ctx.quick else 120)
                for r2 in more:
                    for ci, (st, go, by_mode) in enumerate(r2["cases"]):
                        if st == "diff" and not found:
                            found = True
                            obj = replay_obj(r2["prog"], ci, go, by_mode, explain_diff(go, by_mode))
                            obj["validator"] = [{k: v for k, v in l.items()} for l in ls[:8]]
                            ctx.violation("stageB_%s_%s.json" % (pname, r2["prog"].cases[ci][0]), obj,
                                          text="C01: lift validator rejects %s of %s and a failing input exists: %s" % (
                                              ls[0]["function"], pname, show_case(r2["prog"].cases[ci])))
            if not found:
                l = ls[0]
                ctx.violation("stageB_%s_%s.json" % (pname, l["function"].replace("/", "_").replace("$", "_").replace("*", "_")), {
                    "what": "the proved lift validator (Core.liftCheck, theorem lift_validator_sound_partial) does not accept the lifted "
                            "form of this function as equivalent to its naive form, and no input was found on which they differ",
                    "rejected": [{k: v for k, v in x.items()} for x in ls[:12]],
                    "program": pr.name, "origin": pr.origin, "global_inits": [list(g) for g in pr.global_inits],
                    "correspondence": "stage B: c01dump (N,L,ND,LD) -> Abstract.toCore -> Core.liftCheck",
                    "how_to_replay": "write `source` to prog.go, add the stub of checks/c01.py, run harness/cmd/c01dump -modes N,L,ND,LD and feed "
                                     "the dump plus the LIFT line (checks/c01.py: lift_jobs) to lean/.lake/build/bin/c01driver",
                    "source": pr.src,
                }, nofail=True, text="C01: lift validator: %s %s: %s" % (pname, l["function"], l["answer"] or l["info"]))

    total = sum(counts.values())
    nlift = sum(lift_counts.values())
    ctx.coverage.update({
        "programs": len(results),
        "functions_dumped_per_mode": fn_total,
        "evaluations": total * len(MODES) + nlift,
        "cases": total,
        "case_status": counts,
        "skip_reasons": dict(sorted(skip_reasons.items(), key=lambda kv: -kv[1])[:12]),
        "disagreements_checked": counts["diff"] + lift_counts.get("rejected", 0) + lift_counts.get("infer-fail", 0),
        "lift_validator": dict(sorted(lift_counts.items())),
        "lift_validator_note": "pairs (naive, lifted) x {debug off, on}; validated = Core.liftCheck accepted (then equal behaviour for all inputs by "
                               "lift_validator_sound_partial); skip-indirect-alloc / skip-split-unvalidated = an Alloc that was lifted only after an "
                               "earlier round of lift removed its escaping use: outside the validated fragment (covered by differential "
                               "execution only); skip-external = no body",
        "lift_validated_private_cells": lift_cells,
        "lift_validated_new_phis": lift_phis,
        "lift_validated_split_allocs": lift_split,
        "distinct_nontrivial": len(nontrivial),
        "rule": "seeded generator of type-correct Go programs (24 entry functions + 6 helpers each) plus the hand-written corpus; "
                "every entry function is run on its input vectors compiled by the Go toolchain and interpreted from the IR dumps of "
                "the modes N, L, ND, LD; every dumped function also goes through the lift validator; non-trivial = function whose lifted "
                "form has a new phi, a split alloc or a recover block; distinct = by the sequence of (instruction kind, block) of its lifted dump",
        "instruction_kinds_seen": dict(sorted(kinds.items())),
        "samples": samples,
        "stage_a_wall_s": round(t_a, 1),
        "cpu_phase_s(summed over workers)": {k: round(v, 1) for k, v in TIMES.items()},
    })
    ctx.assumptions += [
        "the Go toolchain (go1.26 gc) is the reference for source semantics; where the spec leaves evaluation order open the generator avoids the construct",
        "lean/Verif/C01/Interp.lean (reference interpreter = 'documented meaning of each instruction') is compiled Lean, validated by this differential run, not proved",
        "harness/cmd/c01dump + Parse.lean (dump of the exported go/ir API)",
    ]
    if not lean_ok and not ctx.violations:
        ctx.violation("lean.json", {"what": "the Lean side of C01 no longer builds / audits", "lean": lean_broke}, nofail=True)
    return vlib.finish(ctx, "translation_validation")


def search_program(ctx, dumpbin, pr, nvec):
    """violation search for one program: every entry function on `nvec` fresh input vectors"""
    vg = PGen.__new__(PGen)
    vg.rng = vlib.SplitMix(ctx.seed).fork("search/" + pr.name)
    cases = []
    for (fname, pt, rt) in pr.entries:
        for vec in PGen.vectors(vg, pt, nvec):
            cases.append((fname, pt, rt, vec))
    p2 = Program(pr.name + "_search", pr.src, pr.global_inits, pr.entries, cases, pr.origin)
    return stage_a(ctx, dumpbin, [p2], "search_" + pr.name, workers=2, batch=1)


def finding_key(pr, fname, obj):
    return None


META = {
    "level": "translation_validation",
    "technique": "Lean 4: reference interpreter of dumped go/ir + proved lift validator (naive vs lifted form of every built function); "
                 "differential execution against the Go toolchain on generated and corpus programs",
    "text": "Per produced function (translation validation), not for the 3.6 kLoC builder as such. "
            "(b) lifted == naive: the real builder's IR of every function of every explored program is dumped in naive and lifted form "
            "(x debug refs off/on) through the exported go/ir API and abstracted into a core calculus (non-escaping Allocs = private cells, "
            "everything else opaque operations); the Lean decision procedure Core.liftCheck checks a register relation + per-block "
            "certificate (both inferred by untrusted Python), and the kernel-checked theorem lift_validator_sound_partial says that an "
            "accepted pair has equal results, panic outcome and final world for ALL inputs, worlds, block budgets and ALL meanings of "
            "the non-lifted instructions; program_lift_sound_partial closes this under calls of any depth. Allocs that escape on some paths "
            "only (lift.go's split allocs) are validated through a shadow-cell abstraction whose sync points are checked by a typestate analysis. "
            "`_partial`: the abstraction function (Abstract.toCore) is trusted, and functions in which an Alloc was lifted only after an earlier "
            "round of lift removed its escaping use (3-4 % of the generated functions) are outside the validated fragment and reported as skip-*. "
            "(a) naive/lifted IR == compiled program: EXPLORED, not proved - every entry function of seeded type-correct programs "
            "(ints of all widths, bools, strings, arrays/slices, structs, pointers incl. address-taken locals escaping on some paths, closures, "
            "methods, interfaces/type switches, if/for/range over int, slice, string and func/switch/fallthrough/goto/labelled break+continue, "
            "defer/recover with named results, multi-value returns) and of a hand-written corpus (generics in the InstantiateGenerics modes, "
            "method values/expressions, embedding, conversions, composite literals, evaluation order, ...) is run on input vectors both compiled by "
            "the Go toolchain and interpreted from the four dumps by the Lean reference interpreter (instruction semantics = the doc comments of "
            "go/ir/ssa.go); results, panic class, order of observer calls and final globals must agree. Arithmetic of the interpreter "
            "(two's complement wrap-around, division/shift panics) is proved to be Go's. CFG simplification is only covered by (a).",
    "note": "Trusted: Lean kernel (axioms propext/Classical.choice/Quot.sound), compiled c01driver (interpreter + validator evaluation), "
            "Abstract.toCore (dump -> core calculus), harness/cmd/c01dump + Parse.lean, checks/c01.py, the Go toolchain as reference semantics. "
            "The quantifier over programs is sampled (generator + corpus), the quantifier over inputs is proved for (b) on validated functions "
            "and sampled for (a). Generic bodies are executable only with ir.InstantiateGenerics; maps, channels, select, goroutines, floats are "
            "outside the executable subset (SKIP, counted).",
    "design_ref": "DESIGN.md section 5, C01",
}
