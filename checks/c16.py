"""C16 — problems point at real locations; fixes apply cleanly and keep behaviour.

Lean (lean/Verif/C16): Pos (token.File line table, position_valid), Short (shortRange /
getRange case table), Edits (apply a set of edits, order independence, length formula),
Rewrite (effectful expression semantics + first batch of rewrite rules).
Tie X: harness/cmd/c16lint drives the real lintcmd/runner in-process with every analyzer
over the corpus; every runner.Diagnostic and every suggested fix is validated by the
oracle (the statement itself, in this file and with go/parser + go/types in the harness)
and by the Lean model driver.  See notes/C16.md.
"""
import base64
import json
import os
import re
import shutil
import subprocess
import sys
import time
from concurrent.futures import ThreadPoolExecutor

import vlib

sys.path.insert(0, os.path.dirname(os.path.abspath(__file__)))

MODULES = ["Verif.C16.Theorems", "Verif.C16.ControlTheorems"]
THEOREMS = [
    # (i) positions
    "Verif.C16.fileOf_wf",
    "Verif.C16.position_valid",
    "Verif.C16.position_roundtrip",
    "Verif.C16.end_not_before_start",
    # (ii) short ranges
    "Verif.C16.shortRange_within",
    "Verif.C16.getRange_within",
    "Verif.C16.invB_iff",
    # (iii) applying the edits of a fix
    "Verif.C16.apply_wellformed",
    "Verif.C16.applyGo_perm",
    "Verif.C16.apply_sorted_eq_spec",
    "Verif.C16.apply_length",
    "Verif.C16.apply_any_order",
    "Verif.C16.applySeq_order_matters",
    # (iv) behaviour of the rewrite rules
    "Verif.C16.Rw.ty_sound",
    "Verif.C16.Rw.rewrite_preserves",
    "Verif.C16.Rw.s1002_preserves",
    "Verif.C16.Rw.s1002_preserves_left",
    "Verif.C16.Rw.qf1001_preserves",
    "Verif.C16.Rw.qf1006_condition",
    "Verif.C16.Rw.qf1007_preserves",
    "Verif.C16.Rw.s1003_table_correct",
    "Verif.C16.Rw.s1003_preserves",
    "Verif.C16.Rw.s1004_preserves",
    "Verif.C16.Rw.qf1003_preserves",
    # (v) control flow of the statement rewrites (round 2)
    "Verif.C16.Ctl.qf1006_loop_preserves",
    "Verif.C16.Ctl.qf1006_outer_label_differs",
    "Verif.C16.Ctl.qf1003_bodies_preserve",
    "Verif.C16.Ctl.qf1003_else_break_differs",
    "Verif.C16.Ctl.qf1003_seen_iff_nodup",
    "Verif.C16.Ctl.qf1003_per_branch_seen_insufficient",
]

VARIANTS = ["base", "crlf", "parens", "breaks", "rename"]
CHECK_ROOTS = ["simple", "staticcheck", "stylecheck", "quickfix"]


# --------------------------------------------------------------------------- corpus
def list_units(repo):
    """(name, srcdir, goversion) for every <check>/testdata/go1.N directory, plus
    GOPATH-style testdata/src/example.com trees."""
    units = []
    for root in CHECK_ROOTS:
        rd = os.path.join(repo, root)
        if not os.path.isdir(rd):
            continue
        for chk in sorted(os.listdir(rd)):
            td = os.path.join(rd, chk, "testdata")
            if not os.path.isdir(td):
                continue
            for v in sorted(os.listdir(td)):
                if re.fullmatch(r"go1\.\d+", v) and os.path.isdir(os.path.join(td, v)):
                    units.append(("%s_%s" % (chk, v), os.path.join(td, v), v[2:]))
    for extra in ["unused/testdata/src/example.com", "analysis/facts/deprecated/testdata/src/example.com",
                  "analysis/facts/purity/testdata/src/example.com", "analysis/facts/nilness/testdata/src/example.com"]:
        p = os.path.join(repo, extra)
        if os.path.isdir(p):
            units.append((extra.split("/testdata")[0].replace("/", "_"), p, "1.21"))
    return units


def plan_bundles(units):
    """Group units into modules (one `go list` per module instead of one per unit): a
    bundle is (goversion, k); the package directories of a unit are placed at the module
    root (package paths stay example.com/<pkg> as in the repository's own tests); a unit
    with a vendor directory or a clashing directory name opens a further bundle."""
    bundles = {}   # (gover, k) -> {"units": [...], "names": set()}
    for name, src, gover in units:
        entries = sorted(os.listdir(src))
        solo = "vendor" in entries
        k = 0
        while True:
            key = (gover, k)
            b = bundles.setdefault(key, {"units": [], "names": set(), "solo": False})
            if b["solo"] or (solo and b["units"]) or (b["names"] & set(entries)):
                k += 1
                continue
            b["units"].append((name, src))
            b["names"] |= set(entries)
            b["solo"] = solo
            break
    return bundles


def materialise(ctx, variantbin, variant, bundles, seed, stats):
    """Copy the bundles of one variant into the scratch dir; returns job dicts."""
    jobs = []
    lines = []
    for (gover, k), b in sorted(bundles.items()):
        d = ctx.path("corpus", variant, "go%s_%d" % (gover, k), "go.mod")
        root = os.path.dirname(d)
        with open(d, "w") as f:
            f.write("module example.com\ngo %s\n" % gover)
        for name, src in b["units"]:
            for dp, dns, fns in os.walk(src):
                rel = os.path.relpath(dp, src)
                for fn in fns:
                    if fn.endswith(".golden"):
                        continue
                    s = os.path.join(dp, fn)
                    t = os.path.normpath(os.path.join(root, rel, fn))
                    os.makedirs(os.path.dirname(t), exist_ok=True)
                    if fn.endswith(".go") and variant != "base" and "/vendor/" not in s:
                        lines.append("%s\t%d\t%s\t%s" % (variant, seed, s, t))
                    else:
                        shutil.copyfile(s, t)
        env = ["GOFLAGS=-mod=vendor"] if b["solo"] else ["GOFLAGS=-mod=mod"]
        jobs.append({"id": "%s/go%s_%d" % (variant, gover, k), "dir": root, "patterns": ["./..."], "tests": True,
                     "env": env + ["GOPROXY=off", "GO111MODULE="], "typecheck": True, "variant": variant})
    if lines:
        rc, so, se = vlib.run([variantbin], input="\n".join(lines) + "\n", env=vlib.go_env(), timeout=600)
        if rc != 0:
            raise vlib.HarnessError("c16variant failed: " + se[-2000:])
        for l in so.splitlines():
            w = l.split()
            stats[variant + ":" + (w[0] if w[0] != "same" else " ".join(w[:2]))] = stats.get(variant + ":" + (w[0] if w[0] != "same" else " ".join(w[:2])), 0) + 1
    return jobs


def run_lint_jobs(ctx, lintbin, jobs, nproc):
    """Distribute jobs over nproc c16lint processes sharing one cache; returns id->result."""
    cache = os.environ.get("C16_DEVCACHE") or os.path.dirname(ctx.path("lintcache", "x"))
    # biggest first, round robin
    order = sorted(jobs, key=lambda j: -j.get("weight", 1))
    chunks = [[] for _ in range(nproc)]
    for i, j in enumerate(order):
        chunks[i % nproc].append(j)

    def one(chunk):
        if not chunk:
            return []
        inp = "".join(json.dumps({k: v for k, v in j.items() if k in ("id", "dir", "patterns", "tests", "env", "typecheck", "only")}) + "\n" for j in chunk)
        env = vlib.go_env({"GOMAXPROCS": str(max(4, vlib.NCPU // 2))})
        p = subprocess.run([lintbin, "-cache", cache], input=inp, stdout=subprocess.PIPE, stderr=subprocess.PIPE,
                           text=True, env=env, timeout=3000)
        if p.returncode != 0:
            raise vlib.HarnessError("c16lint failed rc=%d: %s" % (p.returncode, p.stderr[-3000:]))
        return [json.loads(l) for l in p.stdout.splitlines() if l.strip()]

    res = {}
    with ThreadPoolExecutor(max_workers=nproc) as ex:
        for outs in ex.map(one, chunks):
            for o in outs:
                res[o["id"]] = o
    return res


# --------------------------------------------------------------------------- oracle (i)-(iii)
class FileInfo:
    __slots__ = ("size", "starts", "has_line_directive", "data")

    def __init__(self, path):
        with open(path, "rb") as f:
            data = f.read()
        self.data = data
        self.size = len(data)
        st = [0]
        i = data.find(b"\n")
        while i >= 0:
            if i + 1 < len(data):
                st.append(i + 1)
            i = data.find(b"\n", i + 1)
        # go/token: a line start is recorded after every '\n' that is not the last byte
        # (File.AddLine ignores offsets >= size); the last line extends to the end of file
        self.starts = st
        self.has_line_directive = b"//line " in data or b"/*line " in data


def line_len(fi, line):
    """Length of 1-based line `line` without its terminating newline."""
    s = fi.starts[line - 1]
    e = fi.starts[line] - 1 if line < len(fi.starts) else fi.size
    return e - s


def check_position(fi, p):
    """The statement: line and column exist in the file.  Returns '' or a reason."""
    if p["line"] < 1 or p["line"] > len(fi.starts):
        return "line %d not in file (has %d lines)" % (p["line"], len(fi.starts))
    ll = line_len(fi, p["line"])
    if p["col"] < 1 or p["col"] > ll + 1:
        return "column %d not in line %d (length %d)" % (p["col"], p["line"], ll)
    if p["off"] < 0 or p["off"] > fi.size:
        return "offset %d outside file of size %d" % (p["off"], fi.size)
    if fi.starts[p["line"] - 1] + p["col"] - 1 != p["off"]:
        return "offset %d is not line %d column %d" % (p["off"], p["line"], p["col"])
    return ""


def rel_to_corpus(ctx, path):
    c = os.path.join(ctx.scratch, "corpus") + os.sep
    return path[len(c):] if path.startswith(c) else path


class Failure:
    def __init__(self, kind, cat, job, diag, fix=None, why="", fixidx=None):
        self.kind = kind          # pos | end-file | end-before | edit-bounds | edit-overlap | edit-files | fix-parse | fix-types
        self.cat = cat
        self.job = job
        self.diag = diag
        self.fix = fix
        self.why = why
        self.fixidx = fixidx

    def new_texts(self):
        if not self.fix:
            return []
        return [base64.b64decode(e["new"] or "").decode("utf-8", "replace") for e in self.fix["edits"]]


def validate_job(ctx, job, out, files, acc):
    """Evaluate clauses (i) and (iii) of the statement on every diagnostic of one c16lint
    result.  acc: dict of counters / lists."""
    pkgfiles = {}
    pkglinedir = {}
    for p in out["pkgs"]:
        fs = set(p["files"]) | set(p["compiled"])
        pkgfiles[p["id"]] = fs
        ld = False
        for f in fs:
            fi = get_file(files, f)
            if fi is not None and fi.has_line_directive:
                ld = True
        pkglinedir[p["id"]] = ld
        acc["packages"] += 1
        if p["failed"]:
            acc["packages_failed"] += 1
            acc["failed_pkgs"].append((job["id"], p["id"], (p.get("errors") or [""])[0][:200]))
    fails = []
    for d in out["diags"]:
        acc["diagnostics"] += 1
        acc["by_cat"][d["cat"]] = acc["by_cat"].get(d["cat"], 0) + 1
        pos, end = d["pos"], d["end"]
        fs = pkgfiles.get(d["pkg"], set())
        exempt = pkglinedir.get(d["pkg"], False)
        has_end = end["line"] != 0 or end["file"] != ""
        nontrivial = has_end or bool(d.get("fixes"))
        if nontrivial:
            acc["nontrivial"].add((rel_to_corpus(ctx, pos["file"]), pos["off"], end["off"], d["cat"], d["msg"]))
        # ---- (i) positions
        if pos["file"] not in fs:
            if exempt:
                acc["exempt_line_directive"] += 1
            else:
                fails.append(Failure("pos", d["cat"], job, d, why="file %r is not a file of package %s" % (pos["file"], d["pkg"])))
            continue
        fi = get_file(files, pos["file"])
        if fi is None:
            fails.append(Failure("pos", d["cat"], job, d, why="file %r does not exist" % pos["file"]))
            continue
        if fi.has_line_directive:
            acc["exempt_line_directive"] += 1
            continue
        why = check_position(fi, pos)
        if why and exempt:
            # a //line directive in another file of the package may map positions into this
            # file (adjusted line/column, raw offset): "remapped positions aside"
            acc["exempt_line_directive"] += 1
            continue
        if why:
            fails.append(Failure("pos", d["cat"], job, d, why="start: " + why))
        acc["pos_lines"].append(("pos", pos["file"], pos["off"], pos["line"], pos["col"]))
        if has_end:
            acc["with_end"] += 1
            if end["file"] != pos["file"]:
                fails.append(Failure("end-file", d["cat"], job, d, why="end is in %r, start in %r" % (end["file"], pos["file"])))
            else:
                why = check_position(fi, end)
                if why:
                    fails.append(Failure("pos", d["cat"], job, d, why="end: " + why))
                if end["off"] < pos["off"] or (end["line"], end["col"]) < (pos["line"], pos["col"]):
                    fails.append(Failure("end-before", d["cat"], job, d, why="end %d:%d precedes start %d:%d" % (end["line"], end["col"], pos["line"], pos["col"])))
                acc["pos_lines"].append(("range", pos["file"], pos["off"], end["off"], end["line"], end["col"]))
        # ---- (iii) fixes
        for k, fx in enumerate(d.get("fixes") or []):
            acc["fixes"] += 1
            acc["fix_by_cat"][d["cat"]] = acc["fix_by_cat"].get(d["cat"], 0) + 1
            edits = fx["edits"] or []
            if not edits:
                acc["fixes_without_edits"] += 1
                continue
            efiles = set(e["pos"]["file"] for e in edits) | set(e["end"]["file"] for e in edits)
            if len(efiles) != 1:
                fails.append(Failure("edit-files", d["cat"], job, d, fx, "edits touch %s" % sorted(efiles), k))
                continue
            ef = efiles.pop()
            efi = get_file(files, ef)
            if ef not in fs or efi is None:
                fails.append(Failure("edit-files", d["cat"], job, d, fx, "edited file %r is not a file of the package" % ef, k))
                continue
            bad = False
            spans = []
            for e in edits:
                s, t = e["pos"]["off"], e["end"]["off"]
                if e["end"]["line"] == 0:      # TextEdit without End: insertion at Pos
                    t = s
                if not (0 <= s <= t <= efi.size):
                    fails.append(Failure("edit-bounds", d["cat"], job, d, fx, "edit [%d,%d) outside file of size %d" % (s, t, efi.size), k))
                    bad = True
                spans.append((s, t, base64.b64decode(e["new"] or "")))
            if bad:
                continue
            ss = sorted(spans)
            for a, b in zip(ss, ss[1:]):
                if b[0] < a[1]:
                    fails.append(Failure("edit-overlap", d["cat"], job, d, fx, "edits [%d,%d) and [%d,%d) overlap" % (a[0], a[1], b[0], b[1]), k))
                    bad = True
                    break
            o = fx.get("oracle")
            acc["fix_records"].append({"file": ef, "cat": d["cat"], "spans": spans, "oracle_wf": oracle_wf(efi.size, spans),
                                       "newsize": (o or {}).get("newsize"), "newhash": (o or {}).get("newhash"),
                                       "realdiff": (o or {}).get("realdiff")})
            if bad:
                continue
            if not o:
                continue
            st = o["status"]
            acc["oracle_status"][st.split(":")[0] if st.startswith("illformed") else st] = acc["oracle_status"].get(st.split(":")[0] if st.startswith("illformed") else st, 0) + 1
            if st == "ok":
                if o.get("dropped"):
                    acc["imports_dropped"] += 1
                if o.get("added"):
                    acc["imports_added"] += 1
            elif st == "parse":
                fails.append(Failure("fix-parse", d["cat"], job, d, fx, o.get("parse_err", ""), k))
            elif st == "types":
                fails.append(Failure("fix-types", d["cat"], job, d, fx, "; ".join(o.get("errors") or []), k))
            elif st.startswith("illformed"):
                fails.append(Failure("edit-bounds", d["cat"], job, d, fx, st, k))
    return fails


def get_file(files, path):
    if path not in files:
        try:
            files[path] = FileInfo(path)
        except OSError:
            files[path] = None
    return files[path]


def snippet(files, d, ctxlines=1):
    fi = get_file(files, d["pos"]["file"])
    if fi is None or d["pos"]["line"] < 1:
        return ""
    l0 = max(1, d["pos"]["line"] - ctxlines)
    l1 = d["end"]["line"] if d["end"]["line"] >= d["pos"]["line"] else d["pos"]["line"]
    l1 = min(len(fi.starts), l1 + ctxlines, l0 + 12)
    s = fi.starts[l0 - 1]
    e = fi.starts[l1] if l1 < len(fi.starts) else fi.size
    return fi.data[s:e].decode("utf-8", "replace")


def flagged_text(files, d):
    fi = get_file(files, d["pos"]["file"])
    if fi is None:
        return ""
    e = d["end"]["off"] if d["end"]["line"] else d["pos"]["off"]
    return fi.data[d["pos"]["off"]:max(e, d["pos"]["off"])].decode("utf-8", "replace")


def new_acc():
    return {"packages": 0, "packages_failed": 0, "failed_pkgs": [], "diagnostics": 0, "by_cat": {}, "nontrivial": set(),
            "exempt_line_directive": 0, "with_end": 0, "fixes": 0, "fix_by_cat": {}, "fixes_without_edits": 0,
            "oracle_status": {}, "imports_dropped": 0, "imports_added": 0, "pos_lines": [], "fix_records": []}


def explore(ctx):
    """development helper: run the corpus and print the failure landscape"""
    t0 = time.time()
    lintbin = os.environ.get("C16_LINTBIN") or vlib.build_harness(ctx, "c16lint")
    varbin = os.environ.get("C16_VARBIN") or vlib.build_harness(ctx, "c16variant")
    print("built", time.time() - t0)
    units = list_units(vlib.REPO)
    bundles = plan_bundles(units)
    stats = {}
    jobs = []
    variants = os.environ.get("C16_VARIANTS", "base").split(",")
    for v in variants:
        jobs += materialise(ctx, varbin, v, bundles, ctx.seed, stats)
    for j in jobs:
        j["weight"] = sum(len(fs) for _, _, fs in os.walk(j["dir"]))
    print("jobs", len(jobs), stats, time.time() - t0)
    res = run_lint_jobs(ctx, lintbin, jobs, int(os.environ.get("C16_NPROC", "4")))
    print("linted", time.time() - t0)
    files = {}
    acc = new_acc()
    allf = []
    for j in jobs:
        o = res[j["id"]]
        if o.get("error"):
            print("JOB ERROR", j["id"], o["error"][:500])
            continue
        allf += validate_job(ctx, j, o, files, acc)
    print({k: (v if not isinstance(v, (list, set)) else len(v)) for k, v in acc.items() if k not in ("by_cat", "fix_by_cat")})
    print("fix_by_cat", sorted(acc["fix_by_cat"].items()))
    for fp in acc["failed_pkgs"][:40]:
        print("FAILED PKG", fp)
    seen = set()
    for f in allf:
        key = (f.kind, f.cat, rel_to_corpus(ctx, f.diag["pos"]["file"]), f.diag["pos"]["off"], f.fixidx)
        if key in seen:
            continue
        seen.add(key)
        print("----", f.kind, f.cat, f.job["id"], rel_to_corpus(ctx, f.diag["pos"]["file"]), "%d:%d" % (f.diag["pos"]["line"], f.diag["pos"]["col"]))
        print("   why:", f.why[:300])
        print("   flagged:", repr(flagged_text(files, f.diag)[:200]))
        print("   new:", [t[:200] for t in f.new_texts()])
    print("failures", len(seen), time.time() - t0)


# --------------------------------------------------------------------------- model ties
def fnv64(b):
    h = 14695981039346656037
    for c in b:
        h = ((h ^ c) * 1099511628211) & 0xFFFFFFFFFFFFFFFF
    return h


def hexb(b):
    return b.hex() if b else "-"


def tie_positions(ctx, files, acc, maxfiles=None):
    """Lean `position (fileOf bytes) off` against the line/column the real runner reported
    (go/token through report.DisplayPosition) for every reported offset."""
    byfile = {}
    for rec in acc["pos_lines"]:
        if rec[0] == "pos":
            _, f, off, line, col = rec
            byfile.setdefault(f, {})[off] = (line, col)
        else:
            _, f, _s, eoff, line, col = rec
            byfile.setdefault(f, {})[eoff] = (line, col)
    names = sorted(byfile)
    if maxfiles and len(names) > maxfiles:
        names = vlib.SplitMix(ctx.seed).fork("posfiles").shuffle(names)[:maxfiles]
    lines, meta = [], []
    for f in names:
        fi = get_file(files, f)
        if fi is None or fi.has_line_directive:
            continue
        offs = sorted(byfile[f])
        lines.append("pos %s %d %s" % (hexb(fi.data), len(offs), " ".join(map(str, offs))))
        meta.append((f, offs))
    out = vlib.run_model(ctx, "C16", lines) if lines else []
    diffs, n = [], 0
    for (f, offs), o in zip(meta, out):
        if o == "bad-op":
            raise vlib.HarnessError("model rejected pos line for " + f)
        w = o.split()
        fi = get_file(files, f)
        if int(w[1]) != fi.size:
            diffs.append({"file": rel_to_corpus(ctx, f), "what": "size", "model": w[1], "impl": fi.size})
        for off, lc in zip(offs, w[2:]):
            n += 1
            impl = "%d:%d" % byfile[f][off]
            if lc != impl:
                diffs.append({"file": rel_to_corpus(ctx, f), "offset": off, "model": lc, "impl": impl})
    return n, diffs


def tie_edits(ctx, files, acc):
    """Lean applyGo / applySorted∘sortEdits / applySeq against testutil.applyEdits (run by
    c16lint on the real fixes) and the model's well-formedness verdict against the oracle's."""
    byfile = {}
    for rec in acc["fix_records"]:
        byfile.setdefault(rec["file"], []).append(rec)
    lines, meta = [], []
    for f in sorted(byfile):
        fi = get_file(files, f)
        recs = byfile[f]
        toks = []
        for r in recs:
            toks.append(str(len(r["spans"])))
            for (s_, t_, nw) in r["spans"]:
                toks += [str(s_), str(t_), hexb(nw)]
        lines.append("apply %s %d %s" % (hexb(fi.data), len(recs), " ".join(toks)))
        meta.append(recs)
    out = vlib.run_model(ctx, "C16", lines) if lines else []
    diffs, n, apart = [], 0, 0
    for recs, o in zip(meta, out):
        if o == "bad-op":
            raise vlib.HarnessError("model rejected apply line")
        for r, part in zip(recs, o.split(";")):
            n += 1
            wf, ap, ln, hgo, hspec, hseq = part.split()
            apart += ap == "1"
            d = {}
            if (wf == "1") != r["oracle_wf"]:
                d["wellformed"] = {"model": wf, "oracle": r["oracle_wf"]}
            if r["oracle_wf"]:
                if r["newhash"] not in (None, "") and (str(r["newsize"]) != ln or r["newhash"] != hgo):
                    d["testutil.applyEdits"] = {"impl_len_hash": [r["newsize"], r["newhash"]], "model_applyGo": [ln, hgo]}
                if hgo != hspec:
                    d["spec"] = {"applyGo": hgo, "applySorted": hspec}
                if hseq != "-" and hseq != hspec:
                    d["applySeq"] = {"applySeq": hseq, "applySorted": hspec}
                if r.get("realdiff"):
                    d["harness_splice_vs_testutil"] = True
            if d:
                d.update({"file": rel_to_corpus(ctx, r["file"]), "cat": r["cat"], "spans": [(a, b, len(c)) for a, b, c in r["spans"]]})
                diffs.append(d)
    return n, apart, diffs


def gen_edit_cases(rng, n):
    """random texts with random edit sets: mostly well-formed (touching edits, insertions at
    both ends, deletions), listed in random order."""
    cases = []
    for i in range(n):
        size = rng.below(40) if rng.chance(3, 4) else rng.below(400)
        src = bytes(rng.below(26) + 97 for _ in range(size))
        k = rng.below(7)
        cuts = sorted(rng.below(size + 1) for _ in range(2 * k))
        edits = []
        for j in range(k):
            s_, t_ = cuts[2 * j], cuts[2 * j + 1]
            if rng.chance(1, 5):
                t_ = s_
            nw = bytes(rng.below(26) + 65 for _ in range(rng.below(5) if rng.chance(3, 4) else rng.below(30)))
            edits.append((s_, t_, nw))
        # drop exact duplicates of empty edits at one offset (not well-formed: unordered)
        mode = rng.below(10)
        if mode == 0 and edits:           # make it overlap
            s_, t_, nw = rng.choice(edits)
            edits.append((max(0, s_ - 1), min(size, t_ + 1), b"ZZ"))
        elif mode == 1 and edits:         # out of bounds
            edits.append((size, size + 1 + rng.below(3), b"Q"))
        edits = rng.shuffle(edits)
        cases.append((src, edits))
    return cases


def oracle_wf(size, spans):
    """the statement's clause on a fix: every edit within bounds, no two overlap; two empty
    edits at one offset (unordered insertions) count as overlapping."""
    for (s_, t_, _n) in spans:
        if not (0 <= s_ <= t_ <= size):
            return False
    ss = sorted((a, b) for a, b, _ in spans)
    for a, b in zip(ss, ss[1:]):
        if b[0] < a[1] or (a == b and a[0] == a[1]):
            return False
    return True


def tie_generated_edits(ctx, applybin, n):
    rng = vlib.SplitMix(ctx.seed).fork("edits")
    cases = gen_edit_cases(rng, n)
    lines = []
    for src, edits in cases:
        lines.append("apply %s 1 %d %s" % (hexb(src), len(edits), " ".join("%d %d %s" % (a, b, hexb(c)) for a, b, c in edits)))
    rc, so, se = vlib.run(applybin, input="\n".join(lines) + "\n", env=vlib.go_env(), timeout=600)
    if rc != 0:
        raise vlib.HarnessError("c16apply failed: " + se[-2000:])
    impl = so.splitlines()
    model = vlib.run_model(ctx, "C16", lines)
    if len(impl) != len(lines):
        raise vlib.HarnessError("c16apply: %d outputs for %d inputs" % (len(impl), len(lines)))
    diffs, hist = [], {"wf": 0, "not_wf": 0, "apart": 0, "touching": 0}
    for (src, edits), line, io, mo in zip(cases, lines, impl, model):
        if mo == "bad-op" or io == "bad-op":
            raise vlib.HarnessError("bad-op on generated edit case: " + line[:200])
        wf, ap, ln, hgo, hspec, hseq = mo.split()
        ow = oracle_wf(len(src), edits)
        hist["wf" if ow else "not_wf"] += 1
        hist["apart"] += ap == "1"
        ss = sorted((a, b) for a, b, _ in edits)
        hist["touching"] += any(x[1] == y[0] for x, y in zip(ss, ss[1:]))
        d = {}
        if (wf == "1") != ow:
            d["wellformed"] = {"model": wf, "oracle": ow}
        if ow:
            if io != "%s %s" % (ln, hgo):
                d["testutil.applyEdits"] = {"impl": io, "model_applyGo": "%s %s" % (ln, hgo)}
            if hgo != hspec:
                d["spec"] = {"applyGo": hgo, "applySorted": hspec}
            if hseq != "-" and hseq != hspec:
                d["applySeq"] = {"applySeq": hseq, "applySorted": hspec}
            exp = bytearray()
            last = 0
            for a, b, c in sorted(edits):
                exp += src[last:a] + c
                last = b
            exp += src[last:]
            if "%d %d" % (len(exp), fnv64(exp)) != io:
                d["oracle_splice"] = {"impl": io, "expected": "%d %d" % (len(exp), fnv64(exp))}
        if d:
            d["input"] = line
            diffs.append(d)
    return len(cases), hist, diffs, lines[:3]


def tie_short(ctx, applybin, gofiles):
    """report.shortRange (real, via go:linkname) against the Lean case table on every
    statement-like node (and every 8th other node) of the given files; the parser
    invariants `Inv` are validated by the model's invB; oracle: pos ≤ end ≤ node end."""
    rc, so, se = vlib.run(applybin, input="".join("shortfile %s\n" % f for f in gofiles), env=vlib.go_env(), timeout=900)
    if rc != 0:
        raise vlib.HarnessError("c16apply shortfile failed: " + se[-2000:])
    recs = []
    fidx = 0
    for l in so.splitlines():
        if l.startswith("end "):
            fidx += 1
            continue
        desc, res = l[len("short "):].split(" = ")
        recs.append((gofiles[fidx], desc, res))
    model = vlib.run_model(ctx, "C16", ["short " + d for _, d, _ in recs]) if recs else []
    diffs, viol, kinds, invfail = [], [], {}, []
    for (f, desc, res), mo in zip(recs, model):
        if mo == "bad-op":
            raise vlib.HarnessError("model rejected node descriptor: " + desc)
        k = desc.split()[0]
        if k == "exprStmt":
            k = "exprStmt/" + desc.split()[1]
        kinds[k] = kinds.get(k, 0) + 1
        inv, mp, me = mo.split()
        p, e = map(int, res.split())
        toks = desc.split()
        nend = int(toks[-1])
        npos = int([t for t in toks if t.isdigit()][0])
        if inv != "1":
            invfail.append({"file": f, "node": desc})
        if (mp, me) != (str(p), str(e)):
            diffs.append({"file": f, "node": desc, "impl": res, "model": "%s %s" % (mp, me)})
        if not (p == npos and p <= e <= nend):
            viol.append({"file": f, "node": desc, "shortRange": res, "why": "short range not within the node (pos %d end %d)" % (npos, nend)})
    return len(recs), kinds, diffs, viol, invfail


def gen_rw_expr(r, ty, d):
    """typed random expression in the prefix encoding of RwDriver.lean (v0-2 bool, v3-5 int; f0: bool->bool, f1: int->int)"""
    if ty == "b":
        k = r.below(12) if d > 0 else r.below(3)
        if k == 0:
            return "v %d" % r.below(3)
        if k == 1:
            return r.choice(["t", "f"])
        if k == 2:
            return "c 0 v %d" % r.below(3)
        if k == 3:
            return "! " + gen_rw_expr(r, "b", d - 1)
        if k == 4 or k == 5:
            return "( " + gen_rw_expr(r, "b", d - 1)
        if k == 6 or k == 7:
            return "&& %s %s" % (gen_rw_expr(r, "b", d - 1), gen_rw_expr(r, "b", d - 1))
        if k == 8 or k == 9:
            return "|| %s %s" % (gen_rw_expr(r, "b", d - 1), gen_rw_expr(r, "b", d - 1))
        if k == 10:
            return "%s %s %s" % (r.choice(["==", "!=", "<", "<=", ">", ">="]), gen_rw_expr(r, "i", d - 1), gen_rw_expr(r, "i", d - 1))
        return "%s %s %s" % (r.choice(["==", "!="]), gen_rw_expr(r, "b", d - 1), gen_rw_expr(r, "b", d - 1))
    k = r.below(8) if d > 0 else r.below(3)
    if k == 0:
        return "v %d" % (3 + r.below(3))
    if k == 1:
        return "n %d" % r.below(5)
    if k == 2:
        return "c 1 v %d" % (3 + r.below(3))
    if k in (3, 4):
        return "+ %s %s" % (gen_rw_expr(r, "i", d - 1), gen_rw_expr(r, "i", d - 1))
    if k == 5:
        return "/ %s %s" % (gen_rw_expr(r, "i", d - 1), gen_rw_expr(r, "i", d - 1))
    return "( " + gen_rw_expr(r, "i", d - 1)


def tie_rewrite(ctx, applybin, n):
    """Lean negDM / simplify against the real astutil.NegateDeMorgan / SimplifyParentheses"""
    rng = vlib.SplitMix(ctx.seed).fork("rw")
    lines = []
    for i in range(n):
        d = 1 + rng.below(5)
        k = rng.below(3)
        if k < 2:
            lines.append("rw negdm %d %s" % (k, gen_rw_expr(rng, "b", d)))
        else:
            lines.append("rw simplify %s" % gen_rw_expr(rng, rng.choice(["b", "b", "i"]), d))
    lines = sorted(set(lines))
    rc, so, se = vlib.run(applybin, input="\n".join(lines) + "\n", env=vlib.go_env(), timeout=600)
    if rc != 0:
        raise vlib.HarnessError("c16apply rw failed: " + se[-2000:])
    impl = so.splitlines()
    model = vlib.run_model(ctx, "C16", lines)
    if len(impl) != len(lines):
        raise vlib.HarnessError("c16apply rw: %d outputs for %d inputs" % (len(impl), len(lines)))
    diffs = [{"input": l, "impl": a, "model": b} for l, a, b in zip(lines, impl, model) if a != b]
    changed = sum(1 for l, a in zip(lines, impl) if a != l.split(" ", 3 if l.startswith("rw negdm") else 2)[-1])
    return len(lines), changed, diffs, lines[:2]


def gen_pos_cases(rng, n):
    cases = []
    for i in range(n):
        size = rng.below(60) if rng.chance(3, 4) else rng.below(600)
        alphabet = [b"a", b"b", b" ", b"\n", b"\n", b"\r\n", b"\t", b"x", b"/", b"*", b"\"", b"`"]
        buf = b"".join(rng.choice(alphabet) for _ in range(size))
        offs = sorted(set([0, len(buf)] + [rng.below(len(buf) + 1) for _ in range(6)]))
        cases.append((buf, offs))
    return cases


def tie_generated_pos(ctx, applybin, n):
    rng = vlib.SplitMix(ctx.seed).fork("pos")
    cases = gen_pos_cases(rng, n)
    lines = ["pos %s %d %s" % (hexb(b), len(o), " ".join(map(str, o))) for b, o in cases]
    rc, so, se = vlib.run(applybin, input="\n".join(lines) + "\n", env=vlib.go_env(), timeout=600)
    if rc != 0:
        raise vlib.HarnessError("c16apply pos failed: " + se[-2000:])
    impl = so.splitlines()
    model = vlib.run_model(ctx, "C16", lines)
    diffs, viol = [], []
    for (buf, offs), line, io, mo in zip(cases, lines, impl, model):
        if io != mo:
            diffs.append({"input": line, "impl(go/scanner+go/token)": io, "model": mo})
        fi = FileInfo.__new__(FileInfo)
        fi.data, fi.size, fi.has_line_directive = buf, len(buf), False
        st = [0]
        j = buf.find(b"\n")
        while j >= 0:
            if j + 1 < len(buf):
                st.append(j + 1)
            j = buf.find(b"\n", j + 1)
        fi.starts = st
        for off, lc in zip(offs, io.split()[2:]):
            l_, c_ = map(int, lc.split(":"))
            why = check_position(fi, {"line": l_, "col": c_, "off": off})
            if why:
                viol.append({"input": line, "offset": off, "reported": lc, "why": why})
    return len(cases), diffs, viol


# --------------------------------------------------------------------------- generated trigger shapes
# Executable functions instantiating the trigger shape of a check with random operands
# (side-effecting calls that log to a trace, operands that may panic, operators of every
# precedence rendered with minimal parentheses, line breaks and comments inside operands).
GEN_SUPPORT = """package main

import (
	"fmt"
	"os"
	"strings"
)

var trace []string

func tb(id int, v bool) bool       { trace = append(trace, fmt.Sprintf("b%d=%v", id, v)); return v }
func ti(id int, v int) int         { trace = append(trace, fmt.Sprintf("i%d=%v", id, v)); return v }
func ts(id int, v string) string   { trace = append(trace, fmt.Sprintf("s%d=%q", id, v)); return v }
func tf(id int, v float64) float64 { trace = append(trace, fmt.Sprintf("f%d=%v", id, v)); return v }
func tbs(id int, v []byte) []byte  { trace = append(trace, fmt.Sprintf("y%d=%q", id, v)); return v }
func pb(id int) bool               { trace = append(trace, fmt.Sprintf("p%d", id)); panic(fmt.Sprintf("pb%d", id)) }

type Str string
type SStr string

func (s SStr) String() string { trace = append(trace, "SStr.String"); return "<" + string(s) + ">" }
type Tick int

func (t Tick) String() string { trace = append(trace, fmt.Sprintf("String(%d)", int(t))); return fmt.Sprintf("T%d", int(t)) }

type Inner struct{ A, B int }
type Inner2 struct{ A, B int }
type Mid struct {
	Inner
	C int
}
type Outer struct {
	Mid
	D int
}

type In struct {
	b0, b1, b2 bool
	i0, i1, i2 int
	f0, f1     float64
	s0, s1     string
	xs         []int
	bs0, bs1   []byte
	o          Outer
}

var inputs = []In{
	{false, false, false, 0, 0, 0, 0, 1, "", "", nil, nil, nil, Outer{}},
	{true, false, true, 1, 2, 3, 2, 0.5, "a", "b", []int{1, 2, 3}, []byte("a"), []byte("b"), Outer{Mid{Inner{1, 2}, 3}, 4}},
	{false, true, false, -1, 1, 0, -3, 2, "ab", "b", []int{0}, []byte("ab"), []byte("ab"), Outer{Mid{Inner{5, 6}, 7}, 8}},
	{true, true, true, 2, 2, 2, 4, 4, "b", "ab", []int{2, 2}, nil, []byte(""), Outer{}},
	{true, true, false, 3, 0, -2, 1.5, -2, "abc", "", []int{3, 1, 2, 0}, []byte("abc"), []byte("c"), Outer{Mid{Inner{0, 1}, 0}, 1}},
	{false, false, true, 0, -1, 5, 0, 0, "", "x", []int{}, []byte("x"), nil, Outer{}},
	{false, true, true, 4, 3, 1, 8, 0.25, "xa", "a", []int{4, 0, 4}, []byte("b"), []byte("a"), Outer{Mid{Inner{9, 9}, 9}, 9}},
	{true, false, false, 1, 1, 2, -1, -1, "a", "a", []int{1}, []byte("a"), []byte("a"), Outer{}},
}

type fn struct {
	name string
	f    func(In) string
}

func main() {
	for _, f := range funcs {
		for k, in := range inputs {
			trace = nil
			out := func() (out string) {
				defer func() {
					if r := recover(); r != nil {
						out = fmt.Sprintf("PANIC(%v)", r)
					}
				}()
				return "ok:" + f.f(in)
			}()
			fmt.Fprintf(os.Stdout, "%s %d %q [%s]\\n", f.name, k, out, strings.Join(trace, " "))
		}
	}
}
"""

PREC = {"||": 1, "&&": 2, "==": 3, "!=": 3, "<": 3, "<=": 3, ">": 3, ">=": 3, "+": 4, "-": 4, "*": 5, "/": 5, "%": 5}


class ExprGen:
    """random typed Go expressions as (text, precedence); 7 = primary, 6 = unary"""

    def __init__(self, rng, effects=True):
        self.r = rng
        self.n = 0
        self.effects = effects

    def tid(self):
        self.n += 1
        return self.n

    def glue(self, op):
        k = self.r.below(14)
        if k == 0:
            return " %s\n\t\t" % op
        if k == 1:
            return " %s /* c */ " % op
        if k == 2:
            return " %s // c\n\t\t" % op
        return " %s " % op

    def operand(self, e, minprec):
        t, p = e
        if p < minprec or self.r.chance(1, 12) or (minprec == 6 and t.startswith("-")):
            return "(" + t + ")"
        return t

    @staticmethod
    def nonconst(t):
        """index / slice operands must not be constant expressions (negative constant index is a compile error)"""
        return t if re.search(r"[a-z]", t) else "i1"

    def binary(self, op, a, b):
        p = PREC[op]
        return (self.operand(a, p) + self.glue(op) + self.operand(b, p + 1), p)

    def boolean(self, d):
        r = self.r
        k = r.below(11) if d > 0 else r.below(3)
        if k == 0 or k == 1:
            return (r.choice(["b0", "b1", "b2"]), 7)
        if k == 2:
            if self.effects:
                return ("tb(%d, %s)" % (self.tid(), r.choice(["b0", "b1", "true", "false"])), 7)
            return ("b2", 7)
        if k == 3:
            return ("!" + self.operand(self.boolean(d - 1), 6), 6)
        if k == 4:
            return self.binary("&&", self.boolean(d - 1), self.boolean(d - 1))
        if k == 5:
            return self.binary("||", self.boolean(d - 1), self.boolean(d - 1))
        if k == 6 or k == 7:
            return self.binary(r.choice(["<", "<=", ">", ">=", "==", "!="]), self.integer(d - 1), self.integer(d - 1))
        if k == 8:
            return self.binary(r.choice(["==", "!="]), self.string(d - 1), self.string(d - 1))
        if k == 9:
            return self.binary(r.choice(["==", "!="]), self.boolean(d - 1), self.boolean(d - 1))
        if self.effects and r.chance(1, 3):
            return ("pb(%d)" % self.tid(), 7)
        return ("tb(%d, %s)" % (self.tid(), self.boolean(d - 1)[0]), 7) if self.effects else (r.choice(["b0", "b1"]), 7)

    def integer(self, d):
        r = self.r
        k = r.below(9) if d > 0 else r.below(3)
        if k == 0:
            return (r.choice(["i0", "i1", "i2"]), 7)
        if k == 1:
            return (str(r.below(4)), 7)
        if k == 2:
            return ("ti(%d, %s)" % (self.tid(), r.choice(["i0", "i1", "2"])), 7) if self.effects else ("i1", 7)
        if k in (3, 4):
            return self.binary(r.choice(["+", "-", "*"]), self.integer(d - 1), self.integer(d - 1))
        if k == 5:
            return self.binary(r.choice(["/", "%"]), self.integer(d - 1), (r.choice(["i0", "i1", "i2", "xs[0]", "len(s1)"]), 7))
        if k == 6:
            return ("len(%s)" % self.string(d - 1)[0], 7)
        if k == 7:
            return ("xs[%s]" % self.nonconst(self.integer(d - 1)[0]), 7)
        return ("-" + self.operand(self.integer(d - 1), 6), 6)

    def pure_int(self, d):
        r = self.r
        k = r.below(6) if d > 0 else r.below(2)
        if k == 0:
            return (r.choice(["i0", "i1", "i2"]), 7)
        if k == 1:
            return (str(r.below(4)), 7)
        if k == 2:
            return self.binary(r.choice(["+", "-", "*"]), self.pure_int(d - 1), self.pure_int(d - 1))
        if k == 3:
            return self.binary(r.choice(["/", "%"]), self.pure_int(d - 1), (r.choice(["i0", "i1", "i2", "xs[0]"]), 7))
        if k == 4:
            return ("xs[%s]" % self.nonconst(self.pure_int(d - 1)[0]), 7)
        return ("in.o.Mid.C", 7)

    def string(self, d):
        r = self.r
        k = r.below(7) if d > 0 else r.below(3)
        if k == 0:
            return (r.choice(["s0", "s1"]), 7)
        if k == 1:
            return (r.choice(['"a"', '"b"', '""', '"ab"']), 7)
        if k == 2:
            return ("ts(%d, %s)" % (self.tid(), r.choice(["s0", "s1", '"a"'])), 7) if self.effects else ("s1", 7)
        if k in (3, 4):
            return self.binary("+", self.string(d - 1), self.string(d - 1))
        if k == 5:
            return ("s0[%s:]" % self.nonconst(self.integer(d - 1)[0]), 7)
        return ("fmt.Sprint(%s)" % self.integer(d - 1)[0], 7)

    def floating(self, d):
        r = self.r
        k = r.below(6) if d > 0 else r.below(2)
        if k == 0:
            return (r.choice(["f0", "f1"]), 7)
        if k == 1:
            return (r.choice(["2.0", "0.5", "3"]), 7)
        if k == 2:
            return ("tf(%d, %s)" % (self.tid(), r.choice(["f0", "f1"])), 7) if self.effects else ("f1", 7)
        if k in (3, 4):
            return self.binary(r.choice(["+", "-", "*"]), self.floating(d - 1), self.floating(d - 1))
        return ("-" + self.operand(self.floating(d - 1), 6), 6)

    def bytes_(self, d):
        r = self.r
        k = r.below(4)
        if k == 0:
            return (r.choice(["bs0", "bs1"]), 7)
        if k == 1:
            return ("[]byte(%s)" % self.string(d - 1)[0], 7)
        if k == 2:
            return ("tbs(%d, %s)" % (self.tid(), r.choice(["bs0", "bs1"])), 7) if self.effects else ("bs1", 7)
        return ("bs0[%s:]" % self.nonconst(self.integer(d - 1)[0]), 7)


def ctx_bool(g, e, r):
    """place a boolean expression text `e` (already a complete expression of precedence p) in a context"""
    t, p = e
    k = r.below(6)
    if k == 0:
        return "if %s {\n\t\tres += \"T\"\n\t} else {\n\t\tres += \"F\"\n\t}" % t
    if k == 1:
        return "res += fmt.Sprint(%s)" % t
    if k == 2:
        return "v := %s\n\tres += fmt.Sprint(v)" % t
    if k == 3:
        return "res += fmt.Sprint(%s)" % g.binary(r.choice(["&&", "||"]), e, g.boolean(1))[0]
    if k == 4:
        return "res += fmt.Sprint(%s)" % g.binary(r.choice(["&&", "||", "==", "!="]), g.boolean(1), e)[0]
    return "res += fmt.Sprint(!%s)" % g.operand(e, 6)


def shape_S1002(g, r):
    x = g.boolean(2)
    form = r.below(6)
    lit = ["true", "false"][r.below(2)]
    op = ["==", "!="][r.below(2)]
    if form < 4:
        e = (g.operand(x, 3) + g.glue(op) + lit, 3)
    else:
        e = (lit + g.glue(op) + g.operand(x, 4), 3)
    return ctx_bool(g, e, r)


def shape_S1003(g, r):
    pkg, arg = r.choice([("strings", g.string), ("bytes", g.bytes_)])
    fn = "Index"
    a, b = arg(1)[0], arg(1)[0]
    if r.chance(1, 4):
        fn, b = "IndexAny", g.string(1)[0]
    elif r.chance(1, 4):
        fn, b = "IndexRune", "'a'"
    # the five forms the check rewrites and forms it must leave alone
    cmp_ = r.choice(["!= -1", "> -1", "== -1", ">= 0", "< 0", "!= -1", "> -1", "== -1", ">= 0", "< 0",
                     ">= -1", "< -1", "> 0", "== 0", "!= 0", "< 1", ">= 1"])
    return ctx_bool(g, ("%s.%s(%s, %s) %s" % (pkg, fn, a, b, cmp_), 3), r)


def shape_S1004(g, r):
    return ctx_bool(g, ("bytes.Compare(%s, %s) %s 0" % (g.bytes_(1)[0], g.bytes_(1)[0], r.choice(["==", "!="])), 3), r)


def shape_S1010(g, r):
    if r.chance(1, 2):
        return "res += fmt.Sprint(xs[%s:len(xs)])" % g.nonconst(g.integer(1)[0])
    return "res += s0[%s:len(s0)]" % g.nonconst(g.integer(1)[0])


def str_ctx(g, t, r):
    """place a string-typed trigger `t` (a primary expression: a call) in an operand position, including the
    positions in which a bare binary/unary replacement re-associates: base of an index or slice expression"""
    k = r.below(8)
    if k == 5:
        return "res += %s[%s:]" % (t, r.choice(["1", "0", "len(s1)"]))
    if k == 6:
        return "res += fmt.Sprint(%s[%s])" % (t, r.choice(["0", "1", "len(s1)"]))
    if k == 7:
        return "res += %s[:%s]" % (t, r.choice(["1", "0", "len(s0)"]))
    if k == 0:
        return "res += %s" % t
    if k == 1:
        return "res += fmt.Sprint(len(%s))" % t
    if k == 2:
        return "res += fmt.Sprint(%s == %s)" % (t, g.string(1)[0])
    if k == 3:
        return "res += %s + %s" % (g.operand(g.string(1), 4), t)
    return "res += strings.ToUpper(%s)" % t


def shape_S1025(g, r):
    k = r.below(8)
    if k == 5:
        return "p := &s0\n\t" + str_ctx(g, 'fmt.Sprintf("%s", *p)', r)
    if k == 6:
        return "ch := make(chan string, 1)\n\tch <- %s\n\t%s" % (g.string(1)[0], str_ctx(g, 'fmt.Sprintf("%s", <-ch)', r))
    if k == 7:
        return str_ctx(g, 'fmt.Sprintf("%%s", %s)' % g.binary("+", g.string(1), g.string(1))[0], r)
    if k == 4:
        a = "SStr(%s)" % g.string(1)[0]
    elif k == 0:
        a = g.string(2)[0]
    elif k == 1:
        a = "Str(%s)" % g.string(1)[0]
    elif k == 2:
        a = r.choice(["Tick(%s)" % g.integer(1)[0], "Tick(i0) + Tick(%s)" % g.integer(1)[0]])
    else:
        a = g.bytes_(1)[0]
    return str_ctx(g, 'fmt.Sprintf("%%s", %s)' % a, r)


def shape_S1028(g, r):
    return 'err := errors.New(fmt.Sprintf("%%d-%%s", %s, %s))\n\tres += err.Error()' % (g.integer(2)[0], g.string(1)[0])


def shape_S1030(g, r):
    return 'var buf bytes.Buffer\n\tbuf.WriteString(%s)\n\t%s' % (g.string(1)[0], str_ctx(g, "string(buf.Bytes())", r))


def shape_S1039(g, r):
    return str_ctx(g, r.choice(['fmt.Sprint("lit")', 'fmt.Sprintf("l\\"it")', 'fmt.Sprintf(`a b`)']), r)


def shape_S1005(g, r):
    k = r.below(4)
    if k == 0:
        return "for _ = range xs {\n\t\tres += \"x\"\n\t}"
    if k == 1:
        return "for i, _ := range xs {\n\t\tres += fmt.Sprint(i)\n\t}"
    if k == 2:
        return "for _, _ = range xs {\n\t\tres += \"y\"\n\t}"
    return "m := map[string]int{\"a\": 1}\n\tv, _ := m[%s]\n\tres += fmt.Sprint(v)" % g.string(1)[0]


def shape_S1021(g, r):
    k = r.below(3)
    if k == 0:
        return "var v int\n\tv = %s\n\tres += fmt.Sprint(v)" % g.integer(2)[0]
    if k == 1:
        return "var v string\n\tv = %s\n\tres += v" % g.string(2)[0]
    return "var v bool\n\tv = %s\n\tres += fmt.Sprint(v)" % g.boolean(2)[0]


def shape_S1011(g, r):
    k = r.below(3)
    if k == 0:
        return "var ys []int\n\tfor _, e := range xs {\n\t\tys = append(ys, e)\n\t}\n\tres += fmt.Sprint(ys)"
    if k == 1:
        return "ys := []int{%s}\n\tfor i := range xs {\n\t\tys = append(ys, xs[i])\n\t}\n\tres += fmt.Sprint(ys)" % g.integer(1)[0]
    return "var ys []int\n\tfor i := range xs {\n\t\te := xs[i]\n\t\tys = append(ys, e)\n\t}\n\tres += fmt.Sprint(ys)"


def shape_S1033(g, r):
    k = g.string(1)[0]      # the key may have effects: it is written twice in the trigger
    return "m := map[string]int{\"a\": 1, \"b\": 2}\n\tif _, ok := m[%s]; ok {\n\t\tdelete(m, %s)\n\t}\n\tres += fmt.Sprint(len(m))" % (k, k)


def shape_S1036(g, r):
    k = r.below(3)
    if k == 0:
        return ("m := map[string][]int{\"a\": {1}}\n\tif _, ok := m[s0]; ok {\n\t\tm[s0] = append(m[s0], %s)\n\t} else {\n\t\tm[s0] = []int{%s}\n\t}\n"
                "\tres += fmt.Sprint(m[\"a\"], m[\"b\"], len(m))") % (("i0",) * 2)
    if k == 1:
        return ("m := map[string]int{\"a\": 1}\n\tif _, ok := m[s0]; ok {\n\t\tm[s0] += i1\n\t} else {\n\t\tm[s0] = i1\n\t}\n"
                "\tres += fmt.Sprint(m[\"a\"], m[\"b\"], len(m))")
    return ("m := map[string]int{\"a\": 1}\n\tif _, ok := m[s0]; ok {\n\t\tm[s0]++\n\t} else {\n\t\tm[s0] = 1\n\t}\n"
            "\tres += fmt.Sprint(m[\"a\"], m[\"b\"], len(m))")


def shape_QF1001(g, r):
    a, b = g.boolean(2), g.boolean(2)
    inner = g.binary(r.choice(["&&", "||"]), a, b)
    e = ("!(" + inner[0] + ")", 6)
    return ctx_bool(g, e, r)


def shape_QF1002(g, r):
    x = g.pure_int(1)[0]
    ys = [g.pure_int(1)[0] for _ in range(4)]
    return ("switch {\n\tcase %s == %s:\n\t\tres += \"a\"\n\tcase %s == %s || %s == (%s):\n\t\tres += \"b\"\n\tdefault:\n\t\tres += \"d\"\n\t}"
            % (x, ys[0], x, ys[1], x, ys[2]))


def shape_QF1003(g, r):
    x = g.operand(g.pure_int(1), 4)
    k = r.below(4)
    if k == 0:
        # constants, possibly the same value in two different branches (spelled differently)
        cs = [r.choice(["0", "1", "2", "3", "0x1", "1 + 1", "02"]) for _ in range(4)]
        return ("if %s == %s {\n\t\tres += \"a\"\n\t} else if %s == %s || %s == %s {\n\t\tres += \"b\"\n\t} else if %s == %s {\n\t\tres += \"c\"\n\t}"
                % (x, cs[0], x, cs[1], x, cs[2], x, cs[3]))
    if k == 1:
        # the chain is the body of a loop; a branch or the final else leaves / continues the loop
        j = [r.choice(["res += \"%s\"" % c, "break", "continue", "res += \"%s\"\n\t\t\tbreak" % c]) for c in "abe"]
        return ("for n := 0; n < 3; n++ {\n\t\tif %s+n == 1 {\n\t\t\t%s\n\t\t} else if %s+n == 2 {\n\t\t\t%s\n\t\t} else {\n\t\t\t%s\n\t\t}\n\t\tres += \".\"\n\t}"
                % (x, j[0], x, j[1], j[2]))
    ys = [g.operand(g.pure_int(1), 4) for _ in range(4)]
    els = r.choice(["", " else {\n\t\tres += \"e\"\n\t}"])
    return ("if %s == %s {\n\t\tres += \"a\"\n\t} else if %s == %s || %s == %s {\n\t\tres += \"b\"\n\t}%s" % (x, ys[0], x, ys[1], x, ys[2], els))


def shape_QF1004(g, r):
    k = r.below(3)
    if k == 0:
        return "res += strings.Replace(%s, %s, %s, -1)" % (g.string(1)[0], g.string(1)[0], g.string(1)[0])
    if k == 1:
        return "res += string(bytes.Replace(%s, %s, %s, -1))" % (g.bytes_(1)[0], g.bytes_(1)[0], g.bytes_(1)[0])
    return "res += fmt.Sprint(strings.SplitN(%s, %s, -1))" % (g.string(1)[0], g.string(1)[0])


def shape_QF1005(g, r):
    gp = ExprGen(r, effects=False)
    x = gp.floating(2)[0]
    n = r.choice(["2", "3", "1", "1", "1", "0"])
    call = "math.Pow(%s, %s)" % (x, n)
    k = r.below(12)
    if k >= 6:
        y = gp.operand(gp.floating(1), 6)
        op = r.choice(["+", "-", "*", "/", "<", "=="])
        if k == 6:
            return "res += fmt.Sprint(%s %s %s)" % (y, op, call)
        if k == 7:
            return "res += fmt.Sprint(%s %s %s)" % (call, op, y)
        if k == 8:
            return "res += fmt.Sprint(-%s %s %s)" % (call, op, y)
        if k == 9:
            return "res += fmt.Sprint(%s %s -%s)" % (y, op, call)
        if k == 10:
            return "res += fmt.Sprint(math.Abs(%s), %s)" % (call, y)
        return "v := %s\n\tres += fmt.Sprint(v %s %s %s %s)" % (call, op, call, r.choice(["*", "-"]), y)
    if k == 0:
        return "res += fmt.Sprint(%s)" % call
    if k == 1:
        return "res += fmt.Sprint(%s / %s)" % (gp.operand(gp.floating(1), 5), call)
    if k == 2:
        return "res += fmt.Sprint(%s - %s)" % (gp.operand(gp.floating(1), 4), call)
    if k == 3:
        return "res += fmt.Sprint(-%s)" % call
    if k == 4:
        return "res += fmt.Sprint(%s * %s)" % (call, gp.operand(gp.floating(1), 6))
    return "res += fmt.Sprint(%s < %s)" % (call, gp.operand(gp.floating(1), 4))


def shape_QF1006(g, r):
    c = g.boolean(2)[0]
    k = r.below(6)
    if k == 0:      # break naming the loop's own label
        return "n := 0\nown:\n\tfor {\n\t\tif n > 3 || %s {\n\t\t\tbreak own\n\t\t}\n\t\tn++\n\t\tres += \"x\"\n\t}" % g.operand((c, 0), 2)
    if k == 1:      # break naming an ENCLOSING loop whose label is used elsewhere too
        return ("outer:\n\tfor m := 0; m < 3; m++ {\n\t\tn := 0\n\t\tfor {\n\t\t\tif n+m > 2 && %s {\n\t\t\t\tbreak outer\n\t\t\t}\n"
                "\t\t\tif n > 3 {\n\t\t\t\tcontinue outer\n\t\t\t}\n\t\t\tn++\n\t\t\tres += \"x\"\n\t\t}\n\t}" % g.operand((c, 0), 3))
    return "n := 0\n\tfor {\n\t\tif n > 3 || %s {\n\t\t\tbreak\n\t\t}\n\t\tn++\n\t\tres += \"x\"\n\t}" % g.operand((c, 0), 2) if r.chance(1, 2) else \
        "n := 0\n\tfor {\n\t\tif %s {\n\t\t\tbreak\n\t\t}\n\t\tn++\n\t\tif n > 3 {\n\t\t\tbreak\n\t\t}\n\t\tres += \"x\"\n\t}" % c


def shape_QF1007(g, r):
    c = g.boolean(2)[0]
    a, b = r.choice([("true", "false"), ("false", "true")])
    return "v := %s\n\tif %s {\n\t\tv = %s\n\t}\n\tres += fmt.Sprint(v)" % (a, c, b)


def shape_QF1008(g, r):
    return "o := in.o\n\tres += fmt.Sprint(%s)" % r.choice(["o.Mid.Inner.A", "o.Mid.C + o.Mid.Inner.B", "o.Mid.Inner.A * in.o.Mid.Inner.B", "o.Mid.Inner"])


def shape_QF1012(g, r):
    k = r.below(3)
    args = '"%%d-%%s", %s, %s' % (g.integer(1)[0], g.string(1)[0])
    if k == 0:
        return "var buf bytes.Buffer\n\tbuf.Write([]byte(fmt.Sprintf(%s)))\n\tres += buf.String()" % args
    if k == 1:
        return "buf := &bytes.Buffer{}\n\tbuf.WriteString(fmt.Sprintf(%s))\n\tres += buf.String()" % args
    return "var sb strings.Builder\n\tsb.WriteString(fmt.Sprint(%s, %s))\n\tres += sb.String()" % (g.integer(1)[0], g.string(1)[0])


def shape_S1001(g, r):
    k = r.below(3)
    n = r.choice(["len(xs)", "len(xs)", "len(xs) + 1", g.nonconst(g.integer(1)[0])])
    if k == 0:
        return "dst := make([]int, %s)\n\tfor i, x := range xs {\n\t\tdst[i] = x\n\t}\n\tres += fmt.Sprint(dst)" % n
    if k == 1:
        return "dst := make([]int, %s)\n\tfor i := range xs {\n\t\tdst[i] = xs[i]\n\t}\n\tres += fmt.Sprint(dst)" % n
    return "var dst [4]int\n\tvar src [4]int\n\tcopy(src[:], xs)\n\tfor i := range src {\n\t\tdst[i] = src[i]\n\t}\n\tres += fmt.Sprint(dst)"


def shape_S1018(g, r):
    return ("ys := append([]int(nil), xs...)\n\tn, off := %s, %s\n\tfor i := 0; i < n; i++ {\n\t\tys[i] = ys[off+i]\n\t}\n\tres += fmt.Sprint(ys)"
            % (r.choice(["len(xs) - 1", "i1", "1"]), r.choice(["1", "i2", "0"])))


def shape_S1016(g, r):
    k = r.below(4)
    if k < 2:
        lit = ["&(Inner2{A: v.A, B: v.B})", "&Inner2{A: v.A, B: v.B}"][k]
        return "v := Inner{%s, %s}\n\tw := %s\n\tres += fmt.Sprint(*w)" % (g.integer(1)[0], g.integer(1)[0], lit)
    if k == 2:
        return "v := Inner{%s, %s}\n\tres += fmt.Sprint((Inner2{v.A, v.B}).B, (Inner2{A: v.A, B: v.B}))" % (g.integer(1)[0], g.integer(1)[0])
    return "v := Inner{%s, %s}\n\tw := Inner2{A: v.A, B: v.B}\n\tres += fmt.Sprint(w)" % (g.integer(1)[0], g.integer(1)[0])


def shape_QF1011(g, r):
    k = r.below(3)
    if k == 0:
        return "var v string = %s\n\tres += v" % g.string(2)[0]
    if k == 1:
        return "var v bool = %s\n\tres += fmt.Sprint(v)" % g.boolean(2)[0]
    return "var v Tick = Tick(%s)\n\tres += fmt.Sprint(int(v))" % g.integer(1)[0]


def shape_ST1017(g, r):
    if r.chance(1, 2):
        e = (r.choice(["1", "2", "0"]) + g.glue(r.choice(["==", "!="])) + g.operand(g.integer(2), 4), 3)
    else:
        e = (r.choice(['"a"', '""']) + g.glue(r.choice(["==", "!="])) + g.operand(g.string(2), 4), 3)
    return ctx_bool(g, e, r)


def shape_SA4013(g, r):
    return ctx_bool(g, ("!!" + g.operand(g.boolean(2), 6), 6), r)


def shape_SA6005(g, r):
    f = r.choice(["ToLower", "ToUpper"])
    return ctx_bool(g, ("strings.%s(%s) %s strings.%s(%s)" % (f, g.string(1)[0], r.choice(["==", "!="]), f, g.string(1)[0]), 3), r)


def shape_S1034(g, r):
    k = r.below(4)
    use = ["res += fmt.Sprint(x.(int) + 1)", "v, ok := x.(int)\n\t\tres += fmt.Sprint(v, ok)", "if _, ok := x.(int); ok {\n\t\t\tres += \"i\"\n\t\t}",
           "var v, ok = x.(int)\n\t\tres += fmt.Sprint(v, ok)"][k]
    return ("var x any = %s\n\tif b0 {\n\t\tx = %s\n\t}\n\tswitch x.(type) {\n\tcase int:\n\t\t%s\n\tcase string:\n\t\tres += x.(string) + %s\n\tdefault:\n\t\tres += \"d\"\n\t}"
            % (g.integer(1)[0], g.string(1)[0], use, g.string(1)[0]))


def shape_ST1018(g, r):
    # a format character (U+200B, three bytes) / a control character inside an interpreted or a raw string;
    # the raw string spans lines (in the CRLF file the scanner strips the carriage returns from the value)
    ch = r.choice(["\u200b", "\u200b", "\x01", "\u00ad"])
    k = r.below(3)
    if k == 0:
        return "v := \"a%sb\"\n\tres += fmt.Sprint(len(v))" % ch
    if k == 1:
        return "v := `a\nb%sc\nd%s`\n\tres += fmt.Sprint(len(v))" % (ch, r.choice(["", ch]))
    return "v := `a%sb`\n\tres += fmt.Sprint(len(v))" % ch


# shapes of checks outside the simplification / quick-fix categories: their fixes must parse and
# type-check, but are not claimed to be equivalent rewrites (no behaviour comparison)
NO_BEHAVIOUR = {"ST1017", "ST1018", "SA4013", "SA6005"}

SHAPES = {
    "S1001": shape_S1001, "S1016": shape_S1016, "S1018": shape_S1018, "QF1011": shape_QF1011,
    "S1034": shape_S1034, "ST1018": shape_ST1018,
    "ST1017": shape_ST1017, "SA4013": shape_SA4013, "SA6005": shape_SA6005,
    "S1002": shape_S1002, "S1003": shape_S1003, "S1004": shape_S1004, "S1005": shape_S1005, "S1010": shape_S1010,
    "S1011": shape_S1011, "S1021": shape_S1021, "S1025": shape_S1025, "S1028": shape_S1028, "S1030": shape_S1030,
    "S1033": shape_S1033, "S1036": shape_S1036, "S1039": shape_S1039,
    "QF1001": shape_QF1001, "QF1002": shape_QF1002, "QF1003": shape_QF1003, "QF1004": shape_QF1004, "QF1005": shape_QF1005,
    "QF1006": shape_QF1006, "QF1007": shape_QF1007, "QF1008": shape_QF1008, "QF1012": shape_QF1012,
}
GEN_IMPORTS = ["bytes", "errors", "fmt", "math", "strings"]
# equivalent rewrites whose behaviour is compared (QF1009/QF1010 change behaviour by design and are not generated)
PROLOGUE = ("b0, b1, b2, i0, i1, i2, f0, f1, s0, s1, xs, bs0, bs1 := in.b0, in.b1, in.b2, in.i0, in.i1, in.i2, in.f0, in.f1, in.s0, in.s1, in.xs, in.bs0, in.bs1\n"
            "\t_, _, _, _, _, _, _, _, _, _, _, _, _ = b0, b1, b2, i0, i1, i2, f0, f1, s0, s1, xs, bs0, bs1")


def gen_file(rng, tag, per_shape, renamed, crlf):
    """one generated source file; returns (text, [(fname, shape, first_line, last_line)])"""
    imports = []
    alias = {}
    for p in GEN_IMPORTS:
        if renamed and p in ("strings", "bytes", "errors", "math"):
            alias[p] = "x" + p
            imports.append('\t%s "%s"' % (alias[p], p))
        else:
            imports.append('\t"%s"' % p)
    head = "package main\n\nimport (\n%s\n)\n\nvar _ = []any{bytes.Compare, errors.New, fmt.Sprint, math.Pow, strings.Index}\n\n" % "\n".join(imports)
    body = []
    funcs = []
    line = head.count("\n") + 1
    for shape in sorted(SHAPES):
        for k in range(per_shape):
            r = rng.fork("%s/%s/%d" % (tag, shape, k))
            g = ExprGen(r)
            name = "F%s_%s_%d" % (tag, shape, k)
            text = "func %s(in In) (res string) {\n\t%s\n\t%s\n\treturn res\n}\n\n" % (name, PROLOGUE, SHAPES[shape](g, r))
            n = text.count("\n")
            funcs.append((name, shape, line, line + n - 2))
            body.append(text)
            line += n
    table = "func init() {\n" + "".join("\tfuncs = append(funcs, fn{%q, %s})\n".replace("%q", '"%s"') % (f[0], f[0]) for f in funcs) + "}\n"
    text = head + "".join(body) + table
    for p, a in alias.items():
        text = re.sub(r"\b%s\." % p, a + ".", text)
    if crlf:
        text = text.replace("\n", "\r\n")
    return text, funcs


def gen_shapes(ctx, genbin=None):
    rng = vlib.SplitMix(ctx.seed).fork("shapes")
    per = 2 if ctx.quick else 14
    d = os.path.dirname(ctx.path("gen", "src", "go.mod"))
    open(os.path.join(d, "go.mod"), "w").write("module example.com/gen\ngo 1.21\n")
    open(os.path.join(d, "support.go"), "w").write(GEN_SUPPORT + "\nvar funcs []fn\n")
    funcs = {}
    for tag, renamed, crlf in (("a", False, False), ("b", True, True)):
        text, fs = gen_file(rng, tag, per, renamed, crlf)
        fn_ = os.path.join(d, "gen_%s.go" % tag)
        with open(fn_, "w", newline="") as f:
            f.write(text)
        funcs[fn_] = fs
    for cname, gname, crlf in (("regress.go", "gen_c.go", False), ("regress_crlf.go", "gen_d.go", True)):
        cf = os.path.join(vlib.VERIF, "corpus", "C16", cname)
        if not os.path.exists(cf):
            continue
        text = open(cf).read()
        fs, cur = [], None
        for ln, l in enumerate(text.split("\n"), 1):
            m_ = re.match(r"func ([RG]_(\w+?)_\d+)\(in In\)", l)
            if m_:
                cur = (m_.group(1), m_.group(2), ln)
            elif l == "}" and cur:
                fs.append((cur[0], cur[1], cur[2], ln))
                cur = None
        text += "\nfunc init() {\n" + "".join('\tfuncs = append(funcs, fn{"%s", %s})\n' % (f[0], f[0]) for f in fs) + "}\n"
        fn_ = os.path.join(d, gname)
        with open(fn_, "w", newline="") as f:
            f.write(text.replace("\n", "\r\n") if crlf else text)
        funcs[fn_] = fs
    job = {"id": "generated/shapes", "dir": d, "patterns": ["."], "tests": False, "env": ["GOFLAGS=-mod=mod", "GOPROXY=off", "GO111MODULE="],
           "typecheck": True, "variant": "generated", "weight": 1, "gover": "1.21"}
    shape_of = {}
    for fn_, fs in funcs.items():
        for (name, shape, l0, l1) in fs:
            for l in range(l0, l1 + 1):
                shape_of[(fn_, l)] = ("corpus:" if name[:2] in ("R_", "G_") else "gen:") + shape
    job["shape_of"] = shape_of
    return {"jobs": [job], "dir": d, "funcs": funcs,
            "summary": {"functions": sum(len(v) for v in funcs.values()), "per_shape": per, "shapes": sorted(SHAPES),
                        "files": {"gen_a.go": "LF, plain imports", "gen_b.go": "CRLF, renamed imports",
                                  "gen_c.go": "corpus/C16/regress.go", "gen_d.go": "corpus/C16/regress_crlf.go with CRLF line endings"}}}


BEHAVIOUR_CATS = set(SHAPES)


def build_and_run(ctx, name, srcdir, files):
    """copy the generated module with `files` overriding, build, run; returns {(func, input): outcome}"""
    d = os.path.dirname(ctx.path("gen", name, "go.mod"))
    for fn_ in os.listdir(srcdir):
        shutil.copyfile(os.path.join(srcdir, fn_), os.path.join(d, fn_))
    for fn_, data in files.items():
        with open(os.path.join(d, os.path.basename(fn_)), "wb") as f:
            f.write(data)
    exe = os.path.join(d, "prog")
    rc, so, se = vlib.run([vlib.GO, "build", "-gcflags=-N -l", "-o", exe, "."], cwd=d, env=vlib.go_env(), timeout=600)
    if rc != 0:
        return None, se
    rc, so, se = vlib.run([exe], cwd=d, timeout=300)
    if rc != 0:
        raise vlib.HarnessError("generated program %s failed: %s" % (name, se[-1500:]))
    out = {}
    for l in so.splitlines():
        w = l.split(" ", 2)
        # which run-time error it is (index vs. slice bounds, the numbers) is not part of the comparison
        out[(w[0], int(w[1]))] = re.sub(r"PANIC\(runtime error: [^\"]*\)", "PANIC(runtime error)", w[2])
    return out, ""


def run_behaviour(ctx, gen, res, files, before_f=None):
    job = gen["jobs"][0]
    o = res[job["id"]]
    srcdir = gen["dir"]
    # the fix of the target check inside each generated function
    chosen = {}     # func -> (diag, file)
    triggered = {}
    for d in o["diags"]:
        f = d["pos"]["file"]
        if f not in gen["funcs"] or not d.get("fixes"):
            continue
        for (name, shape, l0, l1) in gen["funcs"][f]:
            if l0 <= d["pos"]["line"] <= l1:
                if d["cat"] == shape and shape in NO_BEHAVIOUR:
                    triggered[shape] = triggered.get(shape, 0) + 1
                elif d["cat"] == shape and name not in chosen:
                    chosen[name] = (d, f, shape)
                    triggered[shape] = triggered.get(shape, 0) + 1
                break
    pool = ThreadPoolExecutor(max_workers=5)
    if before_f is None:
        before_f = pool.submit(build_and_run, ctx, "before", srcdir, {})
    fails, samples = [], []
    runs = 0
    compared = set()
    skipped_bad_fix = 0
    maxalt = max([len(d["fixes"]) for d, _, _ in chosen.values()] + [0])
    by_alt = {}

    def do_alt(alt):
        edits_by_file = {}
        owners = {}
        skipped = 0
        for name, (d, f, shape) in sorted(chosen.items()):
            if alt >= len(d["fixes"]):
                continue
            fx = d["fixes"][alt]
            if (fx.get("oracle") or {}).get("status") != "ok":
                skipped += 1     # already an oracle failure of clause (iii)
                continue
            edits_by_file.setdefault(f, []).extend(fx["edits"])
            owners[name] = (d, fx, shape)
        if not owners:
            return alt, owners, {}, skipped
        patched = {}
        for f, es in edits_by_file.items():
            data = get_file(files, f).data
            out, last = bytearray(), 0
            for e in sorted(es, key=lambda e: (e["pos"]["off"], e["end"]["off"])):
                out += data[last:e["pos"]["off"]] + base64.b64decode(e["new"] or "")
                last = e["end"]["off"]
            out += data[last:]
            patched[f] = bytes(out)
        after, err = build_and_run(ctx, "after%d" % alt, srcdir, patched)
        if after is None:
            # "packages the replacement text newly refers to imported": gen_b.go imports its packages
            # under other names, the fixes name the packages plainly
            need = {}
            for m_ in re.finditer(r"\./(gen_\w+\.go):\d+:\d+: undefined: (\w+)", err):
                if m_.group(2) in GEN_IMPORTS:
                    need.setdefault(m_.group(1), set()).add(m_.group(2))
            if need:
                for f in sorted(set(list(patched) + [os.path.join(srcdir, b) for b in need])):
                    b = os.path.basename(f)
                    if b in need:
                        data = patched.get(f) or open(os.path.join(srcdir, b), "rb").read()
                        nl = b"\r\n" if b"\r\n" in data[:200] else b"\n"
                        head, rest = data.split(nl, 1)
                        patched[f] = head + nl + b"".join(b'import "%s"' % x.encode() + nl for x in sorted(need[b])) + rest
                after, err = build_and_run(ctx, "after%d" % alt, srcdir, patched)
        if after is None:
            # the fixes type-check one by one (oracle) but the program with all of them does not
            raise vlib.HarnessError("patched generated program (alternative %d) does not compile: %s" % (alt, err[-2000:]))
        return alt, owners, after, skipped

    results = list(pool.map(do_alt, range(maxalt)))
    before, err = before_f.result()
    pool.shutdown()
    if before is None:
        raise vlib.HarnessError("generated program does not compile: " + err[-2000:])
    for alt, owners, after, skipped in results:
        skipped_bad_fix += skipped
        for name, (d, fx, shape) in sorted(owners.items()):
            diff = None
            for k in range(64):
                if (name, k) not in before:
                    break
                runs += 1
                if before[(name, k)] != after.get((name, k)):
                    diff = (k, before[(name, k)], after.get((name, k)))
                    break
            compared.add(name)
            by_alt[alt] = by_alt.get(alt, 0) + 1
            if diff:
                fails.append(Failure("behaviour", d["cat"], job, d, fx,
                                     "fix %r changes behaviour of %s on input #%d: before %s, after %s" % (fx["msg"], name, diff[0], diff[1], diff[2]), alt))
            elif len(samples) < 3:
                samples.append({"function": name, "check": d["cat"], "fix": fx["msg"], "input0_outcome": before.get((name, 0))})
    return {"fails": fails, "runs": runs, "distinct": len(compared),
            "summary": {"functions_with_target_fix": len(chosen), "triggered_by_shape": dict(sorted(triggered.items())),
                        "not_triggered_shapes": sorted(set(SHAPES) - set(triggered)),
                        "functions_compared": len(compared), "compared_by_alternative": by_alt,
                        "fixes_skipped_failing_clause_iii": skipped_bad_fix, "inputs_per_function": 8},
            "samples": samples}


KIND_TEXT = {
    "pos": "a reported position does not exist in a Go file of the analysed package",
    "end-file": "a problem's end is in another file than its start",
    "end-before": "a problem's end precedes its start",
    "edit-bounds": "an edit of a suggested fix lies outside its file / ends before it starts",
    "edit-overlap": "two edits of one suggested fix overlap",
    "edit-files": "the edits of one suggested fix are not within one file of the package",
    "fix-parse": "applying a suggested fix yields a file that does not parse",
    "fix-types": "applying a suggested fix yields a package that does not type-check (imports adjusted)",
    "behaviour": "applying an equivalent-rewrite fix changes results, panics or visible effects",
}


def why_class(f):
    """normalised reason: positions, identifiers and literals removed"""
    w = f.why
    if f.kind == "behaviour":
        a = re.search(r'before ("(?:[^"\\]|\\.)*") \[(.*?)\], after ("(?:[^"\\]|\\.)*"|None) \[(.*?)\]', w)
        if not a:
            return "differs"
        if a.group(1) == a.group(3):
            return "effects-differ"
        if "PANIC" in a.group(1) or "PANIC" in (a.group(3) or ""):
            return "panic-differs"
        return "result-differs"
    w = re.sub(r"^(/\S+:)?\d+:\d+: ", "", w.split(";")[0])
    w = re.sub(r"\(and \d+ more errors\)", "", w)
    for pat, cls in ((r"duplicate case", "duplicate-case"), (r"operator ! not defined", "negation-of-non-bool"),
                     (r"expected operand, found '--'", "double-minus"), (r"undefined:", "undefined-name"),
                     (r"declared and not used", "unused-variable"), (r"imported and not used", "unused-import")):
        if re.search(pat, w):
            return cls
    w = re.sub(r"[0-9]+", "N", w)
    w = re.sub(r"[^A-Za-z ]+", "", w)
    return "-".join(w.split()[:6])[:60] or f.kind


def failure_key(f):
    """stable key of the failing input class: kind, check, and the generated shape or the
    testdata file + variant it occurs in"""
    where = f.job.get("shape_of", {}).get((f.diag["pos"]["file"], f.diag["pos"]["line"])) if f.job.get("shape_of") else None
    if where:
        return "%s:%s:%s" % (f.kind, f.cat, why_class(f))
    return "%s:%s:%s:%s:%s" % (f.kind, f.cat, why_class(f), f.job.get("variant", "?"), os.path.basename(f.diag["pos"]["file"]))


def report_failures(ctx, fails, files, known):
    groups = {}
    for f in fails:
        groups.setdefault(failure_key(f), []).append(f)
    for key, fs in sorted(groups.items()):
        f = fs[0]
        obj = {
            "what": KIND_TEXT.get(f.kind, f.kind), "key": key, "check": f.cat, "count": len(fs),
            "seed": ctx.seed, "tier": ctx.tier,
            "variant": f.job.get("variant"), "job": f.job["id"],
            "file": rel_to_corpus(ctx, f.diag["pos"]["file"]), "why": f.why,
            "position": "%d:%d" % (f.diag["pos"]["line"], f.diag["pos"]["col"]),
            "end": "%d:%d" % (f.diag["end"]["line"], f.diag["end"]["col"]), "message": f.diag["msg"],
            "flagged_text": flagged_text(files, f.diag)[:2000], "source_context": snippet(files, f.diag, 3),
            "fix": None if not f.fix else {"message": f.fix["msg"], "edits": [
                {"start": e["pos"]["off"], "end": e["end"]["off"], "new": base64.b64decode(e["new"] or "").decode("utf-8", "replace")}
                for e in f.fix["edits"]], "oracle": f.fix.get("oracle")},
            "source_file": (get_file(files, f.diag["pos"]["file"]).data.decode("utf-8", "replace")
                            if get_file(files, f.diag["pos"]["file"]) and get_file(files, f.diag["pos"]["file"]).size < 60000 else None),
            "how_to_replay": "write source_file as a package in a module `go %s`, run staticcheck -checks %s "
                             "(quickfix checks: -debug.run-quickfix-analyzers) -f json; apply the suggested fix's edits; "
                             "or: ./check C16 --replay <this file> (re-runs job %s of seed %d, tier %s)" % (f.job.get("gover", "1.21"), f.cat, f.job["id"], ctx.seed, ctx.tier),
            "others": [{"file": rel_to_corpus(ctx, g.diag["pos"]["file"]), "pos": "%d:%d" % (g.diag["pos"]["line"], g.diag["pos"]["col"]), "why": g.why[:300]} for g in fs[1:20]],
        }
        kf = [k for k in known if key == k or key.startswith(k + ":")]
        if kf:
            ctx.known_finding("key=%s %s (%d occurrence(s) this run, e.g. %s %s)" % (kf[0], known[kf[0]][:160], len(fs), obj["file"], obj["position"]))
            continue
        name = re.sub(r"[^A-Za-z0-9_.-]+", "_", key)[:120] + ".json"
        ctx.violation(name, obj, text="C16 %s: %s — %s at %s:%s: %s" % (f.cat, KIND_TEXT.get(f.kind, f.kind), obj["variant"], obj["file"], obj["position"], f.why[:300]))


def sample_units(ctx, units):
    if not ctx.quick:
        return units
    rng = vlib.SplitMix(ctx.seed).fork("units")
    # checks with fixes are what clause (iii) is about: always keep a share of them
    fixy = [u for u in units if re.match(r"(s1|qf1)\d+", u[0])]
    rest = [u for u in units if u not in fixy]
    n1, n2 = 14, 6
    pick = rng.shuffle(fixy)[:n1] + rng.shuffle(rest)[:n2]
    return rng.shuffle(sorted(pick))


def run(ctx):
    if os.environ.get("C16_EXPLORE"):
        explore(ctx)
        return 0
    t0 = time.time()
    timing = {}
    only_job = None
    if getattr(ctx, "replay", None):
        rp = json.load(open(ctx.replay))
        if "job" not in rp:
            raise vlib.HarnessError("replay file names no job (correspondence replays are re-checked by a normal run)")
        ctx.seed, ctx.tier, only_job = int(rp.get("seed", ctx.seed)), rp.get("tier", ctx.tier), rp["job"]
    lean_ok, lean_broke = vlib.std_lean_phase(ctx, MODULES, THEOREMS)
    timing["lean"] = round(time.time() - t0, 1)
    with ThreadPoolExecutor(max_workers=4) as ex:
        futs = [ex.submit(vlib.build_harness, ctx, n) for n in ("c16lint", "c16variant")]
        lintbin, varbin = [f.result() for f in futs]
    applybin = [lintbin, "-mode", "apply"]
    timing["build"] = round(time.time() - t0, 1)
    known = vlib.load_known_findings("C16")

    # ---- corpus: testdata units and their variants
    all_units = list_units(vlib.REPO)
    units = sample_units(ctx, all_units)
    stats = {}
    jobs = []
    if ctx.quick:
        # every sampled unit in one form: the first half as it is, the other half in the seeded variant
        variants = ["base", VARIANTS[1 + vlib.SplitMix(ctx.seed).fork("variant").below(len(VARIANTS) - 1)]]
        half = (len(units) + 1) // 2
        for v, us in ((variants[0], units[:half]), (variants[1], units[half:])):
            jobs += materialise(ctx, varbin, v, plan_bundles(us), ctx.seed, stats)
    else:
        variants = list(VARIANTS)
        bundles = plan_bundles(units)
        for v in variants:
            jobs += materialise(ctx, varbin, v, bundles, ctx.seed, stats)
    for j in jobs:
        j["weight"] = sum(len(fs) for _, _, fs in os.walk(j["dir"]))
        j["gover"] = re.search(r"go(1\.\d+)_", j["id"]).group(1)
    # ---- generated trigger shapes
    gen = gen_shapes(ctx)
    jobs += gen["jobs"]
    timing["corpus"] = round(time.time() - t0, 1)
    # work that does not depend on the lint results runs beside it
    bg = ThreadPoolExecutor(max_workers=4)
    before_f = bg.submit(build_and_run, ctx, "before", gen["dir"], {})
    gedits_f = bg.submit(tie_generated_edits, ctx, applybin, 1500 if ctx.quick else 20000)
    gpos_f = bg.submit(tie_generated_pos, ctx, applybin, 1000 if ctx.quick else 10000)
    rw_f = bg.submit(tie_rewrite, ctx, applybin, 3000 if ctx.quick else 30000)

    if only_job:
        jobs = [j for j in jobs if j["id"] == only_job]
        if not jobs:
            raise vlib.HarnessError("replay: job %s does not exist for seed %d tier %s" % (only_job, ctx.seed, ctx.tier))
    # one small job first: it fills the shared cache with the facts of the standard library
    jobs.sort(key=lambda j: j["weight"])
    res = run_lint_jobs(ctx, lintbin, jobs[:1], 1)
    if len(jobs) > 1:
        res.update(run_lint_jobs(ctx, lintbin, jobs[1:], 6 if ctx.quick else 8))
    timing["lint"] = round(time.time() - t0, 1)

    files = {}
    acc = new_acc()
    fails = []
    for j in jobs:
        o = res.get(j["id"])
        if o is None or o.get("error"):
            raise vlib.HarnessError("c16lint job %s failed: %s" % (j["id"], (o or {}).get("error", "no output")[:1500]))
        fails += validate_job(ctx, j, o, files, acc)

    # ---- behaviour of equivalent-rewrite fixes on the generated functions
    if only_job and only_job != gen["jobs"][0]["id"]:
        beh = {"fails": [], "runs": 0, "distinct": 0, "summary": {}, "samples": []}
    else:
        beh = run_behaviour(ctx, gen, res, files, before_f)
    fails += beh["fails"]
    timing["behaviour"] = round(time.time() - t0, 1)

    # ---- ties
    npos, pos_diffs = tie_positions(ctx, files, acc, maxfiles=60 if ctx.quick else None)
    nfix, napart, edit_diffs = tie_edits(ctx, files, acc)
    ngen, edit_hist, gen_edit_diffs, edit_samples = gedits_f.result()
    gofiles = sorted(f for f in files if files[f] is not None and f.endswith(".go") and ("/corpus/" in f or "/gen/src/" in f))
    if ctx.quick and len(gofiles) > 60:
        gofiles = vlib.SplitMix(ctx.seed).fork("shortfiles").shuffle(gofiles)[:60]
    nshort, short_kinds, short_diffs, short_viol, inv_fail = tie_short(ctx, applybin, gofiles)
    ngpos, gpos_diffs, gpos_viol = gpos_f.result()
    nrw, nrw_changed, rw_diffs, rw_samples = rw_f.result()
    bg.shutdown()
    timing["ties"] = round(time.time() - t0, 1)

    # ---- report
    report_failures(ctx, fails, files, known)
    by_kind = {}
    for v in short_viol:
        by_kind.setdefault(v["node"].split()[0], []).append(v)
    for k, vs in sorted(by_kind.items()):
        ctx.violation("shortrange_%s.json" % k, dict(vs[0], what="report.shortRange yields a range that does not start at the node or leaves it",
                      count=len(vs), others=vs[1:10], source=(open(vs[0]["file"]).read() if os.path.getsize(vs[0]["file"]) < 60000 else None),
                      how_to_replay="echo 'shortfile <file>' | c16lint -mode apply  (descriptor: kind + offsets; '= pos end' is what report.shortRange returned)"),
                      text="C16: report.shortRange outside its node (%d nodes), e.g. %s => %s in %s" % (len(vs), vs[0]["node"], vs[0]["shortRange"], vs[0]["file"]))
    for v in gpos_viol[:3]:
        ctx.violation("position_generated.json", dict(v, what="go/token position does not exist in the file"), text="C16: generated file: %s" % v["why"])
    broke = {}
    if not lean_ok:
        broke["lean"] = lean_broke
    for name, d in (("positions: model vs runner (go/token via DisplayPosition)", pos_diffs),
                    ("fix application: model vs testutil.applyEdits on the real fixes", edit_diffs),
                    ("fix application: model vs testutil.applyEdits on generated edit sets", gen_edit_diffs),
                    ("shortRange: model vs report.shortRange", short_diffs),
                    ("parser invariants assumed by shortRange_within (Inv) on corpus nodes", inv_fail),
                    ("positions: model vs go/scanner+go/token on generated files", gpos_diffs),
                    ("rewrite functions: model negDM/simplify vs astutil.NegateDeMorgan/SimplifyParentheses", rw_diffs)):
        if d:
            broke[name] = d[:20]
    if broke and not ctx.violations:
        ctx.violation("correspondence.json", {
            "what": "the Lean model no longer corresponds to the code (or a proof no longer checks), but every explored "
                    "diagnostic and fix satisfied the property",
            "streams": broke, "theorems": THEOREMS}, nofail=True,
            text="C16: model/proof broke: %s" % ", ".join(sorted(broke)))
    elif broke:
        ctx.notes.append({"correspondence_also_broken": {k: v[:3] if isinstance(v, list) else v for k, v in broke.items()}})

    nontrivial = len(acc["nontrivial"])
    ctx.coverage.update({
        "evaluations": acc["diagnostics"] + acc["fixes"] + ngen + nshort + ngpos + nrw + beh["runs"],
        "distinct_nontrivial": nontrivial + beh["distinct"],
        "rule": "a distinct (file, start, end, check, message) diagnostic that has an end position or a suggested fix, "
                "plus distinct generated functions whose fix was executed before/after on inputs",
        "units_total": len(all_units), "units_run": len(units), "variants": variants, "variant_stats": stats,
        "jobs": len(jobs), "packages": acc["packages"], "packages_failed_to_build": acc["packages_failed"],
        "diagnostics": acc["diagnostics"], "diagnostics_with_end": acc["with_end"], "diagnostics_by_check": len(acc["by_cat"]),
        "exempt_line_directive": acc["exempt_line_directive"],
        "fixes": acc["fixes"], "fixes_by_check": dict(sorted(acc["fix_by_cat"].items())), "fix_oracle_status": acc["oracle_status"],
        "fixes_imports_dropped": acc["imports_dropped"], "fixes_imports_added": acc["imports_added"],
        "oracle_failures": len(fails),
        "tie_positions_checked": npos, "tie_fixes_checked": nfix, "tie_fixes_without_touching_insertions": napart,
        "tie_generated_edit_sets": ngen, "generated_edit_sets": edit_hist,
        "tie_shortrange_nodes": nshort, "shortrange_kinds": dict(sorted(short_kinds.items())),
        "tie_generated_position_files": ngpos,
        "tie_rewrite_expressions": nrw, "tie_rewrite_expressions_changed_by_rule": nrw_changed,
        "generated_shapes": gen["summary"], "behaviour": beh["summary"],
        "samples": [{"diagnostic": list(x)} for x in sorted(acc["nontrivial"])[:: max(1, nontrivial // 5)][:5]] + [{"edit_case": l[:200]} for l in edit_samples[:2]] + beh["samples"][:3],
        "timing_s": timing,
        "programs": (len(units) if ctx.quick else len(units) * len(variants)) + gen["summary"].get("functions", 0), "disagreements_checked": len(broke),
    })
    ctx.assumptions += [
        "go/token (line table, File.Position), go/scanner, go/parser, go/types and go/printer are modelled or used as oracles, not verified",
        "parses / type-checks is decided by go/parser and go/types on the patched package (imports dropped/added by the harness: "
        "unused imports removed, std packages named by the replacement text added); explored, not proved",
        "behaviour preservation is proved for the Lean rewrite rules (first batch, see META) and explored by running generated "
        "functions before/after the fix for the checks listed in coverage.behaviour; other simple/quickfix checks are not covered",
        "positions remapped by //line directives are exempt (statement); packages containing a //line directive are skipped for clause (i)",
        "the parser invariants Inv (children nested in parents, keyword offsets) are hypotheses of shortRange_within, validated on every corpus node",
    ]
    return vlib.finish(ctx, "proof")


META = {
    "level": "proof",
    "technique": "Lean 4 theorems over models of go/token positions, report.shortRange/getRange, the repository's fix applier and "
                 "a first batch of rewrite rules; executable correspondence with the real runner, testutil.applyEdits, report.shortRange, "
                 "astutil.NegateDeMorgan/SimplifyParentheses; toolchain oracle (go/parser, go/types, compile-and-run before/after) over "
                 "testdata packages, their variants and generated trigger shapes",
    "text": "Proved in Lean for all inputs of the models: (i) every offset of every file maps to an existing line/column, offset->(line,col)->offset "
            "round-trips, end>=start is preserved (model of go/token File.position over the scanner's line table); (ii) shortRange/getRange stay "
            "inside the node for all node kinds under named parser invariants; (iii) for all in-bounds, non-overlapping edit sets the sorted order "
            "is unique (listing order / unstable sort cannot matter), the repository's applier (testutil.applyEdits, modelled with its running "
            "offset) equals the splice specification, length formula, and a re-basing client gets the same text in any order when no pure "
            "insertion touches another edit (with a proved counterexample otherwise); (iv) rewrite_preserves: S1002, S1003, S1004, QF1001 (all "
            "four alternatives incl. SimplifyParentheses), QF1006 (condition), QF1007, QF1002/QF1003 (if-chain -> tagged switch) do not change "
            "result, panics or events of an effectful expression language, for all well-typed operands. The models are tied to the current /repo "
            "on every run (runner positions, real fixes through testutil.applyEdits, report.shortRange on every corpus node, NegateDeMorgan / "
            "SimplifyParentheses on generated expressions). Round 2 (Control.lean): (v) for all conditions/bodies with arbitrary effects and outcomes "
            "(labelled/unlabelled break, continue, return) and all fuels, 'own: for { if c { break lab }; body }' = 'own: for !c { body }' when "
            "lab is absent or the loop's own label (qf1006_loop_preserves), and they differ as soon as c holds when lab names another statement "
            "(qf1006_outer_label_differs); the clauses of the switch built by QF1003/QF1002 end like the bodies of the chain when no body "
            "INCLUDING the final else ends in an unlabelled break (qf1003_bodies_preserve, counterexample qf1003_else_break_differs); the chain-wide "
            "'seen' set accepts exactly the chains whose constant case values are pairwise distinct, independent of visiting order "
            "(qf1003_seen_iff_nodup; a per-branch set is insufficient). These control-flow models are hand transliterations tied through the behaviour "
            "oracle on fixed guard functions (corpus/C16/regress.go G_QF1006_*, G_QF1003_*, R_QF1003_2), not compared tree-by-tree. EXPLORED, not proved: that every analyzer's positions and fixes satisfy the statement "
            "(all testdata packages x 5 variants, generated trigger shapes of 29 checks (25 simple/quickfix with behaviour comparison; triggers placed as left/right operand of every "
            "operator class, under unary operators, as base of index/slice expressions and as argument; labelled loops whose label is used elsewhere; "
            "repeated constants across branches; CRLF corpus file with multi-line raw strings); parse/type-check by go/parser+go/types, "
            "behaviour by executing generated functions before/after each fix). Not covered: std/the repository as corpus, checks without a "
            "generated shape (their fixes are only parsed/type-checked on testdata), renamed-import shadowing.",
    "note": "Trusted: Lean kernel (axioms propext/Classical.choice/Quot.sound), compiled c16driver, harness/cmd/c16lint|c16apply|c16variant and "
            "checks/c16.py (oracle, generators), go/token, go/scanner, go/parser, go/types, go/printer, the Go compiler. The Lean expression semantics "
            "(left-to-right evaluation, short-circuit, panics) is a model of the Go spec, not verified against it. Twelve defects were found by the "
            "check and fixed in /repo (S1002, QF1001, QF1005, QF1002/QF1003, astutil.SimplifyParentheses, S1033, SA4013; round 2: QF1003 break in the "
            "final else, S1016 &(T{...}), S1034 comma-ok, S1025 indexed/sliced call, ST1018 raw strings in CRLF files) and two by-design "
            "deviations are listed as findings (S1001, S1018: copy() panics differ from the loop); see findings.d/C16.txt.",
    "design_ref": "DESIGN.md section 5, C16",
}
