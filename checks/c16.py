"""C16 — problems point at real locations; fixes apply cleanly and keep behaviour.

Lean (lean/Verif/C16): Pos (token.File line table, position_valid), Short (shortRange /
getRange case table), Edits (apply a set of edits, order independence, length formula),
Rewrite (effectful expression semantics + first batch of rewrite rules).
Tie X: harness/cmd/c16lint drives the real lintcmd/runner in-process with every analyzer
over the corpus; every runner.Diagnostic and every suggested fix is validated by the
oracle (the statement itself, in this file and with go/parser + go/types in the harness)
and by the Lean model driver.  See notes/C16.md.
"""
import base64
import json
import os
import re
import shutil
import subprocess
import sys
import time
from concurrent.futures import ThreadPoolExecutor

import vlib

sys.path.insert(0, os.path.dirname(os.path.abspath(__file__)))

MODULES = ["Verif.C16.Theorems"]
THEOREMS = [
    "Verif.C16.position_valid",
    "Verif.C16.position_roundtrip",
    "Verif.C16.end_not_before_start",
    "Verif.C16.shortRange_within",
    "Verif.C16.getRange_within",
    "Verif.C16.apply_wellformed",
    "Verif.C16.apply_length",
    "Verif.C16.apply_sorted_eq_spec",
    "Verif.C16.rewrite_preserves",
]

VARIANTS = ["base", "crlf", "parens", "breaks", "rename"]
CHECK_ROOTS = ["simple", "staticcheck", "stylecheck", "quickfix"]


# --------------------------------------------------------------------------- corpus
def list_units(repo):
    """(name, srcdir, goversion) for every <check>/testdata/go1.N directory, plus
    GOPATH-style testdata/src/example.com trees."""
    units = []
    for root in CHECK_ROOTS:
        rd = os.path.join(repo, root)
        if not os.path.isdir(rd):
            continue
        for chk in sorted(os.listdir(rd)):
            td = os.path.join(rd, chk, "testdata")
            if not os.path.isdir(td):
                continue
            for v in sorted(os.listdir(td)):
                if re.fullmatch(r"go1\.\d+", v) and os.path.isdir(os.path.join(td, v)):
                    units.append(("%s_%s" % (chk, v), os.path.join(td, v), v[2:]))
    for extra in ["unused/testdata/src/example.com", "analysis/facts/deprecated/testdata/src/example.com",
                  "analysis/facts/purity/testdata/src/example.com", "analysis/facts/nilness/testdata/src/example.com"]:
        p = os.path.join(repo, extra)
        if os.path.isdir(p):
            units.append((extra.split("/testdata")[0].replace("/", "_"), p, "1.21"))
    return units


def plan_bundles(units):
    """Group units into modules (one `go list` per module instead of one per unit): a
    bundle is (goversion, k); the package directories of a unit are placed at the module
    root (package paths stay example.com/<pkg> as in the repository's own tests); a unit
    with a vendor directory or a clashing directory name opens a further bundle."""
    bundles = {}   # (gover, k) -> {"units": [...], "names": set()}
    for name, src, gover in units:
        entries = sorted(os.listdir(src))
        solo = "vendor" in entries
        k = 0
        while True:
            key = (gover, k)
            b = bundles.setdefault(key, {"units": [], "names": set(), "solo": False})
            if b["solo"] or (solo and b["units"]) or (b["names"] & set(entries)):
                k += 1
                continue
            b["units"].append((name, src))
            b["names"] |= set(entries)
            b["solo"] = solo
            break
    return bundles


def materialise(ctx, variantbin, variant, bundles, seed, stats):
    """Copy the bundles of one variant into the scratch dir; returns job dicts."""
    jobs = []
    lines = []
    for (gover, k), b in sorted(bundles.items()):
        d = ctx.path("corpus", variant, "go%s_%d" % (gover, k), "go.mod")
        root = os.path.dirname(d)
        with open(d, "w") as f:
            f.write("module example.com\ngo %s\n" % gover)
        for name, src in b["units"]:
            for dp, dns, fns in os.walk(src):
                rel = os.path.relpath(dp, src)
                for fn in fns:
                    if fn.endswith(".golden"):
                        continue
                    s = os.path.join(dp, fn)
                    t = os.path.normpath(os.path.join(root, rel, fn))
                    os.makedirs(os.path.dirname(t), exist_ok=True)
                    if fn.endswith(".go") and variant != "base" and "/vendor/" not in s:
                        lines.append("%s\t%d\t%s\t%s" % (variant, seed, s, t))
                    else:
                        shutil.copyfile(s, t)
        env = ["GOFLAGS=-mod=vendor"] if b["solo"] else ["GOFLAGS=-mod=mod"]
        jobs.append({"id": "%s/go%s_%d" % (variant, gover, k), "dir": root, "patterns": ["./..."], "tests": True,
                     "env": env + ["GOPROXY=off", "GO111MODULE="], "typecheck": True, "variant": variant})
    if lines:
        rc, so, se = vlib.run([variantbin], input="\n".join(lines) + "\n", env=vlib.go_env(), timeout=600)
        if rc != 0:
            raise vlib.HarnessError("c16variant failed: " + se[-2000:])
        for l in so.splitlines():
            w = l.split()
            stats[variant + ":" + (w[0] if w[0] != "same" else " ".join(w[:2]))] = stats.get(variant + ":" + (w[0] if w[0] != "same" else " ".join(w[:2])), 0) + 1
    return jobs


def run_lint_jobs(ctx, lintbin, jobs, nproc):
    """Distribute jobs over nproc c16lint processes sharing one cache; returns id->result."""
    cache = os.environ.get("C16_DEVCACHE") or os.path.dirname(ctx.path("lintcache", "x"))
    # biggest first, round robin
    order = sorted(jobs, key=lambda j: -j.get("weight", 1))
    chunks = [[] for _ in range(nproc)]
    for i, j in enumerate(order):
        chunks[i % nproc].append(j)

    def one(chunk):
        if not chunk:
            return []
        inp = "".join(json.dumps({k: v for k, v in j.items() if k not in ("variant", "weight")}) + "\n" for j in chunk)
        env = vlib.go_env({"GOMAXPROCS": str(max(4, vlib.NCPU // 2))})
        p = subprocess.run([lintbin, "-cache", cache], input=inp, stdout=subprocess.PIPE, stderr=subprocess.PIPE,
                           text=True, env=env, timeout=3000)
        if p.returncode != 0:
            raise vlib.HarnessError("c16lint failed rc=%d: %s" % (p.returncode, p.stderr[-3000:]))
        return [json.loads(l) for l in p.stdout.splitlines() if l.strip()]

    res = {}
    with ThreadPoolExecutor(max_workers=nproc) as ex:
        for outs in ex.map(one, chunks):
            for o in outs:
                res[o["id"]] = o
    return res


# --------------------------------------------------------------------------- oracle (i)-(iii)
class FileInfo:
    __slots__ = ("size", "starts", "has_line_directive", "data")

    def __init__(self, path):
        with open(path, "rb") as f:
            data = f.read()
        self.data = data
        self.size = len(data)
        st = [0]
        i = data.find(b"\n")
        while i >= 0:
            if i + 1 <= len(data):
                st.append(i + 1)
            i = data.find(b"\n", i + 1)
        # go/token: a line start is recorded after every '\n', also at EOF
        self.starts = st
        self.has_line_directive = b"//line " in data or b"/*line " in data


def line_len(fi, line):
    """Length of 1-based line `line` without its terminating newline."""
    s = fi.starts[line - 1]
    e = fi.starts[line] - 1 if line < len(fi.starts) else fi.size
    return e - s


def check_position(fi, p):
    """The statement: line and column exist in the file.  Returns '' or a reason."""
    if p["line"] < 1 or p["line"] > len(fi.starts):
        return "line %d not in file (has %d lines)" % (p["line"], len(fi.starts))
    ll = line_len(fi, p["line"])
    if p["col"] < 1 or p["col"] > ll + 1:
        return "column %d not in line %d (length %d)" % (p["col"], p["line"], ll)
    if p["off"] < 0 or p["off"] > fi.size:
        return "offset %d outside file of size %d" % (p["off"], fi.size)
    if fi.starts[p["line"] - 1] + p["col"] - 1 != p["off"]:
        return "offset %d is not line %d column %d" % (p["off"], p["line"], p["col"])
    return ""


def rel_to_corpus(ctx, path):
    c = os.path.join(ctx.scratch, "corpus") + os.sep
    return path[len(c):] if path.startswith(c) else path


class Failure:
    def __init__(self, kind, cat, job, diag, fix=None, why="", fixidx=None):
        self.kind = kind          # pos | end-file | end-before | edit-bounds | edit-overlap | edit-files | fix-parse | fix-types
        self.cat = cat
        self.job = job
        self.diag = diag
        self.fix = fix
        self.why = why
        self.fixidx = fixidx

    def new_texts(self):
        if not self.fix:
            return []
        return [base64.b64decode(e["new"] or "").decode("utf-8", "replace") for e in self.fix["edits"]]


def validate_job(ctx, job, out, files, acc):
    """Evaluate clauses (i) and (iii) of the statement on every diagnostic of one c16lint
    result.  acc: dict of counters / lists."""
    pkgfiles = {}
    pkglinedir = {}
    for p in out["pkgs"]:
        fs = set(p["files"]) | set(p["compiled"])
        pkgfiles[p["id"]] = fs
        ld = False
        for f in fs:
            fi = get_file(files, f)
            if fi is not None and fi.has_line_directive:
                ld = True
        pkglinedir[p["id"]] = ld
        acc["packages"] += 1
        if p["failed"]:
            acc["packages_failed"] += 1
            acc["failed_pkgs"].append((job["id"], p["id"], (p.get("errors") or [""])[0][:200]))
    fails = []
    for d in out["diags"]:
        acc["diagnostics"] += 1
        acc["by_cat"][d["cat"]] = acc["by_cat"].get(d["cat"], 0) + 1
        pos, end = d["pos"], d["end"]
        fs = pkgfiles.get(d["pkg"], set())
        exempt = pkglinedir.get(d["pkg"], False)
        has_end = end["line"] != 0 or end["file"] != ""
        nontrivial = has_end or bool(d.get("fixes"))
        if nontrivial:
            acc["nontrivial"].add((rel_to_corpus(ctx, pos["file"]), pos["off"], end["off"], d["cat"], d["msg"]))
        # ---- (i) positions
        if pos["file"] not in fs:
            if exempt:
                acc["exempt_line_directive"] += 1
            else:
                fails.append(Failure("pos", d["cat"], job, d, why="file %r is not a file of package %s" % (pos["file"], d["pkg"])))
            continue
        fi = get_file(files, pos["file"])
        if fi is None:
            fails.append(Failure("pos", d["cat"], job, d, why="file %r does not exist" % pos["file"]))
            continue
        if fi.has_line_directive:
            acc["exempt_line_directive"] += 1
            continue
        why = check_position(fi, pos)
        if why and exempt:
            # a //line directive in another file of the package may map positions into this
            # file (adjusted line/column, raw offset): "remapped positions aside"
            acc["exempt_line_directive"] += 1
            continue
        if why:
            fails.append(Failure("pos", d["cat"], job, d, why="start: " + why))
        acc["pos_lines"].append(("pos", pos["file"], pos["off"], pos["line"], pos["col"]))
        if has_end:
            acc["with_end"] += 1
            if end["file"] != pos["file"]:
                fails.append(Failure("end-file", d["cat"], job, d, why="end is in %r, start in %r" % (end["file"], pos["file"])))
            else:
                why = check_position(fi, end)
                if why:
                    fails.append(Failure("pos", d["cat"], job, d, why="end: " + why))
                if end["off"] < pos["off"] or (end["line"], end["col"]) < (pos["line"], pos["col"]):
                    fails.append(Failure("end-before", d["cat"], job, d, why="end %d:%d precedes start %d:%d" % (end["line"], end["col"], pos["line"], pos["col"])))
                acc["pos_lines"].append(("range", pos["file"], pos["off"], end["off"], end["line"], end["col"]))
        # ---- (iii) fixes
        for k, fx in enumerate(d.get("fixes") or []):
            acc["fixes"] += 1
            acc["fix_by_cat"][d["cat"]] = acc["fix_by_cat"].get(d["cat"], 0) + 1
            edits = fx["edits"] or []
            if not edits:
                acc["fixes_without_edits"] += 1
                continue
            efiles = set(e["pos"]["file"] for e in edits) | set(e["end"]["file"] for e in edits)
            if len(efiles) != 1:
                fails.append(Failure("edit-files", d["cat"], job, d, fx, "edits touch %s" % sorted(efiles), k))
                continue
            ef = efiles.pop()
            efi = get_file(files, ef)
            if ef not in fs or efi is None:
                fails.append(Failure("edit-files", d["cat"], job, d, fx, "edited file %r is not a file of the package" % ef, k))
                continue
            bad = False
            spans = []
            for e in edits:
                s, t = e["pos"]["off"], e["end"]["off"]
                if e["end"]["line"] == 0:      # TextEdit without End: insertion at Pos
                    t = s
                if not (0 <= s <= t <= efi.size):
                    fails.append(Failure("edit-bounds", d["cat"], job, d, fx, "edit [%d,%d) outside file of size %d" % (s, t, efi.size), k))
                    bad = True
                spans.append((s, t, len(base64.b64decode(e["new"] or ""))))
            if bad:
                continue
            ss = sorted(spans)
            for a, b in zip(ss, ss[1:]):
                if b[0] < a[1] or (a[0] == b[0] and a[1] == b[1] and a[0] == a[1] and False):
                    fails.append(Failure("edit-overlap", d["cat"], job, d, fx, "edits [%d,%d) and [%d,%d) overlap" % (a[0], a[1], b[0], b[1]), k))
                    bad = True
                    break
            acc["edit_lines"].append((efi.size, spans, (fx.get("oracle") or {}).get("newsize"), (fx.get("oracle") or {}).get("status")))
            if bad:
                continue
            o = fx.get("oracle")
            if not o:
                continue
            st = o["status"]
            acc["oracle_status"][st.split(":")[0] if st.startswith("illformed") else st] = acc["oracle_status"].get(st.split(":")[0] if st.startswith("illformed") else st, 0) + 1
            if st == "ok":
                if o.get("dropped"):
                    acc["imports_dropped"] += 1
                if o.get("added"):
                    acc["imports_added"] += 1
            elif st == "parse":
                fails.append(Failure("fix-parse", d["cat"], job, d, fx, o.get("parse_err", ""), k))
            elif st == "types":
                fails.append(Failure("fix-types", d["cat"], job, d, fx, "; ".join(o.get("errors") or []), k))
            elif st.startswith("illformed"):
                fails.append(Failure("edit-bounds", d["cat"], job, d, fx, st, k))
    return fails


def get_file(files, path):
    if path not in files:
        try:
            files[path] = FileInfo(path)
        except OSError:
            files[path] = None
    return files[path]


def snippet(files, d, ctxlines=1):
    fi = get_file(files, d["pos"]["file"])
    if fi is None or d["pos"]["line"] < 1:
        return ""
    l0 = max(1, d["pos"]["line"] - ctxlines)
    l1 = d["end"]["line"] if d["end"]["line"] >= d["pos"]["line"] else d["pos"]["line"]
    l1 = min(len(fi.starts), l1 + ctxlines, l0 + 12)
    s = fi.starts[l0 - 1]
    e = fi.starts[l1] if l1 < len(fi.starts) else fi.size
    return fi.data[s:e].decode("utf-8", "replace")


def flagged_text(files, d):
    fi = get_file(files, d["pos"]["file"])
    if fi is None:
        return ""
    e = d["end"]["off"] if d["end"]["line"] else d["pos"]["off"]
    return fi.data[d["pos"]["off"]:max(e, d["pos"]["off"])].decode("utf-8", "replace")


def new_acc():
    return {"packages": 0, "packages_failed": 0, "failed_pkgs": [], "diagnostics": 0, "by_cat": {}, "nontrivial": set(),
            "exempt_line_directive": 0, "with_end": 0, "fixes": 0, "fix_by_cat": {}, "fixes_without_edits": 0,
            "oracle_status": {}, "imports_dropped": 0, "imports_added": 0, "pos_lines": [], "edit_lines": []}


def explore(ctx):
    """development helper: run the corpus and print the failure landscape"""
    t0 = time.time()
    lintbin = os.environ.get("C16_LINTBIN") or vlib.build_harness(ctx, "c16lint")
    varbin = os.environ.get("C16_VARBIN") or vlib.build_harness(ctx, "c16variant")
    print("built", time.time() - t0)
    units = list_units(vlib.REPO)
    bundles = plan_bundles(units)
    stats = {}
    jobs = []
    variants = os.environ.get("C16_VARIANTS", "base").split(",")
    for v in variants:
        jobs += materialise(ctx, varbin, v, bundles, ctx.seed, stats)
    for j in jobs:
        j["weight"] = sum(len(fs) for _, _, fs in os.walk(j["dir"]))
    print("jobs", len(jobs), stats, time.time() - t0)
    res = run_lint_jobs(ctx, lintbin, jobs, int(os.environ.get("C16_NPROC", "4")))
    print("linted", time.time() - t0)
    files = {}
    acc = new_acc()
    allf = []
    for j in jobs:
        o = res[j["id"]]
        if o.get("error"):
            print("JOB ERROR", j["id"], o["error"][:500])
            continue
        allf += validate_job(ctx, j, o, files, acc)
    print({k: (v if not isinstance(v, (list, set)) else len(v)) for k, v in acc.items() if k not in ("by_cat", "fix_by_cat")})
    print("fix_by_cat", sorted(acc["fix_by_cat"].items()))
    for fp in acc["failed_pkgs"][:40]:
        print("FAILED PKG", fp)
    seen = set()
    for f in allf:
        key = (f.kind, f.cat, rel_to_corpus(ctx, f.diag["pos"]["file"]), f.diag["pos"]["off"], f.fixidx)
        if key in seen:
            continue
        seen.add(key)
        print("----", f.kind, f.cat, f.job["id"], rel_to_corpus(ctx, f.diag["pos"]["file"]), "%d:%d" % (f.diag["pos"]["line"], f.diag["pos"]["col"]))
        print("   why:", f.why[:300])
        print("   flagged:", repr(flagged_text(files, f.diag)[:200]))
        print("   new:", [t[:200] for t in f.new_texts()])
    print("failures", len(seen), time.time() - t0)


def run(ctx):
    if os.environ.get("C16_EXPLORE"):
        explore(ctx)
        return 0
    raise vlib.HarnessError("not finished")
