"""C14 — dominance queries are exact on every CFG the builder produces.

Lean: Verif/C14/{Dom,Model,Number,Theorems}.lean.
  Dom.lean      path-based `Dominates` (two roots: entry, recover), verified reference
                `domSets`/`domRow` (reachability after removal), exact on ALL finite graphs.
  Number.lean   `numberDomTree` transliterated; interval test = ancestor-or-self.
  Theorems.lean `domCheck_sound`: the validator accepts only dumps in which the reported
                Dominates relation is exactly path dominance and Idom / Dominees /
                DomPreorder / DomPostorder are consistent with it.
Tie: V — harness/cmd/c14dump builds IR with the real go/ir builder of the tree under test
and dumps, through the exported API only, CFG + Idom + Dominees + listing positions +
Dominates rows of every function; the compiled, proved validator runs on every dump.
X — Lean transliterations of buildDomTree (Lengauer-Tarjan, single bucket, two roots) and
numberDomTree are run on the dumped CFG and compared with the reported Idom/Dominees
(order included) and listings.
Oracle on the real code = the proved validator (reachability-after-removal semantics).
Level: translation_validation (exactness proved per produced CFG, programs sampled).
"""
import hashlib
import json
import os
import signal
import subprocess
from concurrent.futures import ThreadPoolExecutor

import vlib

MODULES = ["Verif.C14.Theorems"]
THEOREMS = [
    "Verif.C14.mem_reachAvoid",
    "Verif.C14.dom_correct",
    "Verif.C14.domSets_correct",
    "Verif.C14.domRow_correct",
    "Verif.C14.ancestor_iff_positions",
    "Verif.C14.number_spec",
    "Verif.C14.ancestor_iff_intervals",
    "Verif.C14.domCheck_sound",
    "Verif.C14.reported_iff_all_paths",
]
CORPUS = os.path.join(vlib.VERIF, "corpus", "C14")


# ----------------------------------------------------------------------- generator
class Gen:
    """Seeded generator of type-correct Go functions without imports.

    Signature of every function:
      func fN(a, b int, p, q bool, ch chan int, seq func(func(int) bool)) (r int)
    Local declarations happen only in nested scopes, labels that are goto targets only
    at the top level of the body, so no goto jumps over a declaration or into a block.
    """

    SIG = "(a, b int, p, q bool, ch chan int, seq func(func(int) bool)) (r int)"

    def __init__(self, rng):
        self.r = rng
        self.uid = 0
        self.hist = {}

    def hit(self, k):
        self.hist[k] = self.hist.get(k, 0) + 1

    def fresh(self, p):
        self.uid += 1
        return "%s%d" % (p, self.uid)

    def cond(self, d=0):
        r = self.r
        k = r.below(11)
        if k < 3:
            return "a%%%d == %d" % (r.below(5) + 2, r.below(2))
        if k < 5:
            return "b > %d" % r.below(50)
        if k == 5:
            return "p"
        if k == 6:
            return "!q"
        if k == 7 and d < 2:
            self.hit("cond&&")
            return "(%s && %s)" % (self.cond(d + 1), self.cond(d + 1))
        if k == 8 and d < 2:
            self.hit("cond||")
            return "(%s || %s)" % (self.cond(d + 1), self.cond(d + 1))
        if k == 9:
            return "g(a) < b"
        return "a < b"

    def simple(self):
        return self.r.choice([
            "a = a*3 + 1", "b += a", "p = !p", "a = g(b)", "b--", "q = a > b", "r += a",
            "a, b = b, a", "r = g(r)", "a++", "ch <- a" if self.r.chance(1, 6) else "b ^= a",
        ])

    # ctx: dict(loops=[labels or None], inloop, inswitch, gotos=[labels], budget=[n])
    def block(self, ctx, depth, ind):
        n = 1 + self.r.below(3)
        out = []
        for _ in range(n):
            if ctx["budget"][0] <= 0:
                break
            out += self.stmt(ctx, depth, ind)
        if not out:
            out = [ind + self.simple()]
        return out

    def jump(self, ctx, ind):
        """a control transfer out of the current position (may be empty list)."""
        r = self.r
        opts = []
        if ctx["inloop"]:
            opts += ["break", "continue"]
        elif ctx["inswitch"]:
            opts += ["break"]
        labs = [l for l in ctx["loops"] if l]
        if labs:
            opts += ["breakL", "continueL", "breakL", "continueL"]
        if ctx["gotos"]:
            opts += ["goto", "goto", "goto"]
        opts += ["return", "panic"]
        k = r.choice(opts)
        self.hit("jump:" + k)
        if k == "breakL":
            return [ind + "break " + r.choice(labs)]
        if k == "continueL":
            return [ind + "continue " + r.choice(labs)]
        if k == "goto":
            return [ind + "goto " + r.choice(ctx["gotos"])]
        if k == "return":
            return [ind + ("return" if (r.chance(1, 2) or not ctx.get("val")) else "return a + b")]
        if k == "panic":
            return [ind + 'panic("x")']
        return [ind + k]

    def stmt(self, ctx, depth, ind):
        r = self.r
        ctx["budget"][0] -= 1
        if depth <= 0:
            k = r.choice(["simple", "simple", "gjump"])
        else:
            k = r.choice(["simple", "simple", "simple", "if", "if", "ifelse", "ifelse", "ifchain",
                          "for", "for", "for3", "forever", "rangeint", "rangeseq", "switch", "switch",
                          "tswitch", "select", "gjump", "gjump", "gjump", "jump", "defer", "closure",
                          "block", "dead"])
        self.hit("stmt:" + k)
        i2 = ind + "\t"
        if k == "simple":
            return [ind + self.simple()]
        if k == "gjump":  # guarded jump
            return [ind + "if %s {" % self.cond()] + self.jump(ctx, i2) + [ind + "}"]
        if k == "jump":
            return self.jump(ctx, ind)
        if k == "dead":   # code after an unconditional transfer: unreachable blocks
            return self.jump(ctx, ind) + [ind + self.simple()]
        if k == "if":
            return [ind + "if %s {" % self.cond()] + self.block(ctx, depth - 1, i2) + [ind + "}"]
        if k == "ifelse":
            return ([ind + "if %s {" % self.cond()] + self.block(ctx, depth - 1, i2) + [ind + "} else {"] +
                    self.block(ctx, depth - 1, i2) + [ind + "}"])
        if k == "ifchain":
            return ([ind + "if %s {" % self.cond()] + self.block(ctx, depth - 1, i2) +
                    [ind + "} else if %s {" % self.cond()] + self.block(ctx, depth - 1, i2) +
                    [ind + "} else {"] + self.block(ctx, depth - 1, i2) + [ind + "}"])
        if k in ("for", "for3", "forever", "rangeint", "rangeseq"):
            lab = self.fresh("W")
            c2 = dict(ctx, loops=ctx["loops"] + [lab], inloop=True, inswitch=False)
            body = self.block(c2, depth - 1, i2)
            if k == "forever":
                body = body + [i2 + "if %s {" % self.cond(), i2 + "\tbreak", i2 + "}"]
            v = self.fresh("i")
            head = {"for": "for %s {" % self.cond(),
                    "for3": "for %s := 0; %s < b; %s++ {" % (v, v, v),
                    "forever": "for {",
                    "rangeint": "for %s := range b {" % v,
                    "rangeseq": "for %s := range seq {" % v}[k]
            if k in ("for3", "rangeint", "rangeseq"):
                body = [i2 + "a += " + v] + body
            text = "\n".join(body)
            used = ("break " + lab + "\n") in text + "\n" or ("continue " + lab + "\n") in text + "\n"
            pre = [ind + lab + ":"] if used else []
            if used:
                self.hit("labelled-loop")
            return pre + [ind + head] + body + [ind + "}"]
        if k == "switch":
            nc = 2 + r.below(3)
            tagless = r.chance(1, 3)
            out = [ind + ("switch {" if tagless else "switch a %% %d {" % (nc + 1))]
            c2 = dict(ctx, inswitch=True, inloop=ctx["inloop"])
            defpos = r.below(nc + 1) if r.chance(2, 3) else -1
            for ci in range(nc):
                if ci == defpos:
                    out.append(ind + "default:")
                elif tagless:
                    out.append(ind + "case %s:" % self.cond())
                else:
                    out.append(ind + "case %d:" % ci)
                # a plain `break`/`continue` inside a switch inside a loop: break leaves the switch
                out += self.block(c2, depth - 1, i2)
                if ci < nc - 1 and r.chance(1, 3):
                    self.hit("fallthrough")
                    out.append(i2 + "fallthrough")
            return out + [ind + "}"]
        if k == "tswitch":
            c2 = dict(ctx, inswitch=True)
            return ([ind + "switch any(a).(type) {", ind + "case int:"] + self.block(c2, depth - 1, i2) +
                    [ind + "case string, bool:"] + self.block(c2, depth - 1, i2) +
                    [ind + "default:"] + self.block(c2, depth - 1, i2) + [ind + "}"])
        if k == "select":
            c2 = dict(ctx, inswitch=True)
            v = self.fresh("v")
            out = [ind + "select {", ind + "case %s := <-ch:" % v, i2 + "a = " + v] + self.block(c2, depth - 1, i2)
            out += [ind + "case ch <- b:"] + self.block(c2, depth - 1, i2)
            if r.chance(1, 2):
                out += [ind + "default:"] + self.block(c2, depth - 1, i2)
            return out + [ind + "}"]
        if k == "defer":
            if r.chance(1, 2):
                return [ind + "defer func() {", i2 + "if e := recover(); e != nil {", i2 + "\tr = -1", i2 + "}", ind + "}()"]
            return [ind + "defer g(a)"]
        if k == "closure":
            c2 = dict(loops=[], inloop=False, inswitch=False, gotos=[], budget=ctx["budget"], val=False)
            return [ind + "func() {"] + self.block(c2, depth - 1, i2) + [ind + "}()"]
        if k == "block":
            return [ind + "{"] + self.block(ctx, depth - 1, i2) + [ind + "}"]
        raise AssertionError(k)

    def goto_graph(self, name):
        """arbitrary (usually irreducible) CFG built from top-level labels and gotos."""
        r = self.r
        n = 3 + r.below(r.choice([4, 8, 16, 30]))
        labs = ["L%d" % i for i in range(n)]
        segs = []
        for i in range(n):
            body = ["\t" + self.simple()] if r.chance(2, 3) else []
            t = r.below(12)
            tgt = lambda: r.choice(labs)
            if t < 3:
                body += ["\tgoto " + tgt()]
            elif t < 7:
                body += ["\tif %s {" % self.cond(), "\t\tgoto " + tgt(), "\t}", "\tgoto " + tgt()]
            elif t < 9:
                body += ["\tif %s {" % self.cond(), "\t\tgoto " + tgt(), "\t}"]          # falls into next
            elif t == 9:
                k = 2 + r.below(3)
                body += ["\tswitch a %% %d {" % (k + 1)]
                for c in range(k):
                    body += ["\tcase %d:" % c, "\t\tgoto " + tgt()]
                if r.chance(1, 2):
                    body += ["\tdefault:", "\t\tgoto " + tgt()]
                body += ["\t}"]
            elif t == 10:
                body += ["\treturn"]
            else:
                body += ['\tpanic("x")'] if r.chance(1, 2) else []
            segs.append(body)
        return self.assemble(name, labs, segs, defer=r.chance(1, 4))

    def mixed(self, name):
        """top-level labelled segments holding structured statements that goto between them."""
        r = self.r
        n = 1 + r.below(5)
        labs = ["L%d" % i for i in range(n)]
        budget = [6 + r.below(30)]
        segs = []
        for i in range(n):
            ctx = dict(loops=[], inloop=False, inswitch=False, gotos=labs if r.chance(3, 4) else [], budget=budget, val=True)
            budget[0] = max(budget[0], 3)
            segs.append(self.block(ctx, 1 + r.below(4), "\t"))
        return self.assemble(name, labs, segs, defer=r.chance(1, 5))

    def assemble(self, name, labs, segs, defer):
        text = "\n".join("\n".join(s) for s in segs) + "\n"
        out = ["func %s%s {" % (name, self.SIG)]
        if defer:
            out += ["\tdefer func() { recover() }()"]
        for lab, s in zip(labs, segs):
            if ("goto " + lab + "\n") in text:
                out.append(lab + ":")
            out += s
        out += ["\treturn r", "}"]
        return "\n".join(out)

    def file(self, nfuncs):
        fs = []
        for i in range(nfuncs):
            self.uid = 0
            name = "f%d" % i
            if self.r.chance(2, 5):
                self.hit("fn:goto")
                fs.append(self.goto_graph(name))
            else:
                self.hit("fn:mixed")
                fs.append(self.mixed(name))
        return "package p\n\nfunc g(x int) int { return x + 1 }\n\n" + "\n\n".join(fs) + "\n"


# ----------------------------------------------------------------------- dump handling
def unhex(s):
    return "" if s == "-" else bytes.fromhex(s).decode("utf-8", "replace")


def parse_dump(text):
    pkgs, funcs, cur = {}, [], None
    for line in text.splitlines():
        t = line.split(" ")
        k = t[0]
        if k == "P":
            pkgs[int(t[1])] = {"path": unhex(t[2]), "file": unhex(t[3]), "error": None}
        elif k == "X":
            pkgs[int(t[1])]["error"] = unhex(t[2])
        elif k == "F":
            kv = dict(x.split("=", 1) for x in t[4:])
            cur = {"fid": int(t[1]), "pid": int(t[2]), "name": unhex(t[3]), "n": int(kv["nblocks"]),
                   "recover": kv["recover"], "mode": kv["dom"], "blocks": {}, "rows": []}
        elif k == "B":
            cur["blocks"][int(t[2])] = dict(x.split("=", 1) for x in t[3:])
        elif k == "D":
            cur["rows"].append((int(t[2]), t[3]))
        elif k == "E":
            if cur is None or cur["fid"] != int(t[1]):
                raise vlib.HarnessError("malformed dump: E without F: " + line)
            funcs.append(cur)
            cur = None
        # unknown record kinds belong to other properties: skipped
    if cur is not None:
        raise vlib.HarnessError("truncated dump (function %s not closed)" % cur["name"])
    return pkgs, funcs


class ListingError(Exception):
    """DomPreorder / DomPostorder of the real code is not a listing of all blocks: a failure of the
    property's last clause on a concrete function, not a harness problem."""


def case_line(f):
    n, B = f["n"], f["blocks"]
    if sorted(B) != list(range(n)):
        raise vlib.HarnessError("dump of %s: block records %s for n=%d" % (f["name"], sorted(B), n))
    pre, post = [None] * n, [None] * n
    for i in range(n):
        a, b = int(B[i]["pre"]), int(B[i]["post"])
        if not (0 <= a < n and 0 <= b < n):
            raise ListingError("block %d has position pre=%d post=%d in DomPreorder/DomPostorder of a function with %d blocks" % (i, a, b, n))
        pre[a] = i
        post[b] = i
    if None in pre or None in post:
        raise ListingError("DomPreorder/DomPostorder is not a permutation of the blocks: pre=%s post=%s" % (pre, post))
    t = ["chk", str(n), f["recover"], "1" if f["mode"] == "full" else "0", "S"] + [B[i]["succs"] for i in range(n)]
    t += ["P"] + [B[i]["preds"] for i in range(n)] + ["I"] + [B[i]["idom"] for i in range(n)]
    t += ["C"] + [B[i]["dominees"] for i in range(n)]
    t += ["PRE", ",".join(map(str, pre)), "POST", ",".join(map(str, post)), "R", str(len(f["rows"]))]
    for a, bits in f["rows"]:
        t += [str(a), bits]
    return " ".join(t)


def csv(s):
    return [] if s == "-" else [int(x) for x in s.split(",")]


def shape(f):
    """(nontrivial, features) measured on the dumped CFG."""
    n, B = f["n"], f["blocks"]
    succ = [csv(B[i]["succs"]) for i in range(n)]
    preds = [csv(B[i]["preds"]) for i in range(n)]
    joins = sum(1 for p in preds if len(p) >= 2)
    rows = dict(f["rows"])
    # DFS from the entry: retreating edges (target on the DFS stack)
    color = [0] * n
    back = irr = 0
    stack = [(0, iter(succ[0]))]
    color[0] = 1
    while stack:
        u, it = stack[-1]
        adv = False
        for w in it:
            if color[w] == 0:
                color[w] = 1
                stack.append((w, iter(succ[w])))
                adv = True
                break
            if color[w] == 1:
                back += 1
                if w in rows and rows[w][u] == "0":
                    irr += 1
        if not adv:
            color[u] = 2
            stack.pop()
    feats = {"joins": joins, "retreating": back, "irreducible": irr > 0, "recover": f["recover"] != "-"}
    return (n >= 3 and (joins >= 1 or back >= 1)), feats


def bucket(n):
    for b in (1, 2, 4, 8, 16, 32, 64, 128, 256):
        if n <= b:
            return "<=%d" % b
    return ">256"


# ----------------------------------------------------------------------- the run
DOM_FRAMES = ("ir.buildDomTree", "ir.numberDomTree", "ir.(*ltState)", "ir.(*BasicBlock).Dominates",
              "ir.(*Function).DomPreorder", "ir.(*Function).DomPostorder", "ir.sanityCheckDomTree")


def in_dom_code(stack):
    return any(f in stack for f in DOM_FRAMES)


class DumpHang(Exception):
    def __init__(self, args, timeout, stacks):
        Exception.__init__(self, "c14dump %s did not finish within %ds" % (args[:3], timeout))
        self.args_, self.timeout, self.stacks = args, timeout, stacks


class Runner:
    def __init__(self, ctx, tool, full):
        self.ctx, self.tool, self.full = ctx, tool, full
        self.stats = {"functions": 0, "nontrivial": 0, "pairs": 0, "full": 0, "rows": 0, "recover": 0,
                      "irreducible": 0, "packages": 0, "skipped_packages": [], "blocks": {}, "max_blocks": 0}
        self.shapes = set()
        self.samples = []
        self.failures = []      # oracle failures (dicts)
        self.corr = []          # correspondence differences (dicts)
        self.crashes = []       # panics / hangs inside the dominance code (dicts)
        self.panics_elsewhere = []

    def dump(self, args, cwd=None, timeout=300):
        """run c14dump; a run that does not finish is asked for its goroutine stacks (SIGQUIT)
        and reported as DumpHang, so that a non-terminating dominator construction is a
        finding with a replay and not a machinery error."""
        cmd = [self.tool, "-full", str(self.full), "-seed", str(self.ctx.seed)] + args
        p = subprocess.Popen(cmd, cwd=cwd, env=vlib.go_env(), stdout=subprocess.PIPE, stderr=subprocess.PIPE, text=True)
        try:
            so, se = p.communicate(timeout=timeout)
        except subprocess.TimeoutExpired:
            p.send_signal(signal.SIGQUIT)
            try:
                so, se = p.communicate(timeout=60)
            except subprocess.TimeoutExpired:
                p.kill()
                so, se = p.communicate()
            raise DumpHang(args, timeout, se[-20000:])
        if p.returncode != 0:
            raise vlib.HarnessError("c14dump %s failed (%d): %s" % (args[:4], p.returncode, se[-2000:]))
        return so

    hung = False

    def hang(self, h, origin, sources):
        """a dump that did not finish: a finding if the stacks are inside the dominance code."""
        if not in_dom_code(h.stacks):
            raise vlib.HarnessError("%s (%s); goroutine stacks do not mention the dominance code:\n%s" % (h, origin, h.stacks[-3000:]))
        self.hung = True
        self.crashes.append({"origin": origin, "kind": "hang", "args": h.args_, "timeout_s": h.timeout,
                             "error": h.stacks[:8000], "sources": sources})

    def dump_src(self, files, origin, sources):
        try:
            return self.dump(["-src"] + list(files))
        except DumpHang as h:
            self.hang(h, origin, sources)
            return ""

    def process(self, dump_text, origin, sources=None, strict=False):
        """validate every function of a dump; sources: file -> text (for replays)."""
        pkgs, funcs = parse_dump(dump_text)
        for pid, p in pkgs.items():
            if p["error"] is not None:
                err = p["error"]
                if err.startswith("builder panic"):
                    rec = {"origin": origin, "package": p["path"], "file": p["file"], "kind": "panic",
                           "error": err[:6000], "source": (sources or {}).get(p["file"])}
                    if in_dom_code(err):
                        self.crashes.append(rec)
                    else:
                        # not C14's subject (C03: totality); the NaiveForm retry of the same file is
                        # validated normally, so wrong dominance behind the panic is still seen
                        self.panics_elsewhere.append("%s: %s" % (p["file"] or p["path"], err.splitlines()[0][:200]))
                elif strict:
                    raise vlib.HarnessError("generated/corpus program rejected (%s): %s" % (p["file"] or p["path"], err))
                else:
                    self.stats["skipped_packages"].append("%s: %s" % (p["path"], err[:120]))
        self.stats["packages"] += len(pkgs)
        if not funcs:
            return
        lines, ok_funcs = [], []
        for f in funcs:
            try:
                lines.append(case_line(f))
                ok_funcs.append(f)
            except ListingError as e:
                pk = pkgs.get(f["pid"], {})
                self.stats["functions"] += 1
                self.failures.append({"origin": origin, "package": pk.get("path"), "file": pk.get("file"), "function": f["name"],
                                      "blocks": f["n"], "recover": f["recover"], "mode": f["mode"], "driver_output": "-",
                                      "case_line": None, "clause": "listings", "details": str(e),
                                      "source": (sources or {}).get(pk.get("file"))})
        funcs = ok_funcs
        if not funcs:
            return
        outs = vlib.run_model(self.ctx, "C14", lines)
        for f, line, out in zip(funcs, lines, outs):
            if out == "bad-op":
                raise vlib.HarnessError("c14driver rejected the dump of %s (%s)" % (f["name"], origin))
            self.account(f, line, out, origin, pkgs, sources)

    def account(self, f, line, out, origin, pkgs, sources):
        st = self.stats
        st["functions"] += 1
        n = f["n"]
        st["pairs"] += len(f["rows"]) * n
        st[f["mode"]] += 1
        st["blocks"][bucket(n)] = st["blocks"].get(bucket(n), 0) + 1
        st["max_blocks"] = max(st["max_blocks"], n)
        nontriv, feats = shape(f)
        if feats["recover"]:
            st["recover"] += 1
        if feats["irreducible"]:
            st["irreducible"] += 1
        if nontriv:
            st["nontrivial"] += 1
            key = hashlib.sha256((line.split(" P ")[0]).encode()).hexdigest()[:16]
            if key not in self.shapes:
                self.shapes.add(key)
                if len(self.samples) < 6 and (len(self.shapes) % 97 == 1):
                    self.samples.append({"origin": origin, "function": f["name"], "blocks": n, "features": feats,
                                         "succs": [f["blocks"][i]["succs"] for i in range(min(n, 24))],
                                         "idom": [f["blocks"][i]["idom"] for i in range(min(n, 24))],
                                         "verdict": out})
        tok = out.split(" ")
        verdict, num, lt = tok[0], tok[1], tok[2]
        pk = pkgs.get(f["pid"], {})
        src = None
        if sources and pk.get("file") in sources:
            src = sources[pk["file"]]
        rec = {"origin": origin, "package": pk.get("path"), "file": pk.get("file"), "function": f["name"],
               "blocks": n, "recover": f["recover"], "mode": f["mode"], "driver_output": out,
               "case_line": line, "source": src}
        if verdict != "ok":
            rec["clause"] = verdict.split(":", 1)[-1]
            rec["details"] = " ".join(tok[3:])
            self.failures.append(rec)
        elif num != "num=ok" or lt != "lt=ok":
            self.corr.append(rec)


def gen_sources(ctx, nfiles, per_file, tag):
    """write generated files; returns (list of paths, {path: text}, histogram)."""
    rng = vlib.SplitMix(ctx.seed).fork("c14/" + tag)
    hist = {}
    files, texts = [], {}
    for i in range(nfiles):
        g = Gen(rng.fork("file%d" % i))
        src = g.file(per_file)
        p = ctx.path("gen", tag, "g%04d.go" % i)
        with open(p, "w") as fh:
            fh.write(src)
        files.append(p)
        texts[p] = src
        for k, v in g.hist.items():
            hist[k] = hist.get(k, 0) + v
    return files, texts, hist


def chunks(xs, k):
    return [xs[i:i + k] for i in range(0, len(xs), k)]


def replay(ctx, R):
    """re-run the function(s) of a replay file against the current tree."""
    rp = json.load(open(ctx.replay))
    cases = [c for c in ([rp.get("first")] + (rp.get("cases") or [])) if c]
    for i, c in enumerate(cases):
        srcs = {}
        if c.get("source"):
            srcs["r%d.go" % i] = c["source"]
        for k, (name, text) in enumerate(sorted((c.get("sources") or {}).items())):
            srcs["r%d_%d.go" % (i, k)] = text
        if srcs:
            paths = {}
            for name, text in srcs.items():
                p = ctx.path("replay", name)
                open(p, "w").write(text)
                paths[p] = text
            R.process(R.dump_src(sorted(paths), "replay", paths), "replay", sources=paths, strict=True)
        elif c.get("package"):
            R.process(R.dump(["-dir", vlib.REPO, "-pkgs", c["package"]], timeout=1500), "replay")
        else:
            continue
        if c.get("function"):
            # everything in the file is validated again; only the named function is reported
            R.failures = [x for x in R.failures if x["function"] == c["function"] or x.get("_kept")]
            for x in R.failures:
                x["_kept"] = True
    for x in R.failures:
        x.pop("_kept", None)


def run(ctx):
    import time
    timing = {}
    t0 = time.time()

    def lap(name):
        nonlocal t0
        timing[name] = round(time.time() - t0, 1)
        t0 = time.time()

    lean_ok, lean_broke = vlib.std_lean_phase(ctx, MODULES, THEOREMS)
    lap("lean_build_audit")
    have_driver = os.path.exists(vlib.driver_path("C14"))
    tool = vlib.build_harness(ctx, "c14dump")
    lap("go_build")
    quick = ctx.quick
    R = Runner(ctx, tool, full=128 if quick else 384)
    hist = {}

    if not have_driver:
        ctx.violation("lean_build.json", {
            "what": "the Lean validator does not build, nothing can be validated",
            "lean": lean_broke, "theorems": THEOREMS}, nofail=True)
        return vlib.finish(ctx, "translation_validation")

    def explore():
        nonlocal hist
        # 1. corpus: fixed regression programs (always first)
        corpus = sorted(os.path.join(CORPUS, f) for f in os.listdir(CORPUS) if f.endswith(".go")) if os.path.isdir(CORPUS) else []
        if corpus:
            texts = {p: open(p).read() for p in corpus}
            R.process(R.dump_src(corpus, "corpus", texts), "corpus", sources=texts, strict=True)
        # 2. go/ir's own test inputs (single files without local imports)
        td = os.path.join(vlib.REPO, "go", "ir", "testdata")
        tfiles = []
        for root, _, fs in os.walk(td):
            if os.sep + "src" + os.sep in root + os.sep:
                continue
            tfiles += [os.path.join(root, f) for f in sorted(fs) if f.endswith(".go")]
        tfiles.sort()
        if tfiles and not R.hung:
            texts = {p: open(p).read() for p in tfiles}
            R.process(R.dump_src(tfiles, "go/ir/testdata", texts), "go/ir/testdata", sources=texts)
        lap("corpus_testdata")
        if R.hung:
            return
        # 3. generated programs
        nfiles, per = (64, 50) if quick else (640, 80)
        files, texts, hist = gen_sources(ctx, nfiles, per, "main")
        groups = chunks(files, 6 if quick else 10)

        def one(group):
            r2 = Runner(ctx, tool, R.full)
            tx = {p: texts[p] for p in group}
            r2.process(r2.dump_src(group, "generated", tx), "generated", sources=tx, strict=True)
            return r2

        with ThreadPoolExecutor(max_workers=min(vlib.NCPU, 12)) as ex:
            done = list(ex.map(one, groups))
        for r2 in done:
            merge(R, r2)
        lap("generated")
        if R.hung:
            return
        # 4. real packages: the repository under test and the standard library
        if quick:
            pats = [["./go/ir", "./pattern", "./unused", "go/types", "regexp/syntax", "encoding/json", "fmt"]]
        else:
            pats = [["./..."], ["std"]]
        for pat in pats:
            try:
                so = R.dump(["-dir", vlib.REPO, "-pkgs"] + pat, timeout=1500)
            except DumpHang as h:
                R.hang(h, "packages " + " ".join(pat), None)
                return
            R.process(so, "packages " + " ".join(pat))

    if ctx.replay:
        replay(ctx, R)
    else:
        explore()

    lap("packages")
    st = R.stats
    ctx.coverage.update({
        "timing_s": timing,
        "evaluations": st["pairs"],
        "programs": st["functions"],
        "disagreements_checked": st["pairs"],
        "distinct_nontrivial": len(R.shapes),
        "rule": "a case is one built function; evaluations = ordered block pairs whose reported Dominates answer was "
                "compared with the proved reference; non-trivial = function with >= 3 blocks and >= 1 join block "
                "(>= 2 predecessors) or >= 1 retreating edge; distinct = distinct (n, recover, succs) shapes",
        "functions_validated": st["functions"], "nontrivial_functions": st["nontrivial"],
        "full_matrix_functions": st["full"], "sampled_rows_functions": st["rows"],
        "functions_with_recover_block": st["recover"], "irreducible_functions": st["irreducible"],
        "packages_or_files": st["packages"], "skipped_packages": st["skipped_packages"][:20],
        "blocks_histogram": st["blocks"], "max_blocks": st["max_blocks"],
        "generator_histogram": dict(sorted(hist.items())),
        "samples": R.samples,
        "full_matrix_threshold": R.full,
    })
    ctx.assumptions += [
        "translation validation: exactness is proved per dumped function by running the compiled validator "
        "(domCheck_sound is kernel-checked, its evaluation on a dump is compiled Lean); the quantifier over "
        "programs is sampled (generator + corpus + go/ir testdata + repository/std packages)",
        "functions with more than %d blocks: only sampled rows (and the idom chains of the sampled blocks) of the "
        "relation are validated, Idom exactness is not" % R.full,
        "harness/cmd/c14dump (exported go/ir API -> records) and the python record->case conversion are trusted",
        "buildDomTree (Lengauer-Tarjan) is tied only by correspondence (Lean transliteration compared on every dump), "
        "no theorem about LT itself is claimed",
    ]

    ctx.coverage["builder_panics_outside_dominance_code"] = R.panics_elsewhere[:10]
    if R.crashes:
        R.crashes.sort(key=lambda c: len(c.get("source") or "") or 10**9)
        first = R.crashes[0]
        ctx.violation("dom_crash.json", {
            "what": "the dominance code of go/ir (buildDomTree / numberDomTree / Dominates / DomPreorder) panics or does "
                    "not terminate on a valid program, so its queries cannot be exact",
            "how_to_replay": "write `source` (or `sources`) to files and run harness/cmd/c14dump -src <files>; "
                             "`error` holds the panic value and stack / the goroutine stacks of the hung process",
            "first": first, "count": len(R.crashes),
            "cases": [dict(c, source=None, sources=None) for c in R.crashes[1:10]],
        }, text="C14: dominance code %s on %s: %s" % (
            "hangs" if first["kind"] == "hang" else "panics", first.get("file") or first.get("args"),
            first["error"].splitlines()[0][:200] if first["error"] else ""))
    if R.failures:
        by = {}
        for x in R.failures:
            by.setdefault(x["clause"], []).append(x)
        for clause, xs in sorted(by.items()):
            xs.sort(key=lambda x: x["blocks"])
            first = xs[0]
            ctx.violation("dom_%s.json" % clause.replace("/", "_"), {
                "what": "the proved validator rejects what BasicBlock.Dominates/Idom/Dominees/DomPreorder/DomPostorder "
                        "report for a built function (clause %s)" % clause,
                "how_to_replay": "./check C14 --replay <this file>; by hand: write `source` to x.go, run "
                                 "harness/cmd/c14dump -src x.go, look at function `function`; `details` names the block "
                                 "pair, the reported answer and the reference answer (reachability after removing a)",
                "first": first, "count": len(xs),
                "cases": [dict(x, source=None) for x in xs[1:20]],
            }, text="C14: %d function(s) fail clause %s, smallest: %s in %s (%d blocks): %s" % (
                len(xs), clause, first["function"], first.get("file") or first.get("package"), first["blocks"], first["details"]))
    elif (R.corr or not lean_ok) and not R.crashes:
        first = sorted(R.corr, key=lambda x: x["blocks"])[:5]
        ctx.violation("correspondence.json", {
            "what": "the Lean transliteration of buildDomTree/numberDomTree no longer reproduces the reported "
                    "Idom/Dominees/listings (or a proof no longer checks), but the proved validator accepted every "
                    "explored function",
            "correspondence": "C14 num=/lt= stream of c14driver; theorems " + ", ".join(THEOREMS),
            "lean": lean_broke, "count": len(R.corr), "cases": first,
        }, nofail=True)
    return vlib.finish(ctx, "translation_validation")


def merge(R, r2):
    a, b = R.stats, r2.stats
    for k in ("functions", "nontrivial", "pairs", "full", "rows", "recover", "irreducible", "packages"):
        a[k] += b[k]
    a["skipped_packages"] += b["skipped_packages"]
    a["max_blocks"] = max(a["max_blocks"], b["max_blocks"])
    for k, v in b["blocks"].items():
        a["blocks"][k] = a["blocks"].get(k, 0) + v
    R.shapes |= r2.shapes
    for s in r2.samples:
        if len(R.samples) < 8:
            R.samples.append(s)
    R.failures += r2.failures
    R.corr += r2.corr
    R.crashes += r2.crashes
    R.panics_elsewhere += r2.panics_elsewhere
    R.hung = R.hung or r2.hung


META = {
    "level": "translation_validation",
    "technique": "Lean 4: path-based dominance spec with two roots, verified reference algorithm (reachability after "
                 "removal) exact on all finite graphs, proved validator run on the dump of every function built by "
                 "the real go/ir builder; Lean transliterations of buildDomTree/numberDomTree compared by correspondence",
    "text": "domSets_correct/domRow_correct: the reference relation is exactly path dominance on every finite graph. "
            "domCheck_sound: a dump accepted by the validator reports exactly path dominance for all ordered block "
            "pairs, Idom is the immediate dominator, Dominees its inverse, DomPreorder/DomPostorder are traversals of "
            "the dominator forest whose positions decide dominance. ancestor_iff_intervals: the numbering of "
            "numberDomTree makes the O(1) interval test ancestor-or-self. The validator runs on every function of the "
            "corpus, go/ir testdata, seeded generated programs (goto-built arbitrary/irreducible CFGs, loops, switch/"
            "fallthrough, labelled break/continue, select, range-over-func, defer+recover) and repository/std packages.",
    "note": "Trusted: Lean kernel (axioms propext/Classical.choice/Quot.sound), compiled c14driver, harness/cmd/c14dump, "
            "python record conversion. Quantifier over programs is sampled; LT itself is tied by correspondence only.",
    "design_ref": "DESIGN.md section 5, C14; Appendix A",
}
