"""C14 — dominance queries are exact on every CFG the builder produces.

Lean: Verif/C14/{Dom,Iter,Model,Number,Fast,Forest,Theorems,FastTheorems}.lean.
  Dom.lean      path-based `Dominates` (two roots: entry, recover), path-based reference
                `domSets`/`domRow` (reachability after removal), exact on ALL finite graphs.
  Iter.lean     PROVED EXECUTABLE ALGORITHM `domBits` (iterative data-flow on bit sets, the
                scheme of go/ir's sanityCheckDomTree) = `Dominates` on ALL finite graphs.
  Number.lean   `numberDomTree` transliterated; interval test = ancestor-or-self in any forest.
  Forest.lean   a forest whose every edge passes `D[w] = {w} ∪ D[v]` IS the dominator forest.
  Theorems.lean `domCheck_sound` (O(n^3) validator against the path-based reference).
  FastTheorems.lean `domCheckF_sound`: the any-size validator accepts only dumps in which Idom
                is the immediate dominator of every block, Dominees its inverse, the listings
                the traversals of the dominator forest, so that the O(1) interval test — and
                every dumped Dominates answer — is exactly path dominance for ALL pairs.
Tie: V — harness/cmd/c14dump builds IR with the real go/ir builder of the tree under test
and dumps, through the exported API only, CFG + Idom + Dominees + listing positions + the
COMPLETE Dominates matrix of every function (source functions and everything
irutil.AllFunctions finds); harness/cmd/c14synth feeds hand-made graphs (random, deep/large,
multi-block recover regions) to the REAL ir.buildDomTree (go:linkname, no hook).  The compiled,
proved validators run on every dump: `domCheckF` on every function of any size, `domCheck`
additionally up to a block-count threshold.
X — Lean transliterations of buildDomTree (Lengauer-Tarjan, single bucket, two roots) and
numberDomTree are run on the dumped CFG and compared with the reported Idom (exactly),
Dominees (as sets) and listings.
Oracle on the real code = the proved validators.
Level: translation_validation (exactness proved per produced CFG, programs sampled).
"""
import hashlib
import json
import os
import signal
import subprocess
from concurrent.futures import ThreadPoolExecutor

import vlib

MODULES = ["Verif.C14.Theorems", "Verif.C14.FastTheorems"]
FULL_DUMP = 6000     # the complete Dominates matrix is dumped up to this many blocks
THEOREMS = [
    "Verif.C14.domIter1_correct",
    "Verif.C14.domBits_correct",
    "Verif.C14.domBits_eq_dom",
    "Verif.C14.domBits_isSome",
    "Verif.C14.domBits_total_correct",
    "Verif.C14.forest_anc_iff_bits",
    "Verif.C14.domCheckF_sound",
    "Verif.C14.interval_iff_all_paths",
    "Verif.C14.mem_reachAvoid",
    "Verif.C14.dom_correct",
    "Verif.C14.domSets_correct",
    "Verif.C14.domRow_correct",
    "Verif.C14.ancestor_iff_positions",
    "Verif.C14.number_spec",
    "Verif.C14.ancestor_iff_intervals",
    "Verif.C14.domCheck_sound",
    "Verif.C14.reported_iff_all_paths",
]
CORPUS = os.path.join(vlib.VERIF, "corpus", "C14")


# ----------------------------------------------------------------------- generator
class Gen:
    """Seeded generator of type-correct Go functions without imports.

    Signature of every function:
      func fN(a, b int, p, q bool, ch chan int, seq func(func(int) bool)) (r int)
    Local declarations happen only in nested scopes, labels that are goto targets only
    at the top level of the body, so no goto jumps over a declaration or into a block.
    """

    SIG = "(a, b int, p, q bool, ch chan int, seq func(func(int) bool)) (r int)"

    def __init__(self, rng):
        self.r = rng
        self.uid = 0
        self.hist = {}

    def hit(self, k):
        self.hist[k] = self.hist.get(k, 0) + 1

    def fresh(self, p):
        self.uid += 1
        return "%s%d" % (p, self.uid)

    def cond(self, d=0):
        r = self.r
        k = r.below(11)
        if k < 3:
            return "a%%%d == %d" % (r.below(5) + 2, r.below(2))
        if k < 5:
            return "b > %d" % r.below(50)
        if k == 5:
            return "p"
        if k == 6:
            return "!q"
        if k == 7 and d < 2:
            self.hit("cond&&")
            return "(%s && %s)" % (self.cond(d + 1), self.cond(d + 1))
        if k == 8 and d < 2:
            self.hit("cond||")
            return "(%s || %s)" % (self.cond(d + 1), self.cond(d + 1))
        if k == 9:
            return "g(a) < b"
        return "a < b"

    def simple(self):
        return self.r.choice([
            "a = a*3 + 1", "b += a", "p = !p", "a = g(b)", "b--", "q = a > b", "r += a",
            "a, b = b, a", "r = g(r)", "a++", "ch <- a" if self.r.chance(1, 6) else "b ^= a",
        ])

    # ctx: dict(loops=[labels or None], inloop, inswitch, gotos=[labels], budget=[n])
    def block(self, ctx, depth, ind):
        n = 1 + self.r.below(3)
        out = []
        for _ in range(n):
            if ctx["budget"][0] <= 0:
                break
            out += self.stmt(ctx, depth, ind)
        if not out:
            out = [ind + self.simple()]
        return out

    def jump(self, ctx, ind):
        """a control transfer out of the current position (may be empty list)."""
        r = self.r
        opts = []
        if ctx["inloop"]:
            opts += ["break", "continue"]
        elif ctx["inswitch"]:
            opts += ["break"]
        labs = [l for l in ctx["loops"] if l]
        if labs:
            opts += ["breakL", "continueL", "breakL", "continueL"]
        if ctx["gotos"]:
            opts += ["goto", "goto", "goto"]
        opts += ["return", "panic"]
        k = r.choice(opts)
        self.hit("jump:" + k)
        if k == "breakL":
            return [ind + "break " + r.choice(labs)]
        if k == "continueL":
            return [ind + "continue " + r.choice(labs)]
        if k == "goto":
            return [ind + "goto " + r.choice(ctx["gotos"])]
        if k == "return":
            return [ind + ("return" if (r.chance(1, 2) or not ctx.get("val")) else "return a + b")]
        if k == "panic":
            return [ind + 'panic("x")']
        return [ind + k]

    def stmt(self, ctx, depth, ind):
        r = self.r
        ctx["budget"][0] -= 1
        if depth <= 0:
            k = r.choice(["simple", "simple", "gjump"])
        else:
            k = r.choice(["simple", "simple", "simple", "if", "if", "ifelse", "ifelse", "ifchain",
                          "for", "for", "for3", "forever", "rangeint", "rangeseq", "switch", "switch",
                          "tswitch", "select", "gjump", "gjump", "gjump", "jump", "defer", "closure",
                          "block", "dead"])
        self.hit("stmt:" + k)
        i2 = ind + "\t"
        if k == "simple":
            return [ind + self.simple()]
        if k == "gjump":  # guarded jump
            return [ind + "if %s {" % self.cond()] + self.jump(ctx, i2) + [ind + "}"]
        if k == "jump":
            return self.jump(ctx, ind)
        if k == "dead":   # code after an unconditional transfer: unreachable blocks
            return self.jump(ctx, ind) + [ind + self.simple()]
        if k == "if":
            return [ind + "if %s {" % self.cond()] + self.block(ctx, depth - 1, i2) + [ind + "}"]
        if k == "ifelse":
            return ([ind + "if %s {" % self.cond()] + self.block(ctx, depth - 1, i2) + [ind + "} else {"] +
                    self.block(ctx, depth - 1, i2) + [ind + "}"])
        if k == "ifchain":
            return ([ind + "if %s {" % self.cond()] + self.block(ctx, depth - 1, i2) +
                    [ind + "} else if %s {" % self.cond()] + self.block(ctx, depth - 1, i2) +
                    [ind + "} else {"] + self.block(ctx, depth - 1, i2) + [ind + "}"])
        if k in ("for", "for3", "forever", "rangeint", "rangeseq"):
            lab = self.fresh("W")
            c2 = dict(ctx, loops=ctx["loops"] + [lab], inloop=True, inswitch=False)
            body = self.block(c2, depth - 1, i2)
            if k == "forever":
                body = body + [i2 + "if %s {" % self.cond(), i2 + "\tbreak", i2 + "}"]
            v = self.fresh("i")
            head = {"for": "for %s {" % self.cond(),
                    "for3": "for %s := 0; %s < b; %s++ {" % (v, v, v),
                    "forever": "for {",
                    "rangeint": "for %s := range b {" % v,
                    "rangeseq": "for %s := range seq {" % v}[k]
            if k in ("for3", "rangeint", "rangeseq"):
                body = [i2 + "a += " + v] + body
            text = "\n".join(body)
            used = ("break " + lab + "\n") in text + "\n" or ("continue " + lab + "\n") in text + "\n"
            pre = [ind + lab + ":"] if used else []
            if used:
                self.hit("labelled-loop")
            return pre + [ind + head] + body + [ind + "}"]
        if k == "switch":
            nc = 2 + r.below(3)
            tagless = r.chance(1, 3)
            out = [ind + ("switch {" if tagless else "switch a %% %d {" % (nc + 1))]
            c2 = dict(ctx, inswitch=True, inloop=ctx["inloop"])
            defpos = r.below(nc + 1) if r.chance(2, 3) else -1
            for ci in range(nc):
                if ci == defpos:
                    out.append(ind + "default:")
                elif tagless:
                    out.append(ind + "case %s:" % self.cond())
                else:
                    out.append(ind + "case %d:" % ci)
                # a plain `break`/`continue` inside a switch inside a loop: break leaves the switch
                out += self.block(c2, depth - 1, i2)
                if ci < nc - 1 and r.chance(1, 3):
                    self.hit("fallthrough")
                    out.append(i2 + "fallthrough")
            return out + [ind + "}"]
        if k == "tswitch":
            c2 = dict(ctx, inswitch=True)
            return ([ind + "switch any(a).(type) {", ind + "case int:"] + self.block(c2, depth - 1, i2) +
                    [ind + "case string, bool:"] + self.block(c2, depth - 1, i2) +
                    [ind + "default:"] + self.block(c2, depth - 1, i2) + [ind + "}"])
        if k == "select":
            c2 = dict(ctx, inswitch=True)
            v = self.fresh("v")
            out = [ind + "select {", ind + "case %s := <-ch:" % v, i2 + "a = " + v] + self.block(c2, depth - 1, i2)
            out += [ind + "case ch <- b:"] + self.block(c2, depth - 1, i2)
            if r.chance(1, 2):
                out += [ind + "default:"] + self.block(c2, depth - 1, i2)
            return out + [ind + "}"]
        if k == "defer":
            if r.chance(1, 2):
                return [ind + "defer func() {", i2 + "if e := recover(); e != nil {", i2 + "\tr = -1", i2 + "}", ind + "}()"]
            return [ind + "defer g(a)"]
        if k == "closure":
            c2 = dict(loops=[], inloop=False, inswitch=False, gotos=[], budget=ctx["budget"], val=False)
            return [ind + "func() {"] + self.block(c2, depth - 1, i2) + [ind + "}()"]
        if k == "block":
            return [ind + "{"] + self.block(ctx, depth - 1, i2) + [ind + "}"]
        raise AssertionError(k)

    def goto_graph(self, name, n=None):
        """arbitrary (usually irreducible) CFG built from top-level labels and gotos."""
        r = self.r
        if n is None:
            n = 3 + r.below(r.choice([4, 8, 16, 30]))
        labs = ["L%d" % i for i in range(n)]
        segs = []
        for i in range(n):
            body = ["\t" + self.simple()] if r.chance(2, 3) else []
            t = r.below(12)
            tgt = lambda: r.choice(labs)
            if t < 3:
                body += ["\tgoto " + tgt()]
            elif t < 7:
                body += ["\tif %s {" % self.cond(), "\t\tgoto " + tgt(), "\t}", "\tgoto " + tgt()]
            elif t < 9:
                body += ["\tif %s {" % self.cond(), "\t\tgoto " + tgt(), "\t}"]          # falls into next
            elif t == 9:
                k = 2 + r.below(3)
                body += ["\tswitch a %% %d {" % (k + 1)]
                for c in range(k):
                    body += ["\tcase %d:" % c, "\t\tgoto " + tgt()]
                if r.chance(1, 2):
                    body += ["\tdefault:", "\t\tgoto " + tgt()]
                body += ["\t}"]
            elif t == 10:
                body += ["\treturn"]
            else:
                body += ['\tpanic("x")'] if r.chance(1, 2) else []
            segs.append(body)
        return self.assemble(name, labs, segs, defer=r.chance(1, 4))

    def mixed(self, name):
        """top-level labelled segments holding structured statements that goto between them."""
        r = self.r
        n = 1 + r.below(5)
        labs = ["L%d" % i for i in range(n)]
        budget = [6 + r.below(30)]
        segs = []
        for i in range(n):
            ctx = dict(loops=[], inloop=False, inswitch=False, gotos=labs if r.chance(3, 4) else [], budget=budget, val=True)
            budget[0] = max(budget[0], 3)
            segs.append(self.block(ctx, 1 + r.below(4), "\t"))
        return self.assemble(name, labs, segs, defer=r.chance(1, 5))

    def assemble(self, name, labs, segs, defer):
        text = "\n".join("\n".join(s) for s in segs) + "\n"
        out = ["func %s%s {" % (name, self.SIG)]
        if defer:
            out += ["\tdefer func() { recover() }()"]
        for lab, s in zip(labs, segs):
            if ("goto " + lab + "\n") in text:
                out.append(lab + ":")
            out += s
        out += ["\treturn r", "}"]
        return "\n".join(out)

    def bigfile(self, sizes):
        """functions with hundreds of labels: large CFGs through the real builder."""
        fs = []
        for i, n in enumerate(sizes):
            self.uid = 0
            self.hit("fn:biggoto")
            fs.append(self.goto_graph("big%d" % i, n))
        return "package p\n\nfunc g(x int) int { return x + 1 }\n\n" + "\n\n".join(fs) + "\n"

    def file(self, nfuncs):
        fs = []
        for i in range(nfuncs):
            self.uid = 0
            name = "f%d" % i
            if self.r.chance(2, 5):
                self.hit("fn:goto")
                fs.append(self.goto_graph(name))
            else:
                self.hit("fn:mixed")
                fs.append(self.mixed(name))
        return "package p\n\nfunc g(x int) int { return x + 1 }\n\n" + "\n\n".join(fs) + "\n"


# ----------------------------------------------------------------------- dump handling
def unhex(s):
    return "" if s == "-" else bytes.fromhex(s).decode("utf-8", "replace")


def parse_dump(text):
    pkgs, funcs, cur = {}, [], None
    for line in text.splitlines():
        t = line.split(" ")
        k = t[0]
        if k == "P":
            pkgs[int(t[1])] = {"path": unhex(t[2]), "file": unhex(t[3]), "error": None}
        elif k == "X":
            pkgs[int(t[1])]["error"] = unhex(t[2])
        elif k == "F":
            kv = dict(x.split("=", 1) for x in t[4:])
            cur = {"fid": int(t[1]), "pid": int(t[2]), "name": unhex(t[3]), "n": int(kv["nblocks"]),
                   "recover": kv["recover"], "mode": kv["dom"], "syn": kv.get("syn", "0") == "1",
                   "blocks": {}, "rows": []}
        elif k == "B":
            cur["blocks"][int(t[2])] = dict(x.split("=", 1) for x in t[3:])
        elif k == "D":
            cur["rows"].append((int(t[2]), t[3]))
        elif k == "E":
            if cur is None or cur["fid"] != int(t[1]):
                raise vlib.HarnessError("malformed dump: E without F: " + line)
            funcs.append(cur)
            cur = None
        # unknown record kinds belong to other properties: skipped
    if cur is not None:
        raise vlib.HarnessError("truncated dump (function %s not closed)" % cur["name"])
    return pkgs, funcs


class ListingError(Exception):
    """DomPreorder / DomPostorder of the real code is not a listing of all blocks: a failure of the
    property's last clause on a concrete function, not a harness problem."""


def case_line(f, ref_limit=0):
    """ref_limit: functions with a complete matrix and at most that many blocks are also compared
    with the O(n^3) path-based reference (op chk); all others only by the any-size validator."""
    n, B = f["n"], f["blocks"]
    if sorted(B) != list(range(n)):
        raise vlib.HarnessError("dump of %s: block records %s for n=%d" % (f["name"], sorted(B), n))
    pre, post = [None] * n, [None] * n
    for i in range(n):
        a, b = int(B[i]["pre"]), int(B[i]["post"])
        if not (0 <= a < n and 0 <= b < n):
            raise ListingError("block %d has position pre=%d post=%d in DomPreorder/DomPostorder of a function with %d blocks" % (i, a, b, n))
        pre[a] = i
        post[b] = i
    if None in pre or None in post:
        raise ListingError("DomPreorder/DomPostorder is not a permutation of the blocks: pre=%s post=%s" % (pre, post))
    t = ["chk" if (f["mode"] == "full" and n <= ref_limit) else "chkf", str(n), f["recover"], "1" if f["mode"] == "full" else "0", "S"] + [B[i]["succs"] for i in range(n)]
    t += ["P"] + [B[i]["preds"] for i in range(n)] + ["I"] + [B[i]["idom"] for i in range(n)]
    t += ["C"] + [B[i]["dominees"] for i in range(n)]
    t += ["PRE", ",".join(map(str, pre)), "POST", ",".join(map(str, post)), "R", str(len(f["rows"]))]
    for a, bits in f["rows"]:
        t += [str(a), bits]
    return " ".join(t)


def csv(s):
    return [] if s == "-" else [int(x) for x in s.split(",")]


def shape(f):
    """(nontrivial, features) measured on the dumped CFG."""
    n, B = f["n"], f["blocks"]
    succ = [csv(B[i]["succs"]) for i in range(n)]
    preds = [csv(B[i]["preds"]) for i in range(n)]
    joins = sum(1 for p in preds if len(p) >= 2)
    rows = dict(f["rows"])
    # DFS from the entry: retreating edges (target on the DFS stack)
    color = [0] * n
    back = irr = 0
    stack = [(0, iter(succ[0]))]
    color[0] = 1
    while stack:
        u, it = stack[-1]
        adv = False
        for w in it:
            if color[w] == 0:
                color[w] = 1
                stack.append((w, iter(succ[w])))
                adv = True
                break
            if color[w] == 1:
                back += 1
                if w in rows and rows[w][u] == "0":
                    irr += 1
        if not adv:
            color[u] = 2
            stack.pop()
    feats = {"joins": joins, "retreating": back, "irreducible": irr > 0, "recover": f["recover"] != "-"}
    return (n >= 3 and (joins >= 1 or back >= 1)), feats


def bucket(n):
    for b in (1, 2, 4, 8, 16, 32, 64, 128, 256, 512, 1024, 2048, 4096):
        if n <= b:
            return "<=%d" % b
    return ">4096"


# ----------------------------------------------------------------------- the run
DOM_FRAMES = ("ir.buildDomTree", "ir.numberDomTree", "ir.(*ltState)", "ir.(*BasicBlock).Dominates",
              "ir.(*Function).DomPreorder", "ir.(*Function).DomPostorder", "ir.sanityCheckDomTree")


def in_dom_code(stack):
    return any(f in stack for f in DOM_FRAMES)


class DumpHang(Exception):
    def __init__(self, args, timeout, stacks):
        Exception.__init__(self, "c14dump %s did not finish within %ds" % (args[:3], timeout))
        self.args_, self.timeout, self.stacks = args, timeout, stacks


class Runner:
    def __init__(self, ctx, tool, full):
        self.ctx, self.tool, self.full = ctx, tool, full     # full = threshold of the O(n^3) reference validator
        self.stats = {"functions": 0, "nontrivial": 0, "pairs": 0, "full": 0, "rows": 0, "recover": 0,
                      "irreducible": 0, "packages": 0, "skipped_packages": [], "blocks": {}, "max_blocks": 0,
                      "ref": 0, "fastonly": 0, "synfuncs": 0, "multirecover": 0, "preds_diff": 0}
        self.preds_diff = []
        self.shapes = set()
        self.samples = []
        self.failures = []      # oracle failures (dicts)
        self.corr = []          # correspondence differences (dicts)
        self.crashes = []       # panics / hangs inside the dominance code (dicts)
        self.panics_elsewhere = []

    def dump(self, args, cwd=None, timeout=300):
        """run c14dump; a run that does not finish is asked for its goroutine stacks (SIGQUIT)
        and reported as DumpHang, so that a non-terminating dominator construction is a
        finding with a replay and not a machinery error."""
        cmd = [self.tool, "-full", str(FULL_DUMP), "-seed", str(self.ctx.seed)] + args
        return self.run_tool(cmd, args, cwd, timeout)

    def run_tool(self, cmd, args, cwd=None, timeout=300):
        p = subprocess.Popen(cmd, cwd=cwd, env=vlib.go_env(), stdout=subprocess.PIPE, stderr=subprocess.PIPE, text=True)
        try:
            so, se = p.communicate(timeout=timeout)
        except subprocess.TimeoutExpired:
            p.send_signal(signal.SIGQUIT)
            try:
                so, se = p.communicate(timeout=60)
            except subprocess.TimeoutExpired:
                p.kill()
                so, se = p.communicate()
            raise DumpHang(args, timeout, se[-20000:])
        if p.returncode != 0:
            raise vlib.HarnessError("c14dump %s failed (%d): %s" % (args[:4], p.returncode, se[-2000:]))
        return so

    hung = False
    synth = None        # path of c14synth (None: does not build against this tree)

    def run_synth(self, args):
        return self.run_tool([self.synth] + list(args), list(args), timeout=600)

    def hang(self, h, origin, sources):
        """a dump that did not finish: a finding if the stacks are inside the dominance code."""
        if not in_dom_code(h.stacks):
            raise vlib.HarnessError("%s (%s); goroutine stacks do not mention the dominance code:\n%s" % (h, origin, h.stacks[-3000:]))
        self.hung = True
        self.crashes.append({"origin": origin, "kind": "hang", "args": h.args_, "timeout_s": h.timeout,
                             "error": h.stacks[:8000], "sources": sources})

    def dump_src(self, files, origin, sources):
        try:
            return self.dump(["-all", "-src"] + list(files))
        except DumpHang as h:
            self.hang(h, origin, sources)
            return ""

    def process(self, dump_text, origin, sources=None, strict=False):
        """validate every function of a dump; sources: file -> text (for replays)."""
        pkgs, funcs = parse_dump(dump_text)
        for pid, p in pkgs.items():
            if p["error"] is not None:
                err = p["error"]
                if err.startswith("builder panic"):
                    rec = {"origin": origin, "package": p["path"], "file": p["file"], "kind": "panic",
                           "error": err[:6000], "source": (sources or {}).get(p["file"])}
                    if p["path"].startswith("synthetic/"):
                        rec["synth_args"] = synth_args(self.ctx)
                    if in_dom_code(err):
                        self.crashes.append(rec)
                    else:
                        # not C14's subject (C03: totality); the NaiveForm retry of the same file is
                        # validated normally, so wrong dominance behind the panic is still seen
                        self.panics_elsewhere.append("%s: %s" % (p["file"] or p["path"], err.splitlines()[0][:200]))
                elif strict:
                    raise vlib.HarnessError("generated/corpus program rejected (%s): %s" % (p["file"] or p["path"], err))
                else:
                    self.stats["skipped_packages"].append("%s: %s" % (p["path"], err[:120]))
        self.stats["packages"] += len(pkgs)
        if not funcs:
            return
        lines, ok_funcs = [], []
        for f in funcs:
            try:
                lines.append(case_line(f, self.full))
                ok_funcs.append(f)
            except ListingError as e:
                pk = pkgs.get(f["pid"], {})
                self.stats["functions"] += 1
                self.failures.append({"origin": origin, "package": pk.get("path"), "file": pk.get("file"), "function": f["name"],
                                      "blocks": f["n"], "recover": f["recover"], "mode": f["mode"], "driver_output": "-",
                                      "case_line": None, "clause": "listings", "details": str(e),
                                      "source": (sources or {}).get(pk.get("file"))})
        funcs = ok_funcs
        if not funcs:
            return
        outs = vlib.run_model(self.ctx, "C14", lines)
        for f, line, out in zip(funcs, lines, outs):
            if out == "bad-op":
                raise vlib.HarnessError("c14driver rejected the dump of %s (%s)" % (f["name"], origin))
            self.account(f, line, out, origin, pkgs, sources)

    def account(self, f, line, out, origin, pkgs, sources):
        st = self.stats
        st["functions"] += 1
        n = f["n"]
        st["pairs"] += len(f["rows"]) * n
        st[f["mode"]] += 1
        st["blocks"][bucket(n)] = st["blocks"].get(bucket(n), 0) + 1
        st["max_blocks"] = max(st["max_blocks"], n)
        nontriv, feats = shape(f)
        if feats["recover"]:
            st["recover"] += 1
        if feats["irreducible"]:
            st["irreducible"] += 1
        if nontriv:
            st["nontrivial"] += 1
            key = hashlib.sha256((line.split(" P ")[0]).encode()).hexdigest()[:16]
            if key not in self.shapes:
                self.shapes.add(key)
                if len(self.samples) < 6 and (len(self.shapes) % 97 == 1):
                    self.samples.append({"origin": origin, "function": f["name"], "blocks": n, "features": feats,
                                         "succs": [f["blocks"][i]["succs"] for i in range(min(n, 24))],
                                         "idom": [f["blocks"][i]["idom"] for i in range(min(n, 24))],
                                         "verdict": out})
        tok = out.split(" ")
        if len(tok) < 4 or not tok[3].startswith("preds="):
            raise vlib.HarnessError("unexpected c14driver output for %s: %s" % (f["name"], out[:200]))
        verdict, num, lt, pc = tok[0], tok[1], tok[2], tok[3]
        st["ref" if line.startswith("chk ") else "fastonly"] += 1
        if f.get("syn"):
            st["synfuncs"] += 1
        if f["recover"] != "-" and (f["blocks"][int(f["recover"])]["succs"] != "-"):
            st["multirecover"] += 1
        if pc != "preds=ok":
            st["preds_diff"] += 1
            if len(self.preds_diff) < 10:
                self.preds_diff.append("%s (%s)" % (f["name"], origin))
        pk = pkgs.get(f["pid"], {})
        src = None
        if sources and pk.get("file") in sources:
            src = sources[pk["file"]]
        rec = {"origin": origin, "package": pk.get("path"), "file": pk.get("file"), "function": f["name"],
               "blocks": n, "recover": f["recover"], "mode": f["mode"], "driver_output": out,
               "case_line": line, "source": src}
        if (pk.get("path") or "").startswith("synthetic/"):
            rec["synth_args"] = synth_args(self.ctx)
            rec["graph"] = {"succs": [f["blocks"][i]["succs"] for i in range(n)] if n <= 64 else "see case_line"}
        if verdict != "ok":
            rec["clause"] = verdict.split(":", 1)[-1]
            rec["details"] = " ".join(tok[4:])
            self.failures.append(rec)
        elif num != "num=ok" or lt != "lt=ok":
            self.corr.append(rec)


def gen_sources(ctx, nfiles, per_file, tag):
    """write generated files; returns (list of paths, {path: text}, histogram)."""
    rng = vlib.SplitMix(ctx.seed).fork("c14/" + tag)
    hist = {}
    files, texts = [], {}
    for i in range(nfiles):
        g = Gen(rng.fork("file%d" % i))
        src = g.file(per_file)
        p = ctx.path("gen", tag, "g%04d.go" % i)
        with open(p, "w") as fh:
            fh.write(src)
        files.append(p)
        texts[p] = src
        for k, v in g.hist.items():
            hist[k] = hist.get(k, 0) + v
    return files, texts, hist


def synth_args(ctx):
    q = ctx.quick
    return ["-seed", str(ctx.seed), "-count", "300" if q else "2000", "-maxn", "40" if q else "64",
            "-big", "1000" if q else "2000", "-nbig", "4" if q else "5", "-full", str(FULL_DUMP)]


def chunks(xs, k):
    return [xs[i:i + k] for i in range(0, len(xs), k)]


def replay(ctx, R):
    """re-run the function(s) of a replay file against the current tree."""
    rp = json.load(open(ctx.replay))
    cases = [c for c in ([rp.get("first")] + (rp.get("cases") or [])) if c]
    for i, c in enumerate(cases):
        srcs = {}
        if c.get("source"):
            srcs["r%d.go" % i] = c["source"]
        for k, (name, text) in enumerate(sorted((c.get("sources") or {}).items())):
            srcs["r%d_%d.go" % (i, k)] = text
        if srcs:
            paths = {}
            for name, text in srcs.items():
                p = ctx.path("replay", name)
                open(p, "w").write(text)
                paths[p] = text
            R.process(R.dump_src(sorted(paths), "replay", paths), "replay", sources=paths, strict=True)
        elif c.get("package"):
            if c["package"].startswith("synthetic/"):
                if R.synth is None:
                    raise vlib.HarnessError("replay of a synthetic graph needs harness/cmd/c14synth, which does not build")
                R.process(R.run_synth(c.get("synth_args") or synth_args(ctx)), "replay")
            else:
                R.process(R.dump(["-all", "-dir", vlib.REPO, "-pkgs", c["package"]], timeout=1500), "replay")
        else:
            continue
        if c.get("function"):
            # everything in the file is validated again; only the named function is reported
            R.failures = [x for x in R.failures if x["function"] == c["function"] or x.get("_kept")]
            for x in R.failures:
                x["_kept"] = True
    for x in R.failures:
        x.pop("_kept", None)


def run(ctx):
    import time
    timing = {}
    t0 = time.time()

    def lap(name):
        nonlocal t0
        timing[name] = round(time.time() - t0, 1)
        t0 = time.time()

    lean_ok, lean_broke = vlib.std_lean_phase(ctx, MODULES, THEOREMS)
    lap("lean_build_audit")
    have_driver = os.path.exists(vlib.driver_path("C14"))
    tool = vlib.build_harness(ctx, "c14dump")
    lap("go_build")
    quick = ctx.quick
    R = Runner(ctx, tool, full=128 if quick else 384)
    synth_note = None
    try:
        Runner.synth = vlib.build_harness(ctx, "c14synth")
    except vlib.BuildError as e:
        # c14synth reaches the unexported ir.buildDomTree by name; a tree that renamed it is not wrong
        Runner.synth = None
        synth_note = "harness/cmd/c14synth does not build against this tree (stream skipped): " + str(e)[-300:]
    lap("go_build_synth")
    hist = {}

    if not have_driver:
        ctx.violation("lean_build.json", {
            "what": "the Lean validator does not build, nothing can be validated",
            "lean": lean_broke, "theorems": THEOREMS}, nofail=True)
        return vlib.finish(ctx, "translation_validation")

    def explore():
        nonlocal hist
        # 1. corpus: fixed regression programs (always first)
        corpus = sorted(os.path.join(CORPUS, f) for f in os.listdir(CORPUS) if f.endswith(".go")) if os.path.isdir(CORPUS) else []
        if corpus:
            texts = {p: open(p).read() for p in corpus}
            R.process(R.dump_src(corpus, "corpus", texts), "corpus", sources=texts, strict=True)
        # 2. go/ir's own test inputs (single files without local imports)
        td = os.path.join(vlib.REPO, "go", "ir", "testdata")
        tfiles = []
        for root, _, fs in os.walk(td):
            if os.sep + "src" + os.sep in root + os.sep:
                continue
            tfiles += [os.path.join(root, f) for f in sorted(fs) if f.endswith(".go")]
        tfiles.sort()
        if tfiles and not R.hung:
            texts = {p: open(p).read() for p in tfiles}
            R.process(R.dump_src(tfiles, "go/ir/testdata", texts), "go/ir/testdata", sources=texts)
        lap("corpus_testdata")
        if R.hung:
            return
        # 3. generated programs
        nfiles, per = (64, 50) if quick else (640, 80)
        files, texts, hist = gen_sources(ctx, nfiles, per, "main")
        groups = chunks(files, 6 if quick else 10)

        def one(group):
            r2 = Runner(ctx, tool, R.full)
            tx = {p: texts[p] for p in group}
            r2.process(r2.dump_src(group, "generated", tx), "generated", sources=tx, strict=True)
            return r2

        with ThreadPoolExecutor(max_workers=min(vlib.NCPU, 12)) as ex:
            done = list(ex.map(one, groups))
        for r2 in done:
            merge(R, r2)
        # 3b. large functions through the real builder (hundreds of labels)
        g = Gen(vlib.SplitMix(ctx.seed).fork("c14/big"))
        bsrc = g.bigfile([150, 300, 500, 800] if quick else [150, 300, 500, 800, 1200, 1600])
        bp = ctx.path("gen", "big", "big.go")
        with open(bp, "w") as fh:
            fh.write(bsrc)
        for k, v in g.hist.items():
            hist[k] = hist.get(k, 0) + v
        R.process(R.dump_src([bp], "generated-big", {bp: bsrc}), "generated-big", sources={bp: bsrc}, strict=True)
        lap("generated")
        if R.hung:
            return
        # 3c. hand-made graphs through the REAL ir.buildDomTree (go:linkname)
        if R.synth is not None:
            try:
                so = R.run_synth(synth_args(ctx))
            except DumpHang as h:
                R.hang(h, "synthetic", None)
                return
            R.process(so, "synthetic")
        lap("synthetic")
        # 4. real packages: the repository under test and the standard library
        if quick:
            pats = [["./go/ir", "./pattern", "./unused", "go/types", "regexp/syntax", "encoding/json", "fmt"]]
        else:
            pats = [["./..."], ["std"]]
        for pat in pats:
            try:
                so = R.dump(["-all", "-dir", vlib.REPO, "-pkgs"] + pat, timeout=1500)
            except DumpHang as h:
                R.hang(h, "packages " + " ".join(pat), None)
                return
            except vlib.HarnessError as e:
                # the builder runs function bodies in worker goroutines: a panic there (e.g. lifting walking a
                # wrong dominator tree) kills the whole dump.  Inside the dominance code it is a finding; if the
                # earlier streams already found failures, report those instead of a machinery error.
                if in_dom_code(str(e)):
                    R.crashes.append({"origin": "packages " + " ".join(pat), "package": " ".join(pat), "file": None,
                                      "kind": "panic", "error": str(e)[-6000:], "source": None})
                    return
                if R.failures or R.crashes:
                    ctx.coverage["package_stream_error"] = str(e)[-600:]
                    return
                raise
            R.process(so, "packages " + " ".join(pat))

    if ctx.replay:
        replay(ctx, R)
    else:
        explore()

    lap("packages")
    st = R.stats
    ctx.coverage.update({
        "timing_s": timing,
        "evaluations": st["pairs"],
        "programs": st["functions"],
        "disagreements_checked": st["pairs"],
        "distinct_nontrivial": len(R.shapes),
        "rule": "a case is one built function (or one hand-made graph given to the real buildDomTree); evaluations = "
                "ordered block pairs whose reported Dominates answer was compared with the proved dominator sets "
                "(domBits; up to the reference threshold also with the path-based reference); non-trivial = function with >= 3 blocks and >= 1 join block "
                "(>= 2 predecessors) or >= 1 retreating edge; distinct = distinct (n, recover, succs) shapes",
        "functions_validated": st["functions"], "nontrivial_functions": st["nontrivial"],
        "full_matrix_functions": st["full"], "sampled_rows_functions": st["rows"],
        "functions_with_recover_block": st["recover"], "irreducible_functions": st["irreducible"],
        "packages_or_files": st["packages"], "skipped_packages": st["skipped_packages"][:20],
        "blocks_histogram": st["blocks"], "max_blocks": st["max_blocks"],
        "generator_histogram": dict(sorted(hist.items())),
        "samples": R.samples,
        "reference_validator_threshold": R.full, "full_matrix_dump_limit": FULL_DUMP,
        "validated_by_domCheckF_and_domCheck": st["ref"], "validated_by_domCheckF_only": st["fastonly"],
        "synthetic_functions_and_graphs": st["synfuncs"],
        "recover_block_with_successors": st["multirecover"],
        "preds_succs_inconsistent_functions": st["preds_diff"], "preds_succs_inconsistent_samples": R.preds_diff,
        "synthetic_stream": synth_note or "harness/cmd/c14synth " + " ".join(synth_args(ctx)),
    })
    ctx.assumptions += [
        "translation validation: exactness is proved per dumped function by running the compiled validators "
        "(domCheckF_sound / domCheck_sound are kernel-checked, their evaluation on a dump is compiled Lean); the "
        "quantifier over programs is sampled (generator + corpus + go/ir testdata + repository/std packages + "
        "hand-made graphs)",
        "every function of any size is validated completely by domCheckF (Idom, Dominees, listings, interval test for "
        "all pairs, and every dumped Dominates answer); the complete Dominates matrix is dumped up to %d blocks, "
        "above that only sampled rows of the black-box Dominates answers are compared (no function that large "
        "occurs in the explored inputs); the O(n^3) comparison with the path-based reference (domCheck) "
        "additionally runs up to %d blocks" % (FULL_DUMP, R.full),
        "harness/cmd/c14dump (exported go/ir API -> records), harness/cmd/c14synth (hand-made ir.Function values, "
        "ir.buildDomTree reached by go:linkname) and the python record->case conversion are trusted",
        "buildDomTree (Lengauer-Tarjan) itself has no theorem; it is tied by validation of its result on every "
        "explored graph and by correspondence with the Lean transliteration ltBuild; the proved algorithm next to "
        "it is the iterative domBits",
        "the recover block the builder creates is a lone return (createRecoverBlock), so multi-block recover regions "
        "reach the real buildDomTree only through c14synth's hand-made graphs (recover root without predecessors)",
        "Preds = inverse of Succs is probed on every dump (coverage preds_succs_inconsistent_functions) but is C02's "
        "subject; the validators derive everything from Succs and need no such hypothesis",
    ]

    ctx.coverage["builder_panics_outside_dominance_code"] = R.panics_elsewhere[:10]
    # hand-made graphs with a multi-block recover region are NOT realisable by today's builder (its recover
    # block is a lone return).  A failure seen only there is a failure of the generalised algorithm, not of a
    # dominance query on a CFG the builder produces: it is reported as "no failing input found".
    def beyond(x):
        return (x.get("package") or "") == "synthetic/recover"
    beyond_only = [x for x in R.failures + R.crashes if beyond(x)]
    R.failures = [x for x in R.failures if not beyond(x)]
    R.crashes = [x for x in R.crashes if not beyond(x)]
    if beyond_only and not R.failures and not R.crashes:
        beyond_only.sort(key=lambda x: x.get("blocks") or 0)
        ctx.violation("synthetic_recover_region.json", {
            "what": "the real ir.buildDomTree gives inexact dominance (or panics) on hand-made graphs whose recover "
                    "block has successors (recover root without predecessors; blocks reachable only from it). "
                    "Today's builder emits the recover block as a lone return, so no built function shows the "
                    "failure; every function built from source was validated.",
            "how_to_replay": "./check C14 --replay <this file> (runs harness/cmd/c14synth with `synth_args`); the graph "
                             "is in `graph`/`case_line` (S = Succs per block) or in `error`",
            "correspondence": "stream synthetic/recover of harness/cmd/c14synth against domCheckF/domCheck",
            "first": beyond_only[0], "count": len(beyond_only),
            "cases": [dict(x, source=None) for x in beyond_only[1:10]],
        }, nofail=True)
        return vlib.finish(ctx, "translation_validation")
    if R.crashes:
        R.crashes.sort(key=lambda c: len(c.get("source") or "") or 10**9)
        first = R.crashes[0]
        ctx.violation("dom_crash.json", {
            "what": "the dominance code of go/ir (buildDomTree / numberDomTree / Dominates / DomPreorder) panics or does "
                    "not terminate on a valid program, so its queries cannot be exact",
            "how_to_replay": "write `source` (or `sources`) to files and run harness/cmd/c14dump -src <files>; "
                             "`error` holds the panic value and stack / the goroutine stacks of the hung process",
            "first": first, "count": len(R.crashes),
            "cases": [dict(c, source=None, sources=None) for c in R.crashes[1:10]],
        }, text="C14: dominance code %s on %s: %s" % (
            "hangs" if first["kind"] == "hang" else "panics", first.get("file") or first.get("args"),
            first["error"].splitlines()[0][:200] if first["error"] else ""))
    if R.failures:
        by = {}
        for x in R.failures:
            by.setdefault(x["clause"], []).append(x)
        for clause, xs in sorted(by.items()):
            xs.sort(key=lambda x: x["blocks"])
            first = xs[0]
            ctx.violation("dom_%s.json" % clause.replace("/", "_"), {
                "what": "the proved validator rejects what BasicBlock.Dominates/Idom/Dominees/DomPreorder/DomPostorder "
                        "report for a built function (clause %s)" % clause,
                "how_to_replay": "./check C14 --replay <this file>; by hand: write `source` to x.go, run "
                                 "harness/cmd/c14dump -src x.go, look at function `function`; `details` names the block "
                                 "pair, the reported answer and the reference answer (reachability after removing a)",
                "first": first, "count": len(xs),
                "cases": [dict(x, source=None) for x in xs[1:20]],
            }, text="C14: %d function(s) fail clause %s, smallest: %s in %s (%d blocks): %s" % (
                len(xs), clause, first["function"], first.get("file") or first.get("package"), first["blocks"], first["details"]))
    elif (R.corr or not lean_ok) and not R.crashes:
        first = sorted(R.corr, key=lambda x: x["blocks"])[:5]
        ctx.violation("correspondence.json", {
            "what": "the Lean transliteration of buildDomTree/numberDomTree no longer reproduces the reported "
                    "Idom/Dominees/listings (or a proof no longer checks), but the proved validator accepted every "
                    "explored function",
            "correspondence": "C14 num=/lt= stream of c14driver; theorems " + ", ".join(THEOREMS),
            "lean": lean_broke, "count": len(R.corr), "cases": first,
        }, nofail=True)
    return vlib.finish(ctx, "translation_validation")


def merge(R, r2):
    a, b = R.stats, r2.stats
    for k in ("functions", "nontrivial", "pairs", "full", "rows", "recover", "irreducible", "packages",
              "ref", "fastonly", "synfuncs", "multirecover", "preds_diff"):
        a[k] += b[k]
    a["skipped_packages"] += b["skipped_packages"]
    a["max_blocks"] = max(a["max_blocks"], b["max_blocks"])
    for k, v in b["blocks"].items():
        a["blocks"][k] = a["blocks"].get(k, 0) + v
    R.shapes |= r2.shapes
    for s in r2.samples:
        if len(R.samples) < 8:
            R.samples.append(s)
    R.failures += r2.failures
    R.preds_diff += r2.preds_diff
    R.corr += r2.corr
    R.crashes += r2.crashes
    R.panics_elsewhere += r2.panics_elsewhere
    R.hung = R.hung or r2.hung


META = {
    "level": "translation_validation",
    "technique": "Lean 4: path-based dominance spec with two roots; path-based reference (reachability after removal) and "
                 "a proved, total, executable iterative algorithm on bit sets (domBits), both exactly the spec on all "
                 "finite graphs; a proved any-size validator (domCheckF) run on the dump of every function built by the "
                 "real go/ir builder and on hand-made graphs given to the real ir.buildDomTree; the O(n^3) validator "
                 "against the path-based reference (domCheck) up to a block-count threshold; Lean transliterations of "
                 "buildDomTree/numberDomTree compared by (order-tolerant) correspondence",
    "text": "domBits_total_correct/domBits_eq_dom: the iterative bit-set algorithm always terminates with exactly path "
            "dominance (two-root reading) on every finite graph, and equals the path-based reference dom. "
            "forest_anc_iff_bits + ancestor_iff_positions/ancestor_iff_intervals: a forest whose every edge v->w has "
            "D[w] = {w} + D[v] is the dominator forest, and the O(1) interval test on numberDomTree's numbers decides its "
            "ancestor relation. domCheckF_sound (functions of ANY size, even without rows): an accepted dump has Idom = "
            "immediate dominator of every block, Dominees its inverse, DomPreorder/DomPostorder = pre/postorder "
            "traversals of the dominator forest, interval test on listing positions = path dominance for all ordered "
            "pairs, every dumped Dominates answer exact (all pairs when the complete matrix is dumped, which it is up to "
            "6000 blocks). domCheck_sound: the same against the path-based reference, run up to 128/384 blocks. The "
            "validators run on every function of the corpus, go/ir testdata, seeded generated programs (goto-built "
            "arbitrary/irreducible CFGs, loops, switch/fallthrough, labelled break/continue, select, range-over-func, "
            "defer+recover, functions with 150-800 labels), repository/std packages incl. wrappers, thunks, bound methods, "
            "instantiations (irutil.AllFunctions), and on hand-made graphs (random, deep, long-spine, multi-block recover "
            "regions, up to 1000/2000 blocks) passed to the real ir.buildDomTree via go:linkname.",
    "note": "Trusted: Lean kernel (axioms propext/Classical.choice/Quot.sound), compiled c14driver, harness/cmd/c14dump, "
            "harness/cmd/c14synth (hand-made ir.Function values), python record conversion. Quantifier over programs is "
            "sampled. Lengauer-Tarjan itself (ltBuild) has no theorem: it is tied by complete validation of every result "
            "and by correspondence. Multi-block recover regions are not realisable by today's builder; failures seen only "
            "there are reported as no-failing-input-found. Preds = inverse of Succs is probed, not assumed.",
    "design_ref": "DESIGN.md section 5, C14; Appendix A",
}
