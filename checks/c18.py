"""C18 — IR program build is idempotent and safe under parallel building.

Lean: Verif/C18/{Model,Lemmas,Theorems}.lean — the task protocol of go/ir/task.go and the
builders of go/ir/builder.go (iterate / markDone / wait), the mutex-guarded memo tables
(generic.instances, Program.objectMethods, Program.methodSets) and the sync.Once of
Package.Build as a labelled transition system; theorems over ALL interleavings
(wait_complete, build_complete, no_deadlock, created_once, build_idempotent, ...).

Tie X / oracle: harness/cmd/c18build loads generated multi-package programs (cross-package
generics instantiated in several packages, promoted-method wrappers, embedded interfaces,
method values, method expressions, methods of packages that were never created) and builds
them with the real go/ir serially, in parallel (repeated, GOMAXPROCS sweep), twice, from
many goroutines, per package, and through concurrent Program.MethodValue calls; every
function must be built when Build returns, dumps must agree up to value numbering, shared
functions must be unique per key.  The same harness built with -race gives the run-time
evidence the model cannot give.  The abstraction of every program (builders, functions,
references to shared functions) is run through the Lean model under seeded schedules; the
set of shared functions the model creates must equal the set go/ir created, and the task
graph a real parallel build left behind must pass the model's final-state validator.
"""
import json
import os
import sys
from concurrent.futures import ThreadPoolExecutor

sys.path.insert(0, os.path.dirname(os.path.dirname(os.path.abspath(__file__))))
import vlib

MODULES = ["Verif.C18.Theorems"]
THEOREMS = [
    "Verif.C18.wait_complete",
    "Verif.C18.build_complete",
    "Verif.C18.no_deadlock",
    "Verif.C18.created_once",
    "Verif.C18.build_idempotent",
    "Verif.C18.build_call_noop_when_finished",
    "Verif.C18.serial_idempotent",
    "Verif.C18.final_check_complete",
    "Verif.C18.checkFinal_sound",
]

# ----------------------------------------------------------------------------- generator
NUM = ["int", "int64", "float64", "string"]
LIT = {"int": "3", "int64": "int64(4)", "float64": "1.5", "string": '"s"'}


def lit(t, local=None):
    if t in LIT:
        return LIT[t]
    # local named types over int
    return "%s(7)" % t


def filler(rng, n, var="acc"):
    """n statements over an int variable `var`"""
    out = []
    for i in range(n):
        k = rng.below(5)
        if k == 0:
            out.append("%s += %d" % (var, i + 1))
        elif k == 1:
            out.append("if %s > %d { %s -= %d } else { %s++ }" % (var, i * 3, var, i + 2, var))
        elif k == 2:
            out.append("for i := 0; i < %d; i++ { %s += i }" % (2 + i % 3, var))
        elif k == 3:
            out.append("%s = %s*%d + %d" % (var, var, 2 + i % 5, i))
        else:
            out.append("switch %s %% 3 { case 0: %s++; case 1: %s--; default: %s += 2 }" % (var, var, var, var))
    return out


def gen_lib0(rng, heavy):
    s = ["package lib0", "",
         "type Num interface{ ~int | ~int64 | ~float64 | ~string }", "",
         "type Pair[K comparable, V any] struct { Key K; Val V }",
         "func (p Pair[K, V]) First() K { return p.Key }",
         "func (p *Pair[K, V]) SetVal(v V) { p.Val = v }", "",
         "type Box[T any] struct { V T; n int }",
         "func (b Box[T]) Get() T { return b.V }",
         "func (b *Box[T]) Set(v T) { b.V = v; b.n++ }",
         "func (b *Box[T]) Apply(f func(T) T) { b.Set(f(b.Get())) }",
         "func MakeBox[T any](v T) *Box[T] { return &Box[T]{V: v} }", "",
         "func Sum[T Num](xs []T) T { var s T; for _, x := range xs { s += x }; return s }",
         "func Map[T, U any](xs []T, f func(T) U) []U { r := make([]U, 0, len(xs)); for _, x := range xs { r = append(r, f(x)) }; return r }",
         "func Fold[T, A any](xs []T, a A, f func(A, T) A) A { for _, x := range xs { a = f(a, x) }; return a }",
         "func Twice[T Num](x T) T { return Sum([]T{x, x}) }",
         "func Thrice[T Num](x T) T { return Twice(x) + x }",
         "func Ping[T Num](x T, n int) T { if n <= 0 { return x }; return Pong(x+x, n-1) }",
         "func Pong[T Num](x T, n int) T { if n <= 0 { return x }; return Ping(x, n-1) }",
         "func Count[T Num](xs []T) int { return Fold(xs, 0, func(a int, _ T) int { return a + 1 }) }",
         ""]
    for h in range(heavy):
        n = 20 + rng.below(120)
        s.append("func Heavy%d[T Num](x T, acc int) (T, int) {" % h)
        s += ["\t" + l for l in filler(rng, n)]
        nxt = ["Twice(x)", "Thrice(x)", "Ping(x, 2)", "Sum([]T{x})"]
        if h > 0:
            nxt.append("first(Heavy%d(x, acc))" % rng.below(h))
        s.append("\treturn %s, acc" % rng.choice(nxt))
        s.append("}")
    s.append("func first[T any](a T, _ int) T { return a }")
    return "\n".join(s) + "\n"


LIB1 = """package lib1

import "m/lib0"

func Total[T lib0.Num](b *lib0.Box[T], xs []T) T { b.Set(lib0.Sum(xs)); return lib0.Twice(b.Get()) }

func Keys[K comparable, V any](ps []lib0.Pair[K, V]) []K {
	return lib0.Map(ps, func(p lib0.Pair[K, V]) K { return p.First() })
}

func Wrap[T lib0.Num](x T) func() T { b := lib0.MakeBox(x); return b.Get }

type Shape interface { Area() int; Name() string }
type Named interface { Shape; ID() int }

type Base struct{ N int }
func (b Base) Area() int { return b.N * b.N }
func (b Base) Name() string { return "base" }
func (b *Base) Grow(k int) { b.N += k }

type Sq struct { Base; W int }
func (s Sq) ID() int { return s.W }

type PSq struct { *Sq; Tag string }

type Multi struct { Shape; Named2 Named }

func Describe(s Shape) string { return s.Name() }
func Areas(ss ...Shape) int { t := 0; for _, s := range ss { t += s.Area() }; return t }

var Default = Sq{Base: Base{N: 2}, W: 1}
var total = lib0.Sum([]int{1, 2, 3})
"""

HID = """package hid

type H struct{ X int }
func (h H) Do() int { return h.X + 1 }
func (h *H) Inc() { h.X++ }
type G[T any] struct{ V T }
func (g G[T]) Val() T { return g.V }
func (g *G[T]) Put(v T) { g.V = v }
type E struct{ H }
"""

EXT = """package ext

import "m/hid"

func NewH(x int) hid.H { return hid.H{X: x} }
func NewE(x int) hid.E { return hid.E{H: hid.H{X: x}} }
func NewG[T any](v T) hid.G[T] { return hid.G[T]{V: v} }
func Plain(x int) int { return x + 1 }
type Ext struct{ K int }
func (e Ext) Get() int { return e.K }
func (e *Ext) Put(k int) { e.K = k }
"""


class UserGen:
    """one user package: functions made of use-snippets"""

    def __init__(self, rng, name, with_ext, local_types):
        self.rng = rng
        self.name = name
        self.with_ext = with_ext
        self.local_types = local_types
        self.n = 0
        self.used_ext = False
        self.used_lib1 = False
        self.hist = {}

    def v(self, p="v"):
        self.n += 1
        return "%s%d" % (p, self.n)

    def ty(self):
        ts = NUM + self.local_types
        return self.rng.choice(ts)

    def snippet(self, heavy):
        r = self.rng
        T = self.ty()
        x = lit(T)
        kinds = ["sum", "map", "box", "boxmv", "boxme", "ping", "total", "keys", "embed", "psq", "iface", "any",
                 "defer", "heavy", "local", "wrap", "count", "closure"]
        if self.with_ext:
            kinds += ["ext", "extg"]
        k = r.choice(kinds)
        if k == "heavy" and heavy == 0:
            k = "sum"
        self.hist[k] = self.hist.get(k, 0) + 1
        a, b, c, d = self.v(), self.v(), self.v(), self.v()
        if k == "sum":
            return ["%s := lib0.Sum([]%s{%s, %s})" % (a, T, x, x), "_ = %s" % a]
        if k == "map":
            if r.chance(1, 2):
                return ["%s := lib0.Map([]%s{%s}, func(x %s) %s { return x + x })" % (a, T, x, T, T), "_ = %s" % a]
            return ["%s := lib0.Map([]%s{%s}, func(x %s) int { return 1 })" % (a, T, x, T), "_ = lib0.Count(%s)" % a]
        if k == "box":
            return ["%s := lib0.MakeBox(%s)" % (a, x), "%s.Set(%s)" % (a, x), "_ = %s.Get()" % a,
                    "%s.Apply(func(y %s) %s { return y + y })" % (a, T, T)]
        if k == "boxmv":
            return ["%s := lib0.MakeBox(%s)" % (a, x), "%s := %s.Get" % (b, a), "_ = %s()" % b,
                    "%s := %s.Set" % (c, a), "%s(%s)" % (c, x)]
        if k == "boxme":
            return ["%s := lib0.MakeBox(%s)" % (a, x), "%s := (*lib0.Box[%s]).Set" % (b, T), "%s(%s, %s)" % (b, a, x),
                    "%s := lib0.Box[%s].Get" % (c, T), "_ = %s(*%s)" % (c, a)]
        if k == "ping":
            return ["_ = lib0.%s(%s, %d)" % (r.choice(["Ping", "Pong"]), x, 1 + r.below(4)),
                    "_ = lib0.%s(%s)" % (r.choice(["Twice", "Thrice"]), x)]
        if k == "total":
            self.used_lib1 = True
            return ["_ = lib1.Total(lib0.MakeBox(%s), []%s{%s})" % (x, T, x)]
        if k == "keys":
            self.used_lib1 = True
            return ["%s := []lib0.Pair[%s, int]{{Key: %s, Val: 1}}" % (a, T, x), "_ = lib1.Keys(%s)" % a,
                    "%s[0].SetVal(2)" % a, "_ = %s[0].First()" % a]
        if k == "embed":
            self.used_lib1 = True
            return ["%s := lib1.Sq{Base: lib1.Base{N: 2}, W: 3}" % a, "_ = %s.Area()" % a, "%s.Grow(1)" % a,
                    "%s := %s.Area" % (b, a), "_ = %s()" % b, "%s := %s.Grow" % (c, a), "%s(2)" % c,
                    "%s := lib1.Sq.Area" % d, "_ = %s(%s)" % (d, a),
                    "%sk := (*lib1.Sq).Grow" % d, "%sk(&%s, 1)" % (d, a),
                    "%sn := (*lib1.Sq).Name" % d, "_ = %sn(&%s)" % (d, a)]
        if k == "psq":
            self.used_lib1 = True
            return ["%s := lib1.PSq{Sq: &lib1.Sq{W: 4}}" % a, "_ = %s.Name()" % a, "var %s lib1.Named = %s" % (b, a),
                    "_ = %s.ID()" % b, "%s := %s.Area" % (c, b), "_ = %s()" % c,
                    "%s := lib1.Named.ID" % d, "_ = %s(%s)" % (d, b), "%sg := %s.Grow" % (d, a), "%sg(1)" % d,
                    "%sp := lib1.PSq.Area" % d, "_ = %sp(%s)" % (d, a)]
        if k == "iface":
            self.used_lib1 = True
            return ["var %s lib1.Shape = lib1.Default" % a, "_ = lib1.Describe(%s)" % a,
                    "_ = lib1.Areas(%s, lib1.Base{N: 1}, &lib1.Sq{})" % a,
                    "%s := lib1.Multi{Shape: %s}" % (b, a), "_ = %s.Area()" % b, "%s := %s.Name" % (c, b), "_ = %s()" % c,
                    "%s := lib1.Shape.Area" % d, "_ = %s(%s)" % (d, a)]
        if k == "any":
            return ["var %s any = lib0.MakeBox(%s)" % (a, x), "_ = %s" % a,
                    "var %s interface{ Get() %s } = lib0.MakeBox(%s)" % (b, T, x), "_ = %s.Get()" % b]
        if k == "defer":
            self.used_lib1 = True
            return ["%s := lib0.MakeBox(%s)" % (a, x), "defer %s.Set(%s)" % (a, x),
                    "%s := &lib1.Sq{}" % b, "go %s.Grow(1)" % b]
        if k == "heavy":
            return ["%s, %s := lib0.Heavy%d(%s, %d)" % (a, b, r.below(heavy), x, r.below(9)), "_, _ = %s, %s" % (a, b)]
        if k == "local":
            return ["_ = locTwice(%s)" % x, "_ = locBox(%s).Get()" % x]
        if k == "wrap":
            self.used_lib1 = True
            return ["%s := lib1.Wrap(%s)" % (a, x), "_ = %s()" % a]
        if k == "count":
            return ["_ = lib0.Count([]%s{%s, %s})" % (T, x, x), "_ = lib0.Fold([]%s{%s}, %s, func(a, b %s) %s { return a + b })" % (T, x, x, T, T)]
        if k == "closure":
            return ["%s := func(y %s) %s { return lib0.Twice(y) }" % (a, T, T), "_ = %s(%s)" % (a, x),
                    "%s := func() func() %s { %s := lib0.MakeBox(%s); return %s.Get }" % (b, T, c, x, c), "_ = %s()()" % b]
        if k == "ext":
            self.used_ext = True
            return ["%s := ext.NewH(1)" % a, "_ = %s.Do()" % a, "%s.Inc()" % a, "%s := %s.Do" % (b, a), "_ = %s()" % b,
                    "%s := ext.NewE(2)" % c, "_ = %s.Do()" % c, "%s.Inc()" % c, "%s := %s.Inc" % (d, c), "%s()" % d,
                    "%se := ext.Ext{K: 1}" % d, "_ = %se.Get()" % d, "%se.Put(ext.Plain(2))" % d]
        if k == "extg":
            self.used_ext = True
            return ["%s := ext.NewG(%s)" % (a, x), "_ = %s.Val()" % a, "%s.Put(%s)" % (a, x), "%s := %s.Val" % (b, a), "_ = %s()" % b]
        raise AssertionError(k)

    def source(self, nfuncs, nsnip, heavy):
        body = []
        for f in range(nfuncs):
            body.append("func F%d() {" % f)
            for _ in range(1 + self.rng.below(nsnip)):
                body += ["\t" + l for l in self.snippet(heavy)]
            body.append("}")
            body.append("")
        # a method on a local type using generics, and a global initialiser
        body.append("type Loc struct{ b *lib0.Box[int] }")
        body.append("func (l Loc) Val() int { return l.b.Get() + lib0.Twice(1) }")
        body.append("func (l *Loc) Bump() { l.b.Set(l.Val()) }")
        body.append("var glob = lib0.Sum([]%s{%s})" % ("float64", "2.5"))
        body.append("func init() { _ = lib0.Thrice(%s) }" % lit(self.rng.choice(NUM)))
        body.append("func locTwice[T lib0.Num](x T) T { return lib0.Twice(x) }")
        body.append("func locBox[T lib0.Num](x T) *lib0.Box[T] { b := lib0.MakeBox(x); b.Apply(func(y T) T { return lib0.Thrice(y) }); return b }")
        for t in self.local_types:
            body.append("type %s int" % t)
        imports = ['"m/lib0"']
        if self.used_lib1:
            imports.append('"m/lib1"')
        if self.used_ext:
            imports.append('"m/ext"')
        return "package %s\n\nimport (\n\t%s\n)\n\n%s\n" % (self.name, "\n\t".join(imports), "\n".join(body))


def gen_program(rng, name, size):
    """size: 0 small .. 2 large"""
    heavy = [0, 2, 4][size] + rng.below(3)
    nusers = [2, 4, 8][size] + rng.below(3)
    with_ext = rng.chance(2, 3)
    pkgs = [
        {"path": "m/lib0", "kind": "syntax", "files": [{"name": "lib0.go", "src": gen_lib0(rng, heavy)}]},
        {"path": "m/lib1", "kind": "syntax", "files": [{"name": "lib1.go", "src": LIB1}]},
    ]
    if with_ext:
        pkgs.append({"path": "m/hid", "kind": "hidden", "files": [{"name": "hid.go", "src": HID}]})
        pkgs.append({"path": "m/ext", "kind": "types", "files": [{"name": "ext.go", "src": EXT}]})
    hist = {}
    for u in range(nusers):
        nm = "u%d" % u
        locals_ = ["My%d" % u] if rng.chance(1, 2) else []
        g = UserGen(rng, nm, with_ext, locals_)
        src = g.source(1 + rng.below([3, 5, 8][size]), [3, 5, 6][size], heavy)
        for k, v in g.hist.items():
            hist[k] = hist.get(k, 0) + v
        pkgs.append({"path": "m/" + nm, "kind": "syntax", "files": [{"name": nm + ".go", "src": src}]})
    return {"name": name, "pkgs": pkgs}, hist


def gen_programs(seed, counts):
    rng = vlib.SplitMix(seed).fork("c18-programs")
    out = []
    hist = {}
    for size, n in enumerate(counts):
        for i in range(n):
            p, h = gen_program(rng.fork("p%d/%d" % (size, i)), "s%d_g%d_%d" % (seed, size, i), size)
            out.append(p)
            for k, v in h.items():
                hist[k] = hist.get(k, 0) + v
    return out, hist


if __name__ == "__main__":
    progs, hist = gen_programs(int(sys.argv[1]), [int(x) for x in sys.argv[2].split(",")])
    json.dump(progs, sys.stdout)
