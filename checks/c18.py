"""C18 — IR program build is idempotent and safe under parallel building.

Lean: Verif/C18/{Model,Basic,Lemmas,Theorems,Termination}.lean — the build protocol of go/ir
(task.go: addEdge / markDone / wait; builder.go: iterate / buildFunction / waitForSharedFunction,
Program.Build with the cpuLimit semaphore, Package.Build = sync.Once; the mutex-guarded memo
tables generic.instances, Program.objectMethods, Program.methodSets; Program.MethodValue) as a
labelled transition system `Trans`; invariants proved by induction over ALL interleavings.

Ties (checked on every run against the current tree):
  trace  every protocol action of a real traced parallel build (go/ir verif hook: builder start,
         enqueue, shared-function lookup, buildFunction, markDone, every step of task.wait), in the
         order the actions took effect, must be exactly the step the compiled model takes for that
         builder in that state (`step_sound`: every accepted step is a transition of the LTS);
  run    the abstraction of every program (builders, functions, references to shared functions,
         read off the real built program) is executed by the model under seeded schedules and
         capacities; the shared functions it creates must be the ones go/ir created;
  final  the task graph every real parallel build leaves behind passes the proved validator.
Oracle (the property on the real code): harness/cmd/c18build builds generated multi-package
programs (cross-package generics, promoted-method wrappers, embedded interfaces, method values and
expressions, on-demand methods of packages never created) serially, in parallel (repeated,
GOMAXPROCS sweep, seeded yields), twice, from many goroutines, per package, and through concurrent
Program.MethodValue; every function must be built when Build returns, dumps must agree up to value
numbering, shared functions must be unique per key; the same harness built with -race gives the
run-time evidence the model cannot give.
"""
import json
import os
import sys
import time
from concurrent.futures import ThreadPoolExecutor

sys.path.insert(0, os.path.dirname(os.path.dirname(os.path.abspath(__file__))))
import vlib

MODULES = ["Verif.C18.Theorems", "Verif.C18.Termination", "Verif.C18.Refine"]
THEOREMS = [
    "Verif.C18.created_once",
    "Verif.C18.built_once",
    "Verif.C18.no_panic",
    "Verif.C18.wait_complete",
    "Verif.C18.build_complete",
    "Verif.C18.program_build_complete",
    "Verif.C18.final_functions",
    "Verif.C18.schedule_independent",
    "Verif.C18.no_deadlock",
    "Verif.C18.blocked_on_active_builder",
    "Verif.C18.build_call_noop",
    "Verif.C18.build_idempotent",
    "Verif.C18.step_sound",
    "Verif.C18.step_exact",
    "Verif.C18.step_enabled",
    "Verif.C18.checkFinal_sound",
    "Verif.C18.final_check_complete",
    "Verif.C18.mu_decreases",
    "Verif.C18.build_terminates",
    "Verif.C18.build_returns",
    "Verif.C18.traceLoop_reachable",
    "Verif.C18.accepted_trace_complete",
]

# ----------------------------------------------------------------------------- generator
NUM = ["int", "int64", "float64", "string"]
LIT = {"int": "3", "int64": "int64(4)", "float64": "1.5", "string": '"s"'}


def lit(t, local=None):
    if t in LIT:
        return LIT[t]
    # local named types over int
    return "%s(7)" % t


def filler(rng, n, var="acc"):
    """n statements over an int variable `var`"""
    out = []
    for i in range(n):
        k = rng.below(5)
        if k == 0:
            out.append("%s += %d" % (var, i + 1))
        elif k == 1:
            out.append("if %s > %d { %s -= %d } else { %s++ }" % (var, i * 3, var, i + 2, var))
        elif k == 2:
            out.append("for i := 0; i < %d; i++ { %s += i }" % (2 + i % 3, var))
        elif k == 3:
            out.append("%s = %s*%d + %d" % (var, var, 2 + i % 5, i))
        else:
            out.append("switch %s %% 3 { case 0: %s++; case 1: %s--; default: %s += 2 }" % (var, var, var, var))
    return out


def gen_lib0(rng, heavy):
    s = ["package lib0", "",
         "type Num interface{ ~int | ~int64 | ~float64 | ~string }", "",
         "type Pair[K comparable, V any] struct { Key K; Val V }",
         "func (p Pair[K, V]) First() K { return p.Key }",
         "func (p *Pair[K, V]) SetVal(v V) { p.Val = v }", "",
         "type Box[T any] struct { V T; n int }",
         "func (b Box[T]) Get() T { return b.V }",
         "func (b *Box[T]) Set(v T) { b.V = v; b.n++ }",
         "func (b *Box[T]) Apply(f func(T) T) { b.Set(f(b.Get())) }",
         "func MakeBox[T any](v T) *Box[T] { return &Box[T]{V: v} }", "",
         "func Sum[T Num](xs []T) T { var s T; for _, x := range xs { s += x }; return s }",
         "func Map[T, U any](xs []T, f func(T) U) []U { r := make([]U, 0, len(xs)); for _, x := range xs { r = append(r, f(x)) }; return r }",
         "func Fold[T, A any](xs []T, a A, f func(A, T) A) A { for _, x := range xs { a = f(a, x) }; return a }",
         "func Twice[T Num](x T) T { return Sum([]T{x, x}) }",
         "func Thrice[T Num](x T) T { return Twice(x) + x }",
         "func Ping[T Num](x T, n int) T { if n <= 0 { return x }; return Pong(x+x, n-1) }",
         "func Pong[T Num](x T, n int) T { if n <= 0 { return x }; return Ping(x, n-1) }",
         "func Count[T Num](xs []T) int { return Fold(xs, 0, func(a int, _ T) int { return a + 1 }) }",
         ""]
    for h in range(heavy):
        n = 20 + rng.below(120)
        s.append("func Heavy%d[T Num](x T, acc int) (T, int) {" % h)
        s += ["\t" + l for l in filler(rng, n)]
        nxt = ["Twice(x)", "Thrice(x)", "Ping(x, 2)", "Sum([]T{x})"]
        if h > 0:
            nxt.append("first(Heavy%d(x, acc))" % rng.below(h))
        s.append("\treturn %s, acc" % rng.choice(nxt))
        s.append("}")
    s.append("func first[T any](a T, _ int) T { return a }")
    return "\n".join(s) + "\n"


LIB1 = """package lib1

import "m/lib0"

func Total[T lib0.Num](b *lib0.Box[T], xs []T) T { b.Set(lib0.Sum(xs)); return lib0.Twice(b.Get()) }

func Keys[K comparable, V any](ps []lib0.Pair[K, V]) []K {
	return lib0.Map(ps, func(p lib0.Pair[K, V]) K { return p.First() })
}

func Wrap[T lib0.Num](x T) func() T { b := lib0.MakeBox(x); return b.Get }

type Shape interface { Area() int; Name() string }
type Named interface { Shape; ID() int }

type Base struct{ N int }
func (b Base) Area() int { return b.N * b.N }
func (b Base) Name() string { return "base" }
func (b *Base) Grow(k int) { b.N += k }

type Sq struct { Base; W int }
func (s Sq) ID() int { return s.W }

type PSq struct { *Sq; Tag string }

type Multi struct { Shape; Named2 Named }

func Describe(s Shape) string { return s.Name() }
func Areas(ss ...Shape) int { t := 0; for _, s := range ss { t += s.Area() }; return t }

var Default = Sq{Base: Base{N: 2}, W: 1}
var total = lib0.Sum([]int{1, 2, 3})
"""

HID = """package hid

type H struct{ X int }
func (h H) Do() int { return h.X + 1 }
func (h *H) Inc() { h.X++ }
type G[T any] struct{ V T }
func (g G[T]) Val() T { return g.V }
func (g *G[T]) Put(v T) { g.V = v }
type E struct{ H }
"""

EXT = """package ext

import "m/hid"

func NewH(x int) hid.H { return hid.H{X: x} }
func NewE(x int) hid.E { return hid.E{H: hid.H{X: x}} }
func NewG[T any](v T) hid.G[T] { return hid.G[T]{V: v} }
func Plain(x int) int { return x + 1 }
type Ext struct{ K int }
func (e Ext) Get() int { return e.K }
func (e *Ext) Put(k int) { e.K = k }
"""


class UserGen:
    """one user package: functions made of use-snippets"""

    def __init__(self, rng, name, with_ext, local_types):
        self.rng = rng
        self.name = name
        self.with_ext = with_ext
        self.local_types = local_types
        self.n = 0
        self.used_ext = False
        self.used_lib1 = False
        self.hist = {}

    def v(self, p="v"):
        self.n += 1
        return "%s%d" % (p, self.n)

    def ty(self):
        ts = NUM + self.local_types
        return self.rng.choice(ts)

    def snippet(self, heavy):
        r = self.rng
        T = self.ty()
        x = lit(T)
        kinds = ["sum", "map", "box", "boxmv", "boxme", "ping", "total", "keys", "embed", "psq", "iface", "any",
                 "defer", "heavy", "local", "wrap", "count", "closure"]
        if self.with_ext:
            kinds += ["ext", "extg"]
        k = r.choice(kinds)
        if k == "heavy" and heavy == 0:
            k = "sum"
        self.hist[k] = self.hist.get(k, 0) + 1
        a, b, c, d = self.v(), self.v(), self.v(), self.v()
        if k == "sum":
            return ["%s := lib0.Sum([]%s{%s, %s})" % (a, T, x, x), "_ = %s" % a]
        if k == "map":
            if r.chance(1, 2):
                return ["%s := lib0.Map([]%s{%s}, func(x %s) %s { return x + x })" % (a, T, x, T, T), "_ = %s" % a]
            return ["%s := lib0.Map([]%s{%s}, func(x %s) int { return 1 })" % (a, T, x, T), "_ = lib0.Count(%s)" % a]
        if k == "box":
            return ["%s := lib0.MakeBox(%s)" % (a, x), "%s.Set(%s)" % (a, x), "_ = %s.Get()" % a,
                    "%s.Apply(func(y %s) %s { return y + y })" % (a, T, T)]
        if k == "boxmv":
            return ["%s := lib0.MakeBox(%s)" % (a, x), "%s := %s.Get" % (b, a), "_ = %s()" % b,
                    "%s := %s.Set" % (c, a), "%s(%s)" % (c, x)]
        if k == "boxme":
            return ["%s := lib0.MakeBox(%s)" % (a, x), "%s := (*lib0.Box[%s]).Set" % (b, T), "%s(%s, %s)" % (b, a, x),
                    "%s := lib0.Box[%s].Get" % (c, T), "_ = %s(*%s)" % (c, a)]
        if k == "ping":
            return ["_ = lib0.%s(%s, %d)" % (r.choice(["Ping", "Pong"]), x, 1 + r.below(4)),
                    "_ = lib0.%s(%s)" % (r.choice(["Twice", "Thrice"]), x)]
        if k == "total":
            self.used_lib1 = True
            return ["_ = lib1.Total(lib0.MakeBox(%s), []%s{%s})" % (x, T, x)]
        if k == "keys":
            self.used_lib1 = True
            return ["%s := []lib0.Pair[%s, int]{{Key: %s, Val: 1}}" % (a, T, x), "_ = lib1.Keys(%s)" % a,
                    "%s[0].SetVal(2)" % a, "_ = %s[0].First()" % a]
        if k == "embed":
            self.used_lib1 = True
            return ["%s := lib1.Sq{Base: lib1.Base{N: 2}, W: 3}" % a, "_ = %s.Area()" % a, "%s.Grow(1)" % a,
                    "%s := %s.Area" % (b, a), "_ = %s()" % b, "%s := %s.Grow" % (c, a), "%s(2)" % c,
                    "%s := lib1.Sq.Area" % d, "_ = %s(%s)" % (d, a),
                    "%sk := (*lib1.Sq).Grow" % d, "%sk(&%s, 1)" % (d, a),
                    "%sn := (*lib1.Sq).Name" % d, "_ = %sn(&%s)" % (d, a)]
        if k == "psq":
            self.used_lib1 = True
            return ["%s := lib1.PSq{Sq: &lib1.Sq{W: 4}}" % a, "_ = %s.Name()" % a, "var %s lib1.Named = %s" % (b, a),
                    "_ = %s.ID()" % b, "%s := %s.Area" % (c, b), "_ = %s()" % c,
                    "%s := lib1.Named.ID" % d, "_ = %s(%s)" % (d, b), "%sg := %s.Grow" % (d, a), "%sg(1)" % d,
                    "%sp := lib1.PSq.Area" % d, "_ = %sp(%s)" % (d, a)]
        if k == "iface":
            self.used_lib1 = True
            return ["var %s lib1.Shape = lib1.Default" % a, "_ = lib1.Describe(%s)" % a,
                    "_ = lib1.Areas(%s, lib1.Base{N: 1}, &lib1.Sq{})" % a,
                    "%s := lib1.Multi{Shape: %s}" % (b, a), "_ = %s.Area()" % b, "%s := %s.Name" % (c, b), "_ = %s()" % c,
                    "%s := lib1.Shape.Area" % d, "_ = %s(%s)" % (d, a)]
        if k == "any":
            return ["var %s any = lib0.MakeBox(%s)" % (a, x), "_ = %s" % a,
                    "var %s interface{ Get() %s } = lib0.MakeBox(%s)" % (b, T, x), "_ = %s.Get()" % b]
        if k == "defer":
            self.used_lib1 = True
            return ["%s := lib0.MakeBox(%s)" % (a, x), "defer %s.Set(%s)" % (a, x),
                    "%s := &lib1.Sq{}" % b, "go %s.Grow(1)" % b]
        if k == "heavy":
            return ["%s, %s := lib0.Heavy%d(%s, %d)" % (a, b, r.below(heavy), x, r.below(9)), "_, _ = %s, %s" % (a, b)]
        if k == "local":
            return ["_ = locTwice(%s)" % x, "_ = locBox(%s).Get()" % x]
        if k == "wrap":
            self.used_lib1 = True
            return ["%s := lib1.Wrap(%s)" % (a, x), "_ = %s()" % a]
        if k == "count":
            return ["_ = lib0.Count([]%s{%s, %s})" % (T, x, x), "_ = lib0.Fold([]%s{%s}, %s, func(a, b %s) %s { return a + b })" % (T, x, x, T, T)]
        if k == "closure":
            return ["%s := func(y %s) %s { return lib0.Twice(y) }" % (a, T, T), "_ = %s(%s)" % (a, x),
                    "%s := func() func() %s { %s := lib0.MakeBox(%s); return %s.Get }" % (b, T, c, x, c), "_ = %s()()" % b]
        if k == "ext":
            self.used_ext = True
            return ["%s := ext.NewH(1)" % a, "_ = %s.Do()" % a, "%s.Inc()" % a, "%s := %s.Do" % (b, a), "_ = %s()" % b,
                    "%s := ext.NewE(2)" % c, "_ = %s.Do()" % c, "%s.Inc()" % c, "%s := %s.Inc" % (d, c), "%s()" % d,
                    "%se := ext.Ext{K: 1}" % d, "_ = %se.Get()" % d, "%se.Put(ext.Plain(2))" % d]
        if k == "extg":
            self.used_ext = True
            return ["%s := ext.NewG(%s)" % (a, x), "_ = %s.Val()" % a, "%s.Put(%s)" % (a, x), "%s := %s.Val" % (b, a), "_ = %s()" % b]
        raise AssertionError(k)

    def source(self, nfuncs, nsnip, heavy):
        body = []
        for f in range(nfuncs):
            body.append("func F%d() {" % f)
            for _ in range(1 + self.rng.below(nsnip)):
                body += ["\t" + l for l in self.snippet(heavy)]
            body.append("}")
            body.append("")
        # a method on a local type using generics, and a global initialiser
        body.append("type Loc struct{ b *lib0.Box[int] }")
        body.append("func (l Loc) Val() int { return l.b.Get() + lib0.Twice(1) }")
        body.append("func (l *Loc) Bump() { l.b.Set(l.Val()) }")
        body.append("var glob = lib0.Sum([]%s{%s})" % ("float64", "2.5"))
        body.append("func init() { _ = lib0.Thrice(%s) }" % lit(self.rng.choice(NUM)))
        body.append("func locTwice[T lib0.Num](x T) T { return lib0.Twice(x) }")
        body.append("func locBox[T lib0.Num](x T) *lib0.Box[T] { b := lib0.MakeBox(x); b.Apply(func(y T) T { return lib0.Thrice(y) }); return b }")
        for t in self.local_types:
            body.append("type %s int" % t)
        imports = ['"m/lib0"']
        if self.used_lib1:
            imports.append('"m/lib1"')
        if self.used_ext:
            imports.append('"m/ext"')
        return "package %s\n\nimport (\n\t%s\n)\n\n%s\n" % (self.name, "\n\t".join(imports), "\n".join(body))


def gen_program(rng, name, size):
    """size: 0 small .. 2 large"""
    heavy = [0, 2, 4][size] + rng.below(3)
    nusers = [2, 4, 8][size] + rng.below(3)
    with_ext = rng.chance(2, 3)
    pkgs = [
        {"path": "m/lib0", "kind": "syntax", "files": [{"name": "lib0.go", "src": gen_lib0(rng, heavy)}]},
        {"path": "m/lib1", "kind": "syntax", "files": [{"name": "lib1.go", "src": LIB1}]},
    ]
    if with_ext:
        pkgs.append({"path": "m/hid", "kind": "hidden", "files": [{"name": "hid.go", "src": HID}]})
        pkgs.append({"path": "m/ext", "kind": "types", "files": [{"name": "ext.go", "src": EXT}]})
    hist = {}
    for u in range(nusers):
        nm = "u%d" % u
        locals_ = ["My%d" % u] if rng.chance(1, 2) else []
        g = UserGen(rng, nm, with_ext, locals_)
        src = g.source(1 + rng.below([3, 5, 8][size]), [3, 5, 6][size], heavy)
        for k, v in g.hist.items():
            hist[k] = hist.get(k, 0) + v
        pkgs.append({"path": "m/" + nm, "kind": "syntax", "files": [{"name": nm + ".go", "src": src}]})
    return {"name": name, "pkgs": pkgs}, hist


def gen_programs(seed, counts):
    rng = vlib.SplitMix(seed).fork("c18-programs")
    out = []
    hist = {}
    for size, n in enumerate(counts):
        for i in range(n):
            p, h = gen_program(rng.fork("p%d/%d" % (size, i)), "s%d_g%d_%d" % (seed, size, i), size)
            out.append(p)
            for k, v in h.items():
                hist[k] = hist.get(k, 0) + v
    return out, hist



# ----------------------------------------------------------------------------- harness runs
CORPUS = os.path.join(vlib.VERIF, "corpus", "C18", "programs.json")
HOWTO = ("write the list [program] to p.json; cd /verif/harness && go build -tags verif [-race] -o c18build ./cmd/c18build; "
         "GOMAXPROCS=<gomaxprocs> VERIF_C18_YIELD=<yield> ./c18build -in p.json -modes <mode> -reps <reps> -seed <seed>")


def run_harness(ctx, binary, progfile, cfg, timeout):
    """One process of c18build over all programs of progfile. Returns (results, crash) where crash
    describes a timeout (deadlock), a crash of the process or a race report, attributed to the
    last BEGIN line."""
    env = vlib.go_env({"GOMAXPROCS": str(cfg["gomaxprocs"])})
    env.pop("VERIF_C18_YIELD", None)
    if cfg.get("yield") is not None:
        env["VERIF_C18_YIELD"] = str(cfg["yield"])
    if cfg.get("race"):
        env["GORACE"] = "halt_on_error=1 exitcode=66"
    cmd = [binary, "-in", progfile, "-reps", str(cfg["reps"]), "-modes", cfg["modes"], "-seed", str(cfg["seed"])]
    if cfg.get("abstract"):
        cmd += ["-abstract", "-trace"]
    if cfg.get("only"):
        cmd += ["-only", cfg["only"]]
    timed_out = False
    try:
        p = subprocess.run(cmd, env=env, timeout=timeout, stdout=subprocess.PIPE, stderr=subprocess.PIPE, text=True)
        rc, so, se = p.returncode, p.stdout, p.stderr
    except subprocess.TimeoutExpired as e:
        timed_out = True
        rc = -9
        so = e.stdout.decode() if isinstance(e.stdout, bytes) else (e.stdout or "")
        se = e.stderr.decode() if isinstance(e.stderr, bytes) else (e.stderr or "")
    results = []
    for line in so.splitlines():
        try:
            results.append(json.loads(line))
        except ValueError:
            pass
    crash = None
    if timed_out or rc != 0:
        begins = [l.split() for l in se.splitlines() if l.startswith("BEGIN ")]
        last = begins[-1][1:] if begins else ["?", "?", "?"]
        if rc == 2 and "c18build: " in se and "panic" not in se and "fatal error" not in se:
            raise vlib.HarnessError("c18build failed: " + se[-1500:])
        if timed_out:
            kind = "deadlock-or-timeout"
        elif "DATA RACE" in se:
            kind = "data-race"
        else:
            kind = "crash"
        # keep the diagnostic part of stderr (not the BEGIN lines)
        diag = "\n".join(l for l in se.splitlines() if not l.startswith("BEGIN "))
        crash = {"kind": kind, "prog": last[0], "mode": last[1], "variant": last[2], "exit": rc,
                 "stderr": diag[-6000:], "timeout_s": timeout if timed_out else None}
    return results, crash


import subprocess  # noqa: E402  (used by run_harness)


# ----------------------------------------------------------------------------- model tie
def fn_tokens(a, pid_of):
    return "0 %d %d" % (pid_of[a["owner"]], a["id"]) if a["owner"] >= 0 else "1 %d 0" % a["id"]


def model_lines(res, rng, nsched):
    """`run` lines (the abstraction of the program under seeded schedules and capacities) and the
    expectation for each; plus the `final` line for the task graph of the real parallel build."""
    ab = res["abstract"]
    owners = sorted({a["owner"] for a in ab if a["owner"] >= 0})
    pid_of = {o: i for i, o in enumerate(owners)}
    nproc = len(owners)
    decl = [a for a in ab if a["owner"] >= 0]
    shared = sorted(a["id"] for a in ab if a["owner"] < 0)
    roots = " ".join("%d %d" % (pid_of[a["owner"]], a["id"]) for a in decl)
    refs = " ".join("%s %d %s" % (fn_tokens(a, pid_of), len(a["refs"]), " ".join(map(str, a["refs"]))) for a in ab)
    nsteps = 6 * len(ab) + sum(len(a["refs"]) for a in ab) + 8 * nproc
    lines, expect = [], []
    for j in range(nsched):
        cap = [1, 2, max(1, nproc), max(1, nproc // 2)][j % 4]
        r = rng.fork("sched%d" % j)
        if j % 4 == 0:
            sched = []          # serial: lowest enabled first
        else:
            # bursts of random length: a builder runs for a while, then another one
            sched = []
            while len(sched) < nsteps:
                p = r.below(max(1, nproc))
                sched += [p] * (1 + r.below([1, 4, 40][j % 3]))
        lines.append("run %d %d %s %d %s %d %s %d %s" % (
            nproc, cap, " ".join("1" * 1 for _ in range(nproc)), len(decl), roots, len(ab), refs,
            len(sched), " ".join(map(str, sched))))
        expect.append({"built": len(ab), "memo": shared})
    # final view of the real heap
    tasks = res.get("final") or []
    task_of = {a["id"]: a["task"] for a in ab}
    fl = ["final", str(len(tasks))]
    fl += ["1" if t["done"] else "0" for t in tasks]
    fl += ["1" if t["trans"] else "0" for t in tasks]
    for t in tasks:
        fl += [str(len(t["edges"]))] + [str(e) for e in t["edges"]]
    fl.append(str(len(ab)))
    for a in ab:
        rt = [task_of[r] for r in a["refs"]]
        if any(x < 0 for x in rt):
            rt = [x if x >= 0 else len(tasks) for x in rt]   # a shared function without task: out of range => reject
        fl += [str(a["task"] + 1), "1" if a["built"] else "0", str(len(rt))] + [str(x) for x in rt]
    return lines, expect, " ".join(fl)


SHARED_KINDS = ("instance", "instwrapper", "ondemand", "wrapper")   # harness: sharedKind


def trace_line(tr):
    """The protocol events of a real traced build (go/ir verif trace hook) as a `trace` line of the
    model driver: the program abstraction (builders, roots, per function the sequence of lookups)
    is read off the same trace; every event becomes the model step it must coincide with."""
    ev = tr["events"]
    nfn = len(tr["fns"])
    task_b = {}
    for e in ev:
        if e["b"] >= 0 and e["t"] >= 0:
            if task_b.setdefault(e["t"], e["b"]) != e["b"]:
                return None, "task %d used by two builders" % e["t"]
    nb = 1 + max([e["b"] for e in ev] + [-1])
    decl_of, roots, pkgs = {}, [], {}
    for e in ev:
        if e["k"] == "start":
            if e.get("pkg"):
                if e["pkg"] in pkgs:
                    return None, "package %s built by two builders (sync.Once broken)" % e["pkg"]
                pkgs[e["pkg"]] = e["b"]
            for f in e.get("fns") or []:
                decl_of[f] = e["b"]

    def fid(f):
        return "0 %d %d" % (decl_of[f], f) if f in decl_of else "1 %d 0" % f

    refs, out, cur, last_n1, niltask, pseudo = {}, [], {}, {}, {}, {}
    ignored_hits = 0

    def close_pseudo(p):
        if p in pseudo and cur.get(p) == pseudo[p]:
            out.append("%d 5 3 %s" % (p, pseudo[p]))
            cur[p] = None

    def b_of_task(t):
        if t not in task_b:
            raise KeyError("task %d has no builder" % t)
        return task_b[t]
    try:
        for e in ev:
            k = e["k"]
            p = e["b"] if e["b"] >= 0 else (b_of_task(e["t"]) if e["t"] >= 0 else -1)
            if k == "start":
                out.append("%d 0 0" % p)
                if e.get("pkg"):
                    for f in e.get("fns") or []:
                        roots.append("%d %d" % (p, f))
                else:   # Program.MethodValue: a pseudo root holds the lookup made under methodsMu
                    pseudo[p] = "0 %d %d" % (p, nfn + p)
                    roots.append("%d %d" % (p, nfn + p))
                    out.append("%d 1 3 %s" % (p, pseudo[p]))
                    cur[p] = pseudo[p]
                    refs[pseudo[p]] = []
            elif k == "build":
                close_pseudo(p)
                if e["fl"]:
                    out.append("%d 1 3 %s" % (p, fid(e["f"])))
                    cur[p] = fid(e["f"])
                    if cur[p] in refs:
                        return None, "function %s built twice" % tr["fns"][e["f"]]
                    refs[cur[p]] = []
                else:
                    out.append("%d 2 3 %s" % (p, fid(e["f"])))
            elif k == "enqueue":
                if e["ft"] < 0 and tr["fns"][e["f"]].split(" ", 1)[0] in SHARED_KINDS:
                    return None, "shared function %s enqueued without a task (buildshared == nil)" % tr["fns"][e["f"]]
                if not cur.get(p):
                    return None, "function enqueued outside buildFunction by builder %d" % p
                refs[cur[p]].append(e["f"])
                out.append("%d 3 1 %d" % (p, e["f"]))
            elif k == "hit":
                if e["ft"] < 0:
                    if tr["fns"][e["f"]].split(" ", 1)[0] in SHARED_KINDS:
                        return None, "shared function %s looked up without a task to wait for" % tr["fns"][e["f"]]
                    ignored_hits += 1       # a declared function (MethodValue of a created package): nothing to wait for
                    continue
                if not cur.get(p):
                    return None, "lookup outside buildFunction by builder %d" % p
                refs[cur[p]].append(e["f"])
                added = 1 if e["n1"] > last_n1.get(p, 0) else 0
                last_n1[p] = e["n1"]
                out.append("%d 4 3 %d %d %d" % (p, e["f"], b_of_task(e["ft"]), added))
            elif k == "fndone":
                out.append("%d 5 3 %s" % (p, fid(e["f"])))
                cur[p] = None
            elif k == "markdone":
                close_pseudo(p)
                out.append("%d 6 0" % p)
                niltask[p] = e["t"] < 0
            elif k == "waitskip":
                out.append("%d 7 1 %d" % (p, b_of_task(e["o"])))
            elif k == "waitcheck":
                out.append("%d 8 1 %d" % (p, b_of_task(e["o"])))
            elif k == "waitrecv":
                new = [b_of_task(t) for t in e.get("new") or []]
                out.append("%d 9 %d %d %s" % (p, 1 + len(new), b_of_task(e["o"]), " ".join(map(str, new))))
            elif k == "waitend":
                out.append("%d 10 0" % p)
            elif k == "return":
                if niltask.get(p):   # builder without task: its wait returns at once; nobody can refer to its task
                    out += ["%d 8 1 %d" % (p, p), "%d 9 1 %d" % (p, p), "%d 10 0" % p]
                out.append("%d 11 0" % p)
            else:
                return None, "unknown event kind %s" % k
    except KeyError as ex:
        return None, str(ex)
    reftoks = " ".join("%s %d %s" % (f, len(ks), " ".join(map(str, ks))) for f, ks in refs.items())
    line = "trace %d %d %s %d %s %d %s" % (nb, len(roots), " ".join(roots), len(refs), reftoks, len(out), " ".join(out))
    return " ".join(line.split()), {"builders": nb, "package_builders": len(pkgs), "events": len(out),
                                   "functions": len(refs), "hits_without_task": ignored_hits,
                                   "edges_added": sum(1 for o in out if o.split()[1] == "4" and o.split()[-1] == "1")}


def parse_model(out):
    d = dict(kv.split("=", 1) for kv in out.split())
    memo = sorted(int(e.split(":")[0]) for e in d.get("memo", "").split(",") if e)
    return d, memo


# ----------------------------------------------------------------------------- the check
def configs(ctx):
    s = ctx.seed
    if ctx.quick:
        return [
            {"gomaxprocs": 2, "yield": s * 7 + 1, "reps": 3, "modes": "0,G", "seed": s, "abstract": True},
            {"gomaxprocs": 4, "yield": None, "reps": 3, "modes": "0,G", "seed": s + 11, "abstract": True},
            {"gomaxprocs": 8, "yield": s * 7 + 2, "reps": 4, "modes": "0,G", "seed": s + 23, "abstract": True},
            {"gomaxprocs": 16, "yield": s * 7 + 3, "reps": 3, "modes": "0,GD", "seed": s + 37, "abstract": True},
            # lock convoys on the small corpus programs (check-then-create windows in the memo tables)
            {"gomaxprocs": 4, "yield": s * 7 + 5, "reps": 24, "modes": "0,G", "seed": s + 51, "corpus_only": True},
            {"gomaxprocs": 8, "yield": s * 7 + 6, "reps": 24, "modes": "0,G", "seed": s + 53, "corpus_only": True},
            {"gomaxprocs": 2, "yield": s * 7 + 7, "reps": 24, "modes": "0,G", "seed": s + 57, "corpus_only": True},
        ], [
            {"gomaxprocs": 8, "yield": s * 7 + 4, "reps": 2, "modes": "G", "seed": s + 41, "race": True},
        ]
    cs, rs = [], []
    for i, g in enumerate([1, 2, 3, 4, 8, 16]):
        for j in range(2):
            cs.append({"gomaxprocs": g, "yield": None if (i + j) % 5 == 0 else s * 101 + 10 * i + j, "reps": 10,
                       "modes": ["0,G", "GD,N"][j], "seed": s + 100 * i + j, "abstract": True})
    for i, g in enumerate([2, 4, 4, 8, 8, 16]):
        cs.append({"gomaxprocs": g, "yield": s * 211 + i, "reps": 40, "modes": "0,G", "seed": s + 900 + i, "corpus_only": True})
    for i, g in enumerate([2, 8, 16]):
        rs.append({"gomaxprocs": g, "yield": s * 13 + i, "reps": 3, "modes": "0,G", "seed": s + 7 * i, "race": True})
    return cs, rs


def run(ctx):
    tm = {}
    t0 = time.time()
    lean_ok, lean_broke = vlib.std_lean_phase(ctx, MODULES, THEOREMS)
    tm["lean_build_and_audit_s"] = round(time.time() - t0, 1)
    t0 = time.time()
    vlib.sync_harness_gosum()
    vlib.harness_dir(ctx)      # (makes the scratch copy for VERIF_REPO once, before the two builds start)
    with ThreadPoolExecutor(max_workers=2) as ex:
        fb = ex.submit(vlib.build_harness, ctx, "c18build")
        fr = ex.submit(vlib.build_harness, ctx, "c18build", "c18build_race", "verif", True)
        binary, racebin = fb.result(), fr.result()
    tm["go_build_s"] = round(time.time() - t0, 1)

    # ---- programs: corpus first, then generated from the seed
    corpus = json.load(open(CORPUS))
    counts = [2, 1, 1] if ctx.quick else [5, 5, 3]
    gen, hist = gen_programs(ctx.seed, counts)
    progs = corpus + gen
    by_name = {p["name"]: p for p in progs}
    if ctx.replay:
        rp = json.load(open(ctx.replay))
        progs = [rp["program"]]
        by_name = {rp["program"]["name"]: rp["program"]}
    progfile = ctx.path("progs", "all.json")
    json.dump(progs, open(progfile, "w"))
    race_progs = corpus + gen[:2] if ctx.quick else progs
    corpusfile = ctx.path("progs", "corpus.json")
    json.dump(corpus if not ctx.replay else progs, open(corpusfile, "w"))
    racefile = ctx.path("progs", "race.json")
    json.dump(race_progs if not ctx.replay else progs, open(racefile, "w"))

    cfgs, rcfgs = configs(ctx)
    if ctx.replay:
        c = dict(rp.get("config") or cfgs[0])
        c.pop("only", None)
        cfgs, rcfgs = ([c], []) if not c.get("race") else ([], [c])
    # generous: a deadlock of all goroutines is reported by the Go runtime at once; the timeout only
    # catches partial deadlocks and must not fire because the machine is busy
    per_prog_budget = 150 if ctx.quick else 400

    def job(item):
        cfg, race = item
        t0 = time.time()
        r = run_harness(ctx, racebin if race else binary,
                        racefile if race else (corpusfile if cfg.get("corpus_only") else progfile), cfg,
                        timeout=per_prog_budget * len(progs) * (2 if race else 1))
        return cfg, race, r, time.time() - t0

    with ThreadPoolExecutor(max_workers=3 if ctx.quick else 4) as ex:
        outs = list(ex.map(job, [(c, True) for c in rcfgs] + [(c, False) for c in cfgs]))

    tm["harness_runs_s"] = {"%d:%s%s%s" % (i, "race " if race else "", "corpus " if c.get("corpus_only") else "", c["gomaxprocs"]): round(w, 1)
                            for i, (c, race, _, w) in enumerate(outs)}
    nbuilds = 0
    oracle_fail = []      # concrete failures on the real code
    race_runs = 0
    nontrivial = set()
    kinds_hist = {}
    samples = []
    model_in, model_meta = [], []
    rng = vlib.SplitMix(ctx.seed).fork("c18-model")
    seen_abs = set()
    trace_bad, trace_events, trace_edges = [], 0, 0
    trace_sample = None
    for cfg, race, (results, crash), wall in outs:
        if race:
            race_runs += 1
        for res in results:
            nbuilds += res["nbuilds"] + 1
            for k, v in res["kinds"].items():
                kinds_hist[k] = kinds_hist.get(k, 0) + v
            for pr in res["problems"]:
                oracle_fail.append({"prog": res["prog"], "mode": res["mode"], "config": cfg, "kind": pr["kind"],
                                    "variant": pr["variant"], "detail": pr["detail"]})
            if res.get("abstract"):
                tasks = res.get("final") or []
                owners = [t for t in tasks if t["owns"]]
                if len(owners) >= 2 and any(t["edges"] for t in tasks):
                    nontrivial.add((res["prog"], res["mode"]))
                key = (res["prog"], res["mode"])
                nsched = 0 if key in seen_abs else (4 if ctx.quick else 12)
                seen_abs.add(key)
                lines, expect, fline = model_lines(res, rng.fork("%s/%s" % key), nsched)
                for l, e in zip(lines, expect):
                    model_in.append(l)
                    model_meta.append(("run", res["prog"], res["mode"], cfg, e))
                model_in.append(fline)
                model_meta.append(("final", res["prog"], res["mode"], cfg, {"tasks": tasks}))
                if res.get("trace"):
                    tl, tmeta = trace_line(res["trace"])
                    if tl is None:
                        trace_bad.append({"stream": "trace", "prog": res["prog"], "mode": res["mode"], "config": cfg,
                                          "trace_rejected": tmeta})
                    else:
                        model_in.append(tl)
                        model_meta.append(("trace", res["prog"], res["mode"], cfg, tmeta))
                        if trace_sample is None and tmeta["edges_added"] > 0:
                            trace_sample = {"prog": res["prog"], "mode": res["mode"], "stats": tmeta,
                                            "first_events_of_the_real_trace": [
                                                {k: v for k, v in e.items() if v not in (-1, False, 0, None)}
                                                for e in res["trace"]["events"][:14]]}
                        trace_events += tmeta["events"]
                        trace_edges += tmeta["edges_added"]
                if len(samples) < 4 and key[0].startswith("corpus"):
                    samples.append({"prog": res["prog"], "mode": res["mode"], "gomaxprocs": res["gomaxprocs"],
                                    "functions": res["nfuncs"], "shared": res["nshared"], "builds": res["nbuilds"],
                                    "task_graph_of_parallel_build": [{"task": t["id"], "edges": t["edges"], "owns": len(t["owns"])} for t in tasks]})
        if crash:
            crash["config"] = cfg
            oracle_fail.append(crash)

    # ---- model: abstraction of every program under seeded schedules; validator on real final graphs
    t0 = time.time()
    model_out = vlib.run_model(ctx, "C18", model_in) if model_in else []
    tm["model_s"] = round(time.time() - t0, 1)
    ctx.coverage["timing"] = tm
    tie_diffs = list(trace_bad)
    nrun = nfinal = ntrace = 0
    for (kind, prog, mode, cfg, e), line, out in zip(model_meta, model_in, model_out):
        if out == "bad-op":
            raise vlib.HarnessError("model rejected line: " + line[:300])
        if kind == "run":
            nrun += 1
            d, memo = parse_model(out)
            ok = d.get("fin") == "1" and d.get("panic") == "0" and d.get("check") == "1" and \
                int(d.get("built", -1)) == e["built"] and memo == e["memo"]
            if not ok:
                tie_diffs.append({"stream": "run", "prog": prog, "mode": mode, "model": out[:400],
                                  "expected_built": e["built"], "go_ir_created_shared": len(e["memo"]),
                                  "only_in_model": sorted(set(memo) - set(e["memo"]))[:20],
                                  "only_in_go_ir": sorted(set(e["memo"]) - set(memo))[:20]})
        elif kind == "trace":
            ntrace += 1
            d = dict(kv.split("=", 1) for kv in out.split()[1:] if "=" in kv)
            if not (out.startswith("ok ") and d.get("fin") == "1" and d.get("check") == "1" and d.get("panic") == "0"):
                tie_diffs.append({"stream": "trace", "prog": prog, "mode": mode, "config": cfg, "model": out[:600],
                                  "meaning": "the n-th protocol event of a real traced build is not the step the model "
                                             "takes for that builder in that state", "trace_stats": e})
        else:
            nfinal += 1
            if out != "ok":
                tie_diffs.append({"stream": "final", "prog": prog, "mode": mode, "config": cfg, "validator": out,
                                  "task_graph": e["tasks"], "model_input": line[:2000]})

    ctx.coverage.update({
        "evaluations": nbuilds + nrun + nfinal + ntrace,
        "traces_replayed": ntrace, "traces_validated_against_impl": ntrace, "trace_events_replayed": trace_events, "trace_edges_added": trace_edges,
        "builds_of_real_go_ir": nbuilds,
        "model_runs": nrun, "final_graphs_validated": nfinal,
        "programs": len(progs), "generated_programs": len(gen), "corpus_programs": len(corpus),
        "harness_processes": len(cfgs), "race_detector_processes": race_runs,
        "configs": [{k: v for k, v in c.items() if k != "abstract"} for c in cfgs + rcfgs],
        "harness_processes_total": len(cfgs) + len(rcfgs),
        "distinct_nontrivial": len(nontrivial),
        "rule": "distinct (program, builder mode) pairs whose real parallel build left a task graph in which at least two "
                "builders created shared functions and at least one builder waited for another (edge in the task graph)",
        "function_kinds_histogram": kinds_hist, "generator_snippet_histogram": hist,
        "samples": samples + ([trace_sample] if trace_sample else []),
        "disagreements_checked": nrun + nfinal + ntrace,
    })
    ctx.assumptions += [
        "the race detector is run-time evidence for the explored schedules only; the Lean model has no memory model "
        "(mutual exclusion of the memo tables and happens-before through channel close are built into the atomic steps)",
        "the bodies of functions are outside the protocol model: 'same IR up to value numbering' is the oracle "
        "(dump comparison serial vs parallel vs repeated vs concurrent), not a theorem",
        "abstraction of a program (harness/cmd/c18build abstract): references = functions used as operands, bound/thunk "
        "functions folded into their user; trusted",
        "the go/ir trace hook (build tag verif) records each protocol action under one mutex held across the action, so "
        "the order of the log is taken as the order of effect; the hook and the conversion of the log (trace_line) are trusted",
        "atomicity of the look-up-or-create critical sections of the memo tables is built into the model (one step); on the "
        "real code it is only observed (duplicate shared functions under seeded lock convoys)",
    ]

    # ---- classification
    # (no finding is listed for C18: vlib.load_known_findings("C18") is empty; every failure is reported)
    # one report per (kind, program), at most 6 (the rest is counted in the evidence)
    uniq, seen_f = [], set()
    for f in oracle_fail:
        k = (f["kind"], f["prog"])
        if k not in seen_f:
            seen_f.add(k)
            uniq.append(f)
    ctx.coverage["oracle_failures"] = len(oracle_fail)
    ctx.coverage["tie_disagreements"] = len(tie_diffs)
    for i, f in enumerate(uniq[:6]):
        pname = f["prog"]
        cfg = dict(f["config"])
        cfg["only"] = pname
        ctx.violation("oracle_%s_%s_%s_%d.json" % (f["kind"], pname, f.get("mode", ""), i), {
            "what": {"unbuilt": "a function is not built when Build returned",
                     "nobody": "a function has no body when Build returned",
                     "duplicate": "a shared function was created twice for one key",
                     "dump-differs": "two builds of the same program differ beyond value numbering",
                     "not-idempotent": "calling Build again changed the program",
                     "panic": "Build panicked",
                     "crash": "the process crashed during a build (panic in a builder goroutine)",
                     "deadlock-or-timeout": "a build did not return (builders wait for each other)",
                     "data-race": "the race detector reported a data race during a build"}.get(f["kind"], f["kind"]),
            "failure": f, "program": by_name.get(pname), "mode": f.get("mode"), "config": cfg,
            "how_to_replay": HOWTO + "  (or ./check C18 --replay <this file>)",
        }, text="C18: %s in %s mode %s variant %s: %s" % (f["kind"], pname, f.get("mode"), f.get("variant"),
                                                          (f.get("detail") or f.get("stderr") or "")[:600]))
    if not oracle_fail and (tie_diffs or not lean_ok):
        # model/implementation mismatch or broken proof: search for a failing input with the oracle
        found = violation_search(ctx, binary, progs, tie_diffs)
        if found:
            f = found
            ctx.violation("search_%s_%s.json" % (f["kind"], f["prog"]), {
                "what": "found by the violation search after the model tie / proof broke", "failure": f,
                "program": by_name.get(f["prog"]), "mode": f.get("mode"), "config": f["config"],
                "tie_diffs": tie_diffs[:5], "lean": lean_broke, "how_to_replay": HOWTO},
                text="C18: %s in %s (%s)" % (f["kind"], f["prog"], (f.get("detail") or f.get("stderr") or "")[:400]))
        else:
            ctx.violation("correspondence.json", {
                "what": "the protocol model no longer corresponds to go/ir (or a proof no longer checks) but no build "
                        "misbehaved on the explored programs and schedules",
                "tie_diffs": tie_diffs[:10], "lean": lean_broke,
                "programs": {d["prog"]: by_name.get(d["prog"]) for d in tie_diffs[:2]},
                "correspondence": "C18 run/final streams; theorems " + ", ".join(THEOREMS)}, nofail=True,
                text="C18: model tie broke: %s" % (json.dumps(tie_diffs[:2])[:800] if tie_diffs else lean_broke))
    return vlib.finish(ctx, "proof")


def violation_search(ctx, binary, progs, tie_diffs):
    """More schedules through the oracle, first on the programs whose tie broke."""
    first = [d["prog"] for d in tie_diffs]
    order = sorted(progs, key=lambda p: (p["name"] not in first))
    f = ctx.path("progs", "search.json")
    json.dump(order[:6] if ctx.quick else order, open(f, "w"))
    for i, g in enumerate([2, 8, 3, 16]):
        cfg = {"gomaxprocs": g, "yield": ctx.seed * 1000 + i, "reps": 16 if ctx.quick else 40, "modes": "0,G",
               "seed": ctx.seed + 500 + i}
        results, crash = run_harness(ctx, binary, f, cfg, timeout=900 if ctx.quick else 2400)
        for res in results:
            for pr in res["problems"]:
                c = dict(cfg)
                c["only"] = res["prog"]
                return {"prog": res["prog"], "mode": res["mode"], "config": c, "kind": pr["kind"],
                        "variant": pr["variant"], "detail": pr["detail"]}
        if crash:
            crash["config"] = cfg
            return crash
    return None


META = {
    "level": "proof",
    "technique": "Lean 4 labelled transition system of go/ir's build protocol (task graph, memo tables under mutex, "
                 "sync.Once, cpuLimit) with invariants and a termination measure proved over all interleavings; "
                 "refinement check of real protocol traces against the compiled model; dump comparison and race "
                 "detector on the real builder",
    "text": "Proved for the protocol model, for all programs and all interleavings (any scheduler, any semaphore "
            "capacity, any map iteration order in wait): every shared function is created at most once per key and "
            "every body built at most once, by its owner (created_once, built_once); when a package's Build has "
            "returned every function it transitively needs is built, cyclic waits included (wait_complete, "
            "build_complete, program_build_complete); no reachable state is stuck, a blocked waiter always waits "
            "for a builder that can step, the addEdge panic is unreachable, every run is finite and a maximal run "
            "ends with all builders finished (no_deadlock, blocked_on_active_builder, no_panic, build_terminates, "
            "build_returns); a finished build is terminal and Build/buildFunction again change nothing "
            "(build_idempotent, build_call_noop); all complete builds create and build the same set of functions "
            "(final_functions, schedule_independent). The model is tied to the current source on every run: each "
            "protocol action of real traced parallel builds must be the step the model takes (trace refinement). "
            "Explored, not proved: that function bodies are equal up to value numbering across "
            "serial/parallel/repeated/concurrent builds (dump comparison on the real go/ir), atomicity of the "
            "memo-table critical sections (duplicate detection under seeded lock convoys) and data-race freedom "
            "(race detector on the explored schedules).",
    "note": "Ties: (trace) go/ir's verif hook records every protocol action of a parallel build in the order it took "
            "effect; the compiled model replays it step by step and every event must equal the model's label; "
            "(run) the abstraction of every generated program is executed by the model under seeded schedules and the "
            "set of shared functions must equal what go/ir created; (final) the task graph each real parallel build "
            "leaves behind must pass the proved validator checkFinal. Trusted: Lean kernel, compiled model driver, "
            "harness/cmd/c18build (reflection on unexported fields), the trace hook (add-only, build tag verif), Go "
            "race detector. Function bodies and the Go memory model are outside the Lean model.",
    "design_ref": "DESIGN.md section 5, C18",
}

if __name__ == "__main__":
    progs, hist = gen_programs(int(sys.argv[1]), [int(x) for x in sys.argv[2].split(",")])
    json.dump(progs, sys.stdout)
