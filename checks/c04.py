"""C04 — cache transparency: warm-cache results equal cold-cache results.

Lean: Verif/C04/{Model,Lemmas,Theorems}.lean — keyed memoisation over the package DAG
(`subrunner.do`: key = H(serialise inputs), lookup all sub-entries, else analyse and write;
`computeHash`; what `linter.lint` loads) in which the key and the analysis are functions of
NAMED inputs: the key hashes `restrict Shape.cfgHashed cfg` / `restrict Shape.envHashed env`,
the analysis sees `restrict Shape.cfgReads cfg` / `restrict Shape.envReads env`.
`warm_eq_cold(_post)` is proved from the structural obligation `Shape.Covers` (reads ⊆ hashed);
`uncovered_input_breaks` shows the obligation is necessary.

Tie G (regenerated, kernel-checked): Verif/C04/Generated.lean is rewritten on every run from
 * the source (harness/cmd/c04extract, go/ast): fields of config.Config, the fields reaching
   the `cfg` component of subrunner.do, the fields read through config.For(pass).F, the
   environment variables hashed / read by analysis-time packages, the Fprintf tags of
   subrunner.do and computeHash;
 * the run-time HASH lines: tags written, configuration fields ever printed with a non-zero
   value, environment variables printed;
and `gen_covers`, `gen_runtime_covers`, `gen_reads_are_fields`, `key_covers_inputs`,
`pkg_key_covers_inputs`, `src_key_covers_inputs` are re-proved by `decide`.

Tie X (run time, no hook): every sequential warm run of the real `staticcheck` binary sets
GODEBUG=gocachehash=1 (+ GOMAXPROCS=1 so that the blocks of HASH lines do not interleave);
the HASH[staticcheck …]/HASH[package …]/HASH subkey lines are parsed into the components of
every action key (the cfg component into named fields), the hit/miss pattern and the served
content digests; the model replays the whole history (driver op `hist`, with the regenerated
shape) and must predict the same hit/miss pattern, the same key equalities, the same `vetout`
components and the same served digests.

Witnesses (corpus/C04/histories.json): one history per named input that flips that input
alone and REQUIRES the action key to change through the named component (`expect`), so a
component kept by tag but made constant/coarser is reported even without an output witness.

Oracle (the property itself, on the real binary): at every step of every history the
`-f json` output (parsed, paths relative, sorted) + exit status of the run that shares the
history's persistent STATICCHECK_CACHE equals that of the same invocation on a fresh cache.
Work is cut by fixed COUNTS (N_GENERATED, N_PARALLEL), never by a wall-clock box.

Development aids (not used by the contract): VERIF_C04_PREWARM=<dir> keeps the prewarmed
standard-library facts between runs; VERIF_C04_ONLY=<names> runs only those corpus histories.
"""
import ast as pyast
import copy
import hashlib
import json
import os
import re
import resource
import shutil
import threading
import time
from concurrent.futures import ThreadPoolExecutor

import vlib

MODULES = ["Verif.C04.Theorems"]
THEOREMS = [
    "Verif.C04.cache_inv",
    "Verif.C04.cache_inv_history",
    "Verif.C04.key_determines_inputs",
    "Verif.C04.warm_eq_cold",
    "Verif.C04.warm_eq_cold_post",
    "Verif.C04.warm_eq_cold_det",
    "Verif.C04.warm_eq_cold_gen",
    "Verif.C04.uncovered_input_breaks",
    "Verif.C04.run_report_eq",
    "Verif.C04.run_loaded_eq",
    "Verif.C04.checks_not_in_key_ok",
    "Verif.C04.report_uses_checks_only_in_filter",
    "Verif.C04.key_inj",
    "Verif.C04.gen_covers",
    "Verif.C04.gen_runtime_covers",
    "Verif.C04.gen_reads_are_fields",
    "Verif.C04.key_covers_inputs",
    "Verif.C04.pkg_key_covers_inputs",
    "Verif.C04.src_key_covers_inputs",
    "Verif.C04.serialise_tags",
    "Verif.C04.serialise_emits_required",
    "Verif.C04.serialisePkg_tags",
]
GODEBUG = "gocachehash=1"
MODPATH = "example.com/m"
LEVELS = ["above", "root", "app", "lib", "lib/dep", "lib/dep/leaf", "srv"]
CONF_VARIANTS = [
    'checks = ["all"]\n',
    'checks = ["inherit", "-SA1019"]\n',
    'checks = ["SA*", "ST1003", "S1005"]\n',
    'initialisms = ["inherit", "FOO"]\n',
    'initialisms = ["ID"]\n',
    'dot_import_whitelist = ["example.com/m/lib/dep"]\n',
    'checks = ["all", "-ST1000"]\ninitialisms = ["inherit", "FOO"]\n',
    'http_status_code_whitelist = ["200", "400", "404", "500", "503"]\n',
    'http_status_code_whitelist = ["inherit", "503"]\ndot_import_whitelist = ["inherit"]\n',
    'http_status_code_whitelist = []\n',
    'http_status_code_whitelist = ["200", "400", "404", "503"]\n',   # as long as the default list, other content
]
GO_VALUES = [None, "1.3", "1.26"]
TAGS_VALUES = [None, "verifx"]
CHECKS_VALUES = [None, "all", "SA*,ST1003", "inherit,-SA4017", "S1005,ST1003,SA1019,U1000,ST1001"]
GOOS_VALUES = ["linux", "windows"]
GOARCH_VALUES = ["amd64", "arm64"]
GOMOD_VALUES = ["1.21", "1.7"]
APP_BITS = 12
DEP_FACTS = {"dep": ["helper_depr", "pure", "direct_nonnil"], "leaf": ["old_depr", "calc_pure", "get_nonnil"]}
OP_KINDS = ["edit_target", "flip_dep_fact", "conf", "go", "tags", "tests", "checks", "goos", "goarch", "gomod", "http",
            "break", "godebug", "pattern", "setenv", "revert", "touch"]
PATTERNS = ["./...", "./app", "./lib/..."]
SHORT = {"app": MODPATH + "/app", "dep": MODPATH + "/lib/dep", "leaf": MODPATH + "/lib/dep/leaf", "srv": MODPATH + "/srv"}


# --------------------------------------------------------------------------- generated module
def base_state():
    return {
        "app_mask": (1 << APP_BITS) - 1, "app_rev": 0,
        "dep": {"helper_depr": 1, "pure": 1, "direct_nonnil": 1},
        "leaf": {"old_depr": 1, "calc_pure": 1, "get_nonnil": 1},
        "conf": {l: None for l in LEVELS},
        "go": None, "tags": None, "tests": False, "checks": "all", "goos": "linux", "godebug": None,
        "goarch": "amd64", "gomod": "1.21", "http": False, "broken": None, "pattern": "./...",
        "setenv": {},
    }


def render(st):
    """state -> {path relative to the work dir: content}; the module root is work/mod."""
    f = {}
    f["mod/go.mod"] = "module %s\n\ngo %s\n" % (MODPATH, st.get("gomod", "1.21"))
    lf, dp, m = st["leaf"], st["dep"], st["app_mask"]
    f["mod/lib/dep/leaf/leaf.go"] = "\n".join([
        "// Package leaf is generated.", "package leaf", "",
        "// T is a value.", "type T struct{ N int }", "", "var sink int", "",
        "// Old returns N.", "//",
        ("// Deprecated: use N." if lf["old_depr"] else "// It is not deprecated."),
        "func (t T) Old() int { return t.N }", "",
        "// Calc computes.", "func (t T) Calc(x int) int {",
        ("" if lf["calc_pure"] else "\tsink++"),
        "\treturn x*2 + t.N", "}", "",
        "// E is an error.", "type E struct{}", "", "func (*E) Error() string { return \"e\" }", "",
        "// Get returns an error.", "func Get() error {",
        ("\tvar p *E\n\treturn p" if lf["get_nonnil"] else "\tif sink > 0 {\n\t\treturn &E{}\n\t}\n\treturn nil"),
        "}", ""]
        + (["var broken int = \"not an int\"", ""] if st.get("broken") == "leaf" else []))
    f["mod/lib/dep/leaf/tagged.go"] = "//go:build verifx\n\npackage leaf\n\nfunc tagged() {}\n"
    f["mod/lib/dep/dep.go"] = "\n".join([
        "package dep", "", "import \"%s/lib/dep/leaf\"" % MODPATH, "", "var count int", "",
        "func Wrap() leaf.T { return leaf.T{N: 1} }", "",
        "// Helper does things.", "//",
        ("// Deprecated: do not use." if dp["helper_depr"] else "// It is fine."),
        "func Helper(x int) int { return x + 1 }", "",
        "func Pure(x int) int {", ("" if dp["pure"] else "\tcount++"), "\treturn x * 3", "}", "",
        "func Fetch() error { return leaf.Get() }", "",
        "func Direct() error {",
        ("\tvar p *leaf.E\n\treturn p" if dp["direct_nonnil"] else "\tif count > 0 {\n\t\treturn &leaf.E{}\n\t}\n\treturn nil"),
        "}", ""]
        # a binary literal: accepted by the compiler (go.mod says go >= 1.13) but rejected by the
        # type checker of the runner when the target version is -go 1.3, i.e. the analysis of
        # this package *fails after the key was computed* and its dependents are not run
        + (["var mask = 0b101", ""] if st.get("broken") == "dep-lang" else [])
        + (["var broken int = \"not an int\"", ""] if st.get("broken") == "dep" else []))
    bit = lambda i: (m >> i) & 1
    body = ["\ts := osSpecific(xs) + archSpecific(xs)"]
    if bit(0):
        body += ["\tfor _ = range xs {", "\t\ts++", "\t}"]
    if bit(1):
        body += ["\ts += dep.Wrap().Old()"]
    if bit(2):
        body += ["\tdep.Wrap().Calc(2)"]
    if bit(3):
        # bit 10 turns the directive into an ordinary comment: a comment-only edit that leaves the
        # compiled archive byte-identical (same lines, same code)
        body += [("\t//lint:ignore SA1019 generated" if bit(10) else "\t// lint ignore SA1019 generated"), "\ts += dep.Helper(1)"]
    if bit(4):
        body += ["\tdep.Pure(4)"]
    if bit(5):
        body += ["\tif dep.Fetch() == nil {", "\t\ts++", "\t}"]
    if bit(6):
        body += ["\tif dep.Direct() == nil {", "\t\ts++", "\t}"]
    app = ["package app", "", "import \"%s/lib/dep\"" % MODPATH, "", "// rev %d" % st["app_rev"], ""]
    if bit(7):
        app += ["func GetFooId() int { return 1 }", "", "func GetFooApi() int { return 2 }", ""]
    if bit(11):
        app += ["func GetBarUrl() int { return 3 }", ""]
    if bit(8):
        app += ["type t1 struct {", "\tA int `json:\"a\"`", "}", "", "type t2 struct {", "\tA int `json:\"b\"`", "}", "",
                "func conv(x t1) t2 { return t2{A: x.A} }", "", "var _ = conv", ""]
    app += ["func onlyInTests() int { return 1 }", "", "var _ = dep.Wrap", "",
            "func Run(xs []int) int {"] + body + ["\treturn s", "}", ""]
    f["mod/app/app.go"] = "\n".join(app)
    if bit(9):
        f["mod/app/dot.go"] = "package app\n\nimport . \"%s/lib/dep\"\n\nvar dotUse = Pure(1)\n" % MODPATH
    f["mod/app/os_linux.go"] = "package app\n\nfunc osSpecific(xs []int) int {\n\tfor _ = range xs {\n\t}\n\treturn 0\n}\n"
    f["mod/app/os_windows.go"] = "package app\n\nfunc osSpecific(xs []int) int { return len(xs) }\n"
    f["mod/app/arch_amd64.go"] = "package app\n\nfunc archSpecific(xs []int) int {\n\tfor _ = range xs {\n\t}\n\treturn 0\n}\n"
    f["mod/app/arch_arm64.go"] = "package app\n\nfunc archSpecific(xs []int) int { return len(xs) }\n"
    if st.get("http"):
        # ST1013 (http_status_code_whitelist): 503 and 418 are not in the default whitelist, 404 is
        f["mod/srv/srv.go"] = ("package srv\n\nimport \"net/http\"\n\nfunc Handle(w http.ResponseWriter, r *http.Request) {\n"
                               "\thttp.Error(w, \"unavailable\", 503)\n\thttp.Error(w, \"not found\", 404)\n"
                               "\thttp.Error(w, \"teapot\", 418)\n}\n")
    f["mod/app/tagged.go"] = "//go:build verifx\n\npackage app\n\nfunc taggedLoop(xs []int) {\n\tfor _ = range xs {\n\t}\n}\n"
    f["mod/app/app_test.go"] = ("package app\n\nimport \"testing\"\n\nfunc TestRun(t *testing.T) {\n\tvar xs []int\n"
                                "\tfor _ = range xs {\n\t}\n\tif Run(nil) < 0 || onlyInTests() < 0 {\n\t\tt.Fatal(\"x\")\n\t}\n}\n")
    for lvl, v in st["conf"].items():
        if v is None:
            continue
        d = "" if lvl == "above" else ("mod" if lvl == "root" else "mod/" + lvl)
        f[os.path.join(d, "staticcheck.conf")] = CONF_VARIANTS[v]
    return f


def sync_tree(work, files, touch=False):
    want = set(files)
    for root, ds, fs in os.walk(work):
        for fn in fs:
            rel = os.path.relpath(os.path.join(root, fn), work)
            if rel not in want and (fn.endswith(".go") or fn in ("staticcheck.conf", "go.mod")):
                os.remove(os.path.join(root, fn))
    now = time.time()
    for rel, content in files.items():
        p = os.path.join(work, rel)
        old = None
        if os.path.exists(p):
            with open(p) as fh:
                old = fh.read()
        if old != content or touch:
            os.makedirs(os.path.dirname(p), exist_ok=True)
            with open(p, "w") as fh:
                fh.write(content)
            if touch:
                os.utime(p, (now + 3, now + 3))


def apply_op(states, op):
    """explicit op record -> new state (pure function of the earlier states)."""
    st = copy.deepcopy(states[-1])
    k = op["kind"]
    if k == "init":
        return st
    if k == "edit_target":
        if op.get("bit") is None:
            st["app_rev"] += 1
        else:
            st["app_mask"] ^= 1 << op["bit"]
    elif k == "flip_dep_fact":
        st[op["pkg"]][op["fact"]] ^= 1
    elif k == "conf":
        st["conf"][op["level"]] = op["variant"]
    elif k in ("go", "tags", "tests", "checks", "goos", "godebug", "goarch", "gomod", "http", "pattern"):
        st[k] = op["value"]
    elif k == "break":
        st["broken"] = op["value"]
    elif k == "setenv":
        st["setenv"] = dict(st.get("setenv") or {})
        if op["value"] is None:
            st["setenv"].pop(op["name"], None)
        else:
            st["setenv"][op["name"]] = op["value"]
    elif k == "revert":
        st = copy.deepcopy(states[op["to"]])
    elif k == "touch":
        pass
    else:
        raise vlib.HarnessError("unknown op %r" % (op,))
    return st


def needs_std(st):
    """the step analyses packages of the standard library (test variants import testing, srv imports net/http)"""
    return bool(st["tests"] or st.get("http"))


def gen_history(rng, length, full):
    """explicit op list of a history; every choice comes from rng (seeded by VERIF_SEED).
    full=False (quick tier): steps that analyse the standard library are kept on the one
    prewarmed platform (-go unset, linux/amd64) and the net/http package is left to the corpus."""
    states = [base_state()]
    ops = [{"kind": "init"}]
    # a random starting point so that histories do not all begin in the same state
    for _ in range(rng.below(3)):
        st = states[0]
        c = rng.below(4)
        if c == 0:
            st["conf"][rng.choice(LEVELS)] = rng.below(len(CONF_VARIANTS))
        elif c == 1:
            st["checks"] = rng.choice(CHECKS_VALUES)
        elif c == 2:
            st["app_mask"] ^= 1 << rng.below(APP_BITS)
        else:
            st["tests"] = rng.chance(1, 3)
    ops[0]["state"] = copy.deepcopy(states[0])
    weights = {"edit_target": 3, "flip_dep_fact": 4, "conf": 4, "go": 3, "tags": 2, "tests": 2, "checks": 3,
               "goos": 2, "revert": 3, "touch": 1, "goarch": 1, "gomod": 1, "break": 2, "godebug": 1, "pattern": 2,
               "http": 1 if full else 0}
    bag = [k for k, w in weights.items() for _ in range(w)]
    while len(ops) < length:
        cur = states[-1]
        k = rng.choice(bag)
        op = {"kind": k}
        if k == "edit_target":
            op["bit"] = None if rng.chance(1, 3) else rng.below(APP_BITS)
        elif k == "flip_dep_fact":
            op["pkg"] = "leaf" if rng.chance(3, 5) else "dep"
            op["fact"] = rng.choice(DEP_FACTS[op["pkg"]])
        elif k == "conf":
            op["level"] = rng.choice(LEVELS)
            cands = [v for v in [None] + list(range(len(CONF_VARIANTS))) if v != cur["conf"][op["level"]]]
            op["variant"] = rng.choice(cands)
        elif k == "go":
            op["value"] = rng.choice([v for v in GO_VALUES if v != cur["go"]])
        elif k == "tags":
            op["value"] = rng.choice([v for v in TAGS_VALUES if v != cur["tags"]])
        elif k == "tests":
            op["value"] = not cur["tests"]
        elif k == "checks":
            op["value"] = rng.choice([v for v in CHECKS_VALUES if v != cur["checks"]])
        elif k == "goos":
            op["value"] = rng.choice([v for v in GOOS_VALUES if v != cur["goos"]])
        elif k == "goarch":
            op["value"] = rng.choice([v for v in GOARCH_VALUES if v != cur["goarch"]])
        elif k == "gomod":
            op["value"] = rng.choice([v for v in GOMOD_VALUES if v != cur["gomod"]])
        elif k == "http":
            op["value"] = not cur["http"]
        elif k == "godebug":
            op["value"] = rng.choice([v for v in [None, "asynctimerchan=1", "panicnil=1"] if v != cur["godebug"]])
        elif k == "break":
            op["value"] = rng.choice([v for v in [None, "dep", "leaf", "dep-lang"] if v != cur["broken"]])
        elif k == "pattern":
            op["value"] = rng.choice([v for v in PATTERNS if v != cur["pattern"]])
        elif k == "revert":
            if len(states) < 2:
                continue
            op["to"] = rng.below(len(states) - 1)
        new = apply_op(states, op)
        if not full and needs_std(new) and (new["go"], new["goos"], new["goarch"]) != (None, "linux", "amd64"):
            continue
        states.append(new)
        ops.append(op)
    return ops


def states_of(ops):
    states = [dict(base_state(), **copy.deepcopy(ops[0].get("state") or {}))]
    for op in ops[1:]:
        states.append(apply_op(states, op))
    return states


# --------------------------------------------------------------------------- running the real binary
def invocation(sc, st):
    cmd = [sc, "-f", "json", "-tests=%s" % ("true" if st["tests"] else "false")]
    if st["go"]:
        cmd += ["-go", st["go"]]
    if st["tags"]:
        cmd += ["-tags", st["tags"]]
    if st["checks"] is not None:
        cmd += ["-checks", st["checks"]]
    cmd += [st.get("pattern", "./...")]
    return cmd


def run_sc(sc, st, cwd, cache, procs):
    godebug = GODEBUG + (("," + st["godebug"]) if st.get("godebug") else "")
    env = vlib.go_env({"STATICCHECK_CACHE": cache, "GODEBUG": godebug, "GOOS": st["goos"], "GOARCH": st.get("goarch", "amd64")})
    if procs:
        env["GOMAXPROCS"] = str(procs)
    for k, v in (st.get("setenv") or {}).items():
        env[k] = v
    rc, so, se = vlib.run(invocation(sc, st), cwd=cwd, env=env, timeout=1800)
    return rc, so, se


def canon_output(rc, so, root):
    """the observable of the property: the problems (parsed JSON lines, module root made
    relative, sorted) and the exit status."""
    out = []
    bad = []
    for line in so.splitlines():
        if not line.strip():
            continue
        try:
            j = json.loads(line)
        except ValueError:
            bad.append(line[:300])
            continue
        out.append(json.dumps(j, sort_keys=True).replace(root, "$ROOT"))
    out.sort()
    return {"exit": rc, "problems": out, "unparsable": bad}


def other_stderr(se):
    return [l for l in se.splitlines() if not l.startswith("HASH")]


# --------------------------------------------------------------------------- parsing GODEBUG=gocachehash=1
RE_START = re.compile(r"^HASH\[(package|staticcheck) (.*)\]$")
RE_LINE = re.compile(r"^HASH\[(package|staticcheck) (.*?)\]: (.*)$")
RE_SUB = re.compile(r'^HASH subkey ([0-9a-f]{64}) "(\w+)" = ([0-9a-f]{64})$')
RE_HEX = re.compile(r"^[0-9a-f]{64}$")


def go_unquote(payload):
    """a Go %q string -> its text (the escapes Go emits are a subset of Python's)"""
    try:
        v = pyast.literal_eval(payload)
        return v if isinstance(v, str) else payload
    except (ValueError, SyntaxError):
        return payload


ZERO_VALUES = ("[]string(nil)", "nil", '""', "0", "false")


def parse_cfg(payload):
    """the `cfg %#v` component -> [(field, printed value)] of the fields whose printed value is
    not the zero value; None if the payload is not a printed struct"""
    txt = go_unquote(payload).strip()
    m = re.match(r"^cfg [\w.]*\{(.*)\}$", txt, re.S)
    if not m:
        return None
    body = m.group(1)
    parts, depth, inq, cur, i = [], 0, False, "", 0
    while i < len(body):
        ch = body[i]
        if inq:
            cur += ch
            if ch == "\\" and i + 1 < len(body):
                cur += body[i + 1]
                i += 1
            elif ch == '"':
                inq = False
        elif ch == '"':
            inq = True
            cur += ch
        elif ch in "{([":
            depth += 1
            cur += ch
        elif ch in "})]":
            depth -= 1
            cur += ch
        elif ch == "," and depth == 0:
            parts.append(cur)
            cur = ""
        else:
            cur += ch
        i += 1
    if cur.strip():
        parts.append(cur)
    out = []
    for part in parts:
        name, sep, val = part.strip().partition(":")
        if not sep or not re.match(r"^\w+$", name):
            return None
        if val not in ZERO_VALUES:
            out.append((name, val))
    return out


def comp_of_action(payload, first):
    """one Write of subrunner.do -> (tag, value)"""
    if first:
        return ("salt", payload)
    m = re.match(r'^"env (\w+) (.*)\\n"$', payload)
    if m:
        return ("env", (m.group(1).upper(), m.group(2)))
    if payload.startswith('"cfg '):
        fields = parse_cfg(payload)
        return ("cfg", tuple(fields) if fields is not None else (("<unparsed>", payload),))
    m = re.match(r'^"vetout \\"(.*)\\" ([0-9a-f]{64})\\n"$', payload)
    if m:
        return ("vetout", (m.group(1), m.group(2)))
    m = re.match(r'^"pkg ([0-9a-f]{64})\\n"$', payload)
    if m:
        return ("pkg", m.group(1))
    m = re.match(r'^"([A-Za-z_]+)[ \\]', payload)
    tag = m.group(1) if m else "?"
    return (tag, payload)


def comp_of_package(payload, first):
    """one Write of computeHash -> (tag, value)"""
    if first:
        return ("salt", payload)
    m = re.match(r'^"goos (\S*) goarch (\S*)\\n"$', payload)
    if m:
        return ("goos", (m.group(1), m.group(2)))
    m = re.match(r'^"import \\"(.*)\\"\\n"$', payload)
    if m:
        return ("import-self", m.group(1))
    m = re.match(r'^"files? (.*)\\n"$', payload)
    if m:
        return ("files", m.group(1))
    m = re.match(r'^"import (\S+) (.*)\\n"$', payload)
    if m:
        return ("import", (m.group(1), m.group(2)))
    m = re.match(r'^"([A-Za-z_]+)[ \\]', payload)
    return (m.group(1) if m else "?", payload)


def parse_hash_log(se, sequential=True):
    """-> (package blocks by sum, action list in execution order).  With sequential=False
    (parallel run) only the tags are reliable."""
    open_blocks = {}
    pkgs = {}
    acts = []
    subs = {}
    for line in se.splitlines():
        if not line.startswith("HASH"):
            continue
        m = RE_SUB.match(line)
        if m:
            subs.setdefault(m.group(1), []).append((m.group(2), m.group(3)))
            continue
        m = RE_START.match(line)
        if m:
            key = (m.group(1), m.group(2))
            if key in open_blocks and sequential:
                raise vlib.HarnessError("interleaved HASH blocks for %s" % (key,))
            open_blocks[key] = {"kind": m.group(1), "name": m.group(2), "comps": [], "n": 0}
            continue
        m = RE_LINE.match(line)
        if m:
            key = (m.group(1), m.group(2))
            b = open_blocks.get(key)
            if b is None:
                if sequential:
                    raise vlib.HarnessError("HASH line outside a block: " + line[:200])
                continue
            payload = m.group(3)
            if RE_HEX.match(payload):
                b["sum"] = payload
                del open_blocks[key]
                if b["kind"] == "package":
                    pkgs[payload] = b
                else:
                    acts.append(b)
                continue
            f = comp_of_package if b["kind"] == "package" else comp_of_action
            b["comps"].append(f(payload, b["n"] == 0))
            b["n"] += 1
    for a in acts:
        a["subs"] = subs.get(a["sum"], [])
    return pkgs, acts


def read_index(cache, subkey):
    p = os.path.join(cache, subkey[:2], subkey + "-a")
    try:
        with open(p) as fh:
            parts = fh.read().split()
        return parts[2]
    except (OSError, IndexError):
        return None


def observe_actions(se, cache):
    """Parsed warm run -> list of action records with hit/miss/fail, digests, deps."""
    pkgs, acts = parse_hash_log(se)
    out = []
    for a in acts:
        sub = {}
        for desc, h in a["subs"]:
            sub.setdefault(desc, [h, 0])[1] += 1
        rec = {"name": a["name"], "sum": a["sum"], "comps": a["comps"], "initial": "results" in sub}
        vet = sub.get("vetx")
        if vet is None:
            raise vlib.HarnessError("action without vetx subkey: " + a["name"])
        rec["vetx"] = read_index(cache, vet[0])
        rec["results"] = read_index(cache, sub["results"][0]) if "results" in sub else None
        written = vet[1] >= 2
        if written:
            rec["obs"] = "m"
        elif rec["vetx"] is not None and (not rec["initial"] or rec["results"] is not None):
            rec["obs"] = "h"
        else:
            rec["obs"] = "f"
            rec["vetx"] = rec["results"] = None
        pk = [v for (t, v) in a["comps"] if t == "pkg"]
        rec["pkgblock"] = pkgs.get(pk[0]) if pk else None
        out.append(rec)
    # dependencies: the earlier action of this run that produced the hashed facts file
    for i, rec in enumerate(out):
        deps = []
        for (t, v) in rec["comps"]:
            if t != "vetout":
                continue
            cand = [j for j in range(i) if out[j]["name"] == v[0] and out[j]["vetx"] == v[1]]
            deps.append(cand[-1] if cand else None)
        rec["deps"] = deps
    return out


class Interner:
    def __init__(self):
        self.m = {}

    def __call__(self, s):
        s = s if isinstance(s, str) else repr(s)
        if s not in self.m:
            self.m[s] = "s%d" % len(self.m)
        return self.m[s]


def tok_name(n):
    """names of configuration fields / environment variables go to the model verbatim (the
    regenerated shape lists them by name); anything that is not a plain word is made one"""
    return n if re.match(r"^\w+$", n) else "x" + hashlib.sha256(n.encode()).hexdigest()[:12]


KNOWN_ACT = {"salt", "cfg", "pkg", "analyzers", "go", "env", "vetout"}
KNOWN_PKG = {"salt", "goos", "import-self", "files", "import"}


def model_line_and_expect(steps):
    """steps: list of observed action lists (one per warm run of a history) ->
    (input line for the model, expected output line, problems found while encoding)"""
    I = Interner()
    toks = ["hist", str(len(steps))]
    expect_steps = []
    problems = []
    seen = []
    prewarmed = [0]
    for si, acts in enumerate(steps):
        glob = None
        atoks = []
        exp = []
        for ai, a in enumerate(acts):
            c = {}
            kx = []
            for (t, v) in a["comps"]:
                if t in ("salt", "cfg", "analyzers", "go", "env"):
                    if t in c:
                        problems.append("step %d %s: component %s written twice" % (si, a["name"], t))
                    c[t] = v
                elif t not in KNOWN_ACT:
                    kx.append((t, v))
            g = tuple(c.get(t) for t in ("salt", "analyzers", "go", "env"))
            if glob is None:
                glob = g
            elif glob != g:
                problems.append("step %d %s: run-wide components differ between actions" % (si, a["name"]))
            pb = a["pkgblock"]
            if pb is None:
                problems.append("step %d %s: no HASH[package] block with the hashed pkg id" % (si, a["name"]))
                pc = []
            else:
                pc = pb["comps"]
            goos = [v for (t, v) in pc if t == "goos"]
            selfp = [v for (t, v) in pc if t == "import-self"]
            files = [v for (t, v) in pc if t == "files"]
            imps = [v for (t, v) in pc if t == "import"]
            px = [(t, v) for (t, v) in pc if t not in KNOWN_PKG]
            psalt = [v for (t, v) in pc if t == "salt"]
            if pb is not None and (psalt[:1] != [c.get("salt")]):
                problems.append("step %d %s: package hash salt differs from action salt" % (si, a["name"]))
            if selfp[:1] != [a["name"]]:
                problems.append("step %d %s: package block is for %s" % (si, a["name"], selfp[:1]))
            if None in a["deps"]:
                problems.append("step %d %s: a vetout component matches no earlier action's facts file" % (si, a["name"]))
            deps = [d for d in a["deps"] if d is not None]
            cfgf = list(c.get("cfg", (("<missing>", "cfg"),)))
            t = ["act", I(a["name"]), "1" if a["initial"] else "0", str(len(cfgf))] + [y for (fn, fv) in cfgf for y in (tok_name(fn), I(fv))]
            t += [I(goos[0][0]) if goos else I("<missing goos>"), I(goos[0][1]) if goos else I("<missing goarch>"),
                  str(len(files))] + [I(x) for x in files]
            t += [str(len(imps))] + [I(y) for x in imps for y in x]
            t += [str(len(px))] + [I(y) for x in px for y in x]
            t += [str(len(kx))] + [I(y) for x in kx for y in x]
            t += [str(len(deps))] + [str(d) for d in deps]
            if a["obs"] == "f":
                t += ["fail"]
            else:
                t += ["ok", I(a["vetx"]), I(a["results"]) if a["results"] else "-"]
            atoks += t
            letter = a["obs"]
            if a["sum"] not in seen:
                seen.append(a["sum"])
                if letter == "h":
                    # served from an entry written before this history started (standard-library
                    # facts of the prewarm run): for the model this is the first analysis
                    letter = "m"
                    prewarmed[0] += 1
            comps = []
            for (tg, v) in a["comps"]:
                if tg == "vetout":
                    comps.append("vetout=%s=%s" % (I(v[0]), I(v[1])))
                elif tg in KNOWN_ACT:
                    comps.append(tg)
                else:
                    comps.append("extra=" + I(tg))
            exp.append("%s%d+/%s" % (letter, seen.index(a["sum"]), ",".join(comps)))
        glob = glob or (None, None, None, None)
        envp = [glob[3]] if glob[3] else []
        toks += ["step", I(glob[0] or "<missing salt>"), I(glob[1] or "<missing analyzers>"),
                 I(glob[2] or "<missing go>"), str(len(envp))] + [y for (en, ev) in envp for y in (tok_name(en), I(ev))]
        toks += [str(len(acts))] + atoks
        expect_steps.append(" ".join(exp))
    return " ".join(toks), " | ".join(expect_steps), problems


def norm_model_token(tok):
    """order-insensitive comparison of the component list when unknown components exist"""
    head, _, comps = tok.partition("/")
    cs = comps.split(",") if comps else []
    if any(c.startswith("extra=") for c in cs):
        cs = sorted(cs)
    return head + "/" + ",".join(cs)


# --------------------------------------------------------------------------- one history
def freeze(st):
    return json.dumps(st, sort_keys=True)


def run_history(ctx, sc, hid, ops, stdcache, parallel=False):
    """Runs one history: per step a warm run (persistent cache of this history) and a cold run
    (fresh cache: empty, or — when the step analyses packages of the standard library — a copy
    of the cache that holds only facts of the standard library).  parallel=True: the warm runs
    use GOMAXPROCS=4 (concurrent writers of one cache inside a run); the HASH blocks then
    interleave, so such a history serves the oracle only, not the model tie."""
    work = os.path.join(ctx.scratch, "hist", "h%s" % hid, "work")
    os.makedirs(work, exist_ok=True)
    root = os.path.join(work, "mod")
    warm = os.path.join(ctx.scratch, "hist", "h%s" % hid, "warm")
    shutil.copytree(stdcache, warm)
    states = states_of(ops)
    res = {"id": hid, "ops": ops, "steps": [], "violations": [], "observed": [], "cold": [], "parallel": parallel,
           "t": time.time()}
    for si, (op, st) in enumerate(zip(ops, states)):
        sync_tree(work, render(st), touch=(op["kind"] == "touch"))
        rc_w, so_w, se_w = run_sc(sc, st, root, warm, 4 if parallel else 1)
        acts = [] if parallel else observe_actions(se_w, warm)
        cold = os.path.join(ctx.scratch, "hist", "h%s" % hid, "cold%d" % si)
        truly_empty = not needs_std(st)
        if truly_empty:
            os.makedirs(cold)
        else:
            shutil.copytree(stdcache, cold)
        rc_c, so_c, se_c = run_sc(sc, st, root, cold, 4)
        shutil.rmtree(cold, ignore_errors=True)
        cw = canon_output(rc_w, so_w, root)
        cc = canon_output(rc_c, so_c, root)
        if rc_w not in (0, 1) and rc_c not in (0, 1) and not so_w.strip() and not so_c.strip():
            # neither run produced a report: the invocation itself is broken (not a property matter)
            raise vlib.HarnessError("staticcheck failed in both runs (history %s step %d): rc=%d/%d %s"
                                    % (hid, si, rc_w, rc_c, "\n".join(other_stderr(se_c))[-1500:]))
        step = {"op": op, "state": st, "cmd": " ".join(invocation("staticcheck", st)), "goos": st["goos"], "goarch": st["goarch"],
                "hits": [a["name"] for a in acts if a["obs"] == "h" and a["name"].startswith(MODPATH)],
                "misses": [a["name"] for a in acts if a["obs"] == "m" and a["name"].startswith(MODPATH)],
                "failed": [a["name"] for a in acts if a["obs"] == "f"],
                "n_actions": len(acts), "n_problems": len(cw["problems"]), "cold_truly_empty": truly_empty,
                "compile_problems": sum(1 for p in cc["problems"] if '"code": "compile"' in p),
                "stderr_warm": other_stderr(se_w)[:5], "stderr_differs": sorted(other_stderr(se_w)) != sorted(other_stderr(se_c))}
        res["steps"].append(step)
        res["observed"].append(acts)
        res["cold"].append(cc)
        if cw != cc:
            only_w = [p for p in cw["problems"] if p not in cc["problems"]]
            only_c = [p for p in cc["problems"] if p not in cw["problems"]]
            res["violations"].append({"step": si, "op": op, "cmd": step["cmd"], "goos": st["goos"], "goarch": st["goarch"],
                                      "warm_GOMAXPROCS": 4 if parallel else 1,
                                      "exit_warm": rc_w, "exit_cold": rc_c,
                                      "only_in_warm_cache_run": only_w[:20], "only_in_cold_cache_run": only_c[:20],
                                      "warm_hits": step["hits"], "warm_misses": step["misses"],
                                      "unparsable": cw["unparsable"][:3] + cc["unparsable"][:3]})
            break  # later steps of this history start from a cache already shown to be wrong
    res["t"] = round(time.time() - res["t"], 2)
    res["states"] = states[:len(res["steps"])]
    shutil.rmtree(os.path.join(ctx.scratch, "hist", "h%s" % hid), ignore_errors=True)
    return res


# --------------------------------------------------------------------------- witness expectations (corpus)
def comp_dict(a):
    """action record -> {tag: value}; the package hash is expanded into pkg:<tag> entries"""
    d = {}
    for (t, v) in a["comps"]:
        if t == "vetout":
            d.setdefault("vetout", []).append(v)
        else:
            d[t] = v
    pb = a.get("pkgblock")
    if pb:
        for (t, v) in pb["comps"]:
            d.setdefault("pkg:" + t, []).append(v)
    return d


def changed_tags(a, b):
    da, db = comp_dict(a), comp_dict(b)
    return sorted(t for t in set(da) | set(db) if da.get(t) != db.get(t))


def check_expectations(res):
    """Corpus histories carry, per op, what flipping that one input must do to the real run:
      key_change: [short package names]  the action key of these packages differs from the previous step's
      comp: "<tag>"                      … and that component is among the ones whose value changed
      output_change: true                the cold run reports something else than the previous step's cold run
      all_hit: true                      every action of the module is served from the cache
    -> (unmet key requirements [= the component no longer covers the input], weaker notes)"""
    unmet, notes, n = [], [], 0
    for si, op in enumerate(res["ops"][:len(res["steps"])]):
        ex = op.get("expect")
        if not ex or si == 0 or res["parallel"]:
            continue
        cur = {a["name"]: a for a in res["observed"][si]}
        prev = {a["name"]: a for a in res["observed"][si - 1]}
        where = {"history": res["id"], "step": si, "op": {k: v for k, v in op.items() if k != "expect"}}
        for short in ex.get("key_change", []):
            n += 1
            name = SHORT[short]
            if name not in cur or name not in prev:
                notes.append(dict(where, note="package %s has no action in one of the two steps" % short))
                continue
            if cur[name]["sum"] == prev[name]["sum"]:
                unmet.append(dict(where, package=name, problem="the input changed alone but the action key did not change"))
                continue
            want = ex.get("comp")
            if want and want not in changed_tags(prev[name], cur[name]):
                unmet.append(dict(where, package=name, problem="the action key changed, but not through component %r (changed: %s)"
                                  % (want, changed_tags(prev[name], cur[name]))))
        if ex.get("output_change"):
            n += 1
            if res["cold"][si] == res["cold"][si - 1]:
                notes.append(dict(where, note="witness without effect: the cold run reports the same as before the change"))
        if ex.get("all_hit"):
            n += 1
            if res["steps"][si]["misses"] or res["steps"][si]["failed"]:
                notes.append(dict(where, note="expected only cache hits, got misses %s failed %s"
                                  % (res["steps"][si]["misses"], res["steps"][si]["failed"])))
    return unmet, notes, n


def nontrivial_steps(res):
    """steps with >=1 hit on an entry written earlier in this history under a different state"""
    written_at = {}
    out = []
    if res.get("parallel"):
        return out
    for si, acts in enumerate(res["observed"]):
        cur = freeze(res["states"][si])
        hit_changed = []
        for a in acts:
            if a["obs"] == "m":
                written_at.setdefault(a["sum"], si)
            elif a["obs"] == "h" and a["sum"] in written_at and freeze(res["states"][written_at[a["sum"]]]) != cur:
                hit_changed.append(a["name"])
        if hit_changed:
            out.append((si, tuple(sorted(hit_changed))))
    return out


# --------------------------------------------------------------------------- prewarm + generated facts
def prewarm(ctx, sc, combos):
    """facts of the standard library (everything the test main packages and net/http import),
    once per (-go, GOOS, GOARCH) combination that some history uses together with -tests or the
    net/http package; merged into one cache directory that contains nothing of the module under
    test.  VERIF_C04_PREWARM=<dir> (development aid) keeps that directory between runs of the
    check; entries are keyed by the build id of the binary, so a stale directory only misses."""
    pw = os.path.join(ctx.scratch, "prewarm")
    mod = os.path.join(pw, "mod")
    os.makedirs(os.path.join(mod, "p", "q"), exist_ok=True)
    os.makedirs(os.path.join(mod, "h"), exist_ok=True)
    open(os.path.join(mod, "go.mod"), "w").write("module example.com/prewarm\n\ngo 1.21\n")
    open(os.path.join(mod, "p", "q", "q.go"), "w").write("package q\n\nfunc Q() int { return 1 }\n")
    open(os.path.join(mod, "p", "p.go"), "w").write("package p\n\nimport \"example.com/prewarm/p/q\"\n\nfunc P() int { return q.Q() }\n")
    open(os.path.join(mod, "p", "p_test.go"), "w").write("package p\n\nimport \"testing\"\n\nfunc TestP(t *testing.T) {\n\tif P() != 1 {\n\t\tt.Fatal()\n\t}\n}\n")
    open(os.path.join(mod, "h", "h.go"), "w").write("package h\n\nimport \"net/http\"\n\nfunc H(w http.ResponseWriter) { http.Error(w, \"x\", http.StatusTeapot) }\n")
    keep = os.environ.get("VERIF_C04_PREWARM")
    std = os.path.join(keep, "std") if keep else os.path.join(pw, "std")
    os.makedirs(std, exist_ok=True)
    logs = []

    def one(c):
        go, goos, goarch = c
        d = os.path.join(pw, "c_%s_%s_%s" % (go or "module", goos, goarch))
        if keep:
            shutil.copytree(std, d)
        else:
            os.makedirs(d, exist_ok=True)
        st = dict(base_state(), go=go, goos=goos, goarch=goarch, tests=True, checks=None)
        rc, so, se = run_sc(sc, st, mod, d, 0)
        if rc not in (0, 1):
            raise vlib.HarnessError("prewarm run failed (%s): rc=%d %s" % (c, rc, "\n".join(other_stderr(se))[-1500:]))
        return d, se

    combos = sorted(combos, key=lambda c: (c[0] or "", c[1], c[2]))
    base = [(None, "linux", "amd64")]
    todo = base + [c for c in combos if c not in base]
    with ThreadPoolExecutor(max_workers=4) as ex:
        for d, se in ex.map(one, todo):
            logs.append(se)
            for sub in os.listdir(d):
                sp = os.path.join(d, sub)
                if os.path.isdir(sp):
                    os.makedirs(os.path.join(std, sub), exist_ok=True)
                    for fn in os.listdir(sp):
                        if not os.path.exists(os.path.join(std, sub, fn)):
                            shutil.copy2(os.path.join(sp, fn), os.path.join(std, sub, fn))
            shutil.rmtree(d, ignore_errors=True)
    return std, logs, todo


def observed_shape(logs):
    """run-time facts for Generated.lean: tags written, configuration fields ever printed with a
    non-zero value, environment variables printed"""
    at, pt, cf, ev = [], [], [], []
    for se in logs:
        pkgs, acts = parse_hash_log(se, sequential=False)
        for a in acts:
            for (t, v) in a["comps"]:
                if t not in at:
                    at.append(t)
                if t == "cfg":
                    for (fn, _) in v:
                        if fn not in cf:
                            cf.append(fn)
                if t == "env" and v[0] not in ev:
                    ev.append(v[0])
        for b in pkgs.values():
            for (t, _) in b["comps"]:
                if t not in pt:
                    pt.append(t)
    return at, pt, cf, ev


def extract_source_shape(ctx):
    """go/ast extraction from the *current* tree (harness/cmd/c04extract): which configuration
    fields / environment variables reach the key, which are read at analysis time"""
    ex = vlib.build_harness(ctx, "c04extract")
    rc, so, se = vlib.run([vlib.GO, "list", "-deps", "-tags", "verif", "-f", "{{.Dir}}", "./cmd/staticcheck"],
                          cwd=vlib.REPO, env=vlib.go_env(), timeout=600)
    if rc != 0:
        raise vlib.BuildError("go list -deps ./cmd/staticcheck failed: " + se[-2000:])
    root = os.path.realpath(vlib.REPO)
    dirs = [d for d in so.split() if os.path.realpath(d).startswith(root + os.sep) or os.path.realpath(d) == root]
    lf = ctx.path("c04", "linked_dirs.txt")
    open(lf, "w").write("\n".join(os.path.realpath(d) for d in dirs) + "\n")
    rc, so, se = vlib.run([ex, root, lf], timeout=600)
    if rc != 0:
        raise vlib.HarnessError("c04extract failed: " + se[-2000:])
    return json.loads(so)


def lean_str(s):
    return '"' + s.replace("\\", "\\\\").replace('"', '\\"') + '"'


def lean_list(xs):
    return "[" + ", ".join(lean_str(x) for x in xs) + "]"


def write_generated(at, pt, cf, ev, src):
    text = ("-- GENERATED by checks/c04.py (source: harness/cmd/c04extract over the current tree; run time: GODEBUG=gocachehash=1). Do not edit.\n"
            "import Verif.C04.Model\n"
            "namespace Verif.C04.Gen\n\n"
            "/-- tags of the components `subrunner.do` wrote into HASH[staticcheck …] (union over all observed actions) -/\n"
            "def observedActionTags : List String := %s\n\n"
            "/-- tags of the components `computeHash` wrote into HASH[package …] -/\n"
            "def observedPkgTags : List String := %s\n\n"
            "/-- fields of config.Config whose printed value in a HASH cfg line was ever not the zero value -/\n"
            "def observedCfgHashed : List String := %s\n\n"
            "/-- environment variables seen in HASH `env …` lines -/\n"
            "def observedEnvHashed : List String := %s\n\n"
            "/-- source: tags of the fmt.Fprintf(h, …) calls of subrunner.do (+ salt of cache.NewHash) -/\n"
            "def srcActionTags : List String := %s\n\n"
            "/-- source: tags of the fmt.Fprintf(key, …) calls of computeHash -/\n"
            "def srcPkgTags : List String := %s\n\n"
            "/-- source: fields of config.Config -/\n"
            "def cfgFields : List String := %s\n\n"
            "/-- source: which named inputs reach the key / are read at analysis time -/\n"
            "def shape : Shape :=\n"
            "  { cfgHashed := %s,\n"
            "    cfgReads := %s,\n"
            "    envHashed := %s,\n"
            "    envReads := %s }\n\n"
            "end Verif.C04.Gen\n") % (lean_list(at), lean_list(pt), lean_list(cf), lean_list(ev),
                                      lean_list(src["srcActionTags"]), lean_list(src["srcPkgTags"]), lean_list(src["cfgFields"]),
                                      lean_list(src["cfgHashed"]), lean_list(src["cfgReads"]), lean_list(src["envHashed"]),
                                      lean_list(src["envReads"]))
    return vlib.write_if_changed(os.path.join(vlib.LEAN_DIR, "Verif", "C04", "Generated.lean"), text)


def shape_obligations(at, pt, cf, ev, src, req_act, req_pkg):
    """the generated-facts obligations of Theorems.lean, evaluated again in python so that the
    replay can say which one fails (the kernel check is what counts)"""
    bad = {}

    def sub(name, xs, ys):
        miss = [x for x in xs if x not in ys]
        if miss:
            bad[name] = miss
    sub("gen_covers: configuration fields read by an analyzer but not hashed into the cfg component (source)", src["cfgReads"], src["cfgHashed"])
    sub("gen_covers: environment variables read at analysis time but not written into the key (source)", src["envReads"], src["envHashed"])
    sub("gen_runtime_covers: configuration fields read by an analyzer but never printed with a value in a HASH cfg line", src["cfgReads"], cf)
    sub("gen_runtime_covers: environment variables read at analysis time but never printed in a HASH env line", src["envReads"], ev)
    sub("gen_reads_are_fields: fields read that config.Config does not have", src["cfgReads"], src["cfgFields"])
    if not src["cfgFields"] or not src["cfgReads"]:
        bad["gen_reads_are_fields: the extraction found no fields / no readers"] = [src["cfgFields"], src["cfgReads"]]
    if req_act is not None:
        sub("key_covers_inputs: model key components never observed in HASH[staticcheck …]", req_act, at)
        sub("pkg_key_covers_inputs: model package-hash components never observed in HASH[package …]", req_pkg, pt)
        sub("src_key_covers_inputs: model key components without a Fprintf in subrunner.do", req_act, src["srcActionTags"])
        sub("src_key_covers_inputs: model package-hash components without a Fprintf in computeHash", req_pkg, src["srcPkgTags"])
    return bad


# --------------------------------------------------------------------------- corpus (targeted histories)
def corpus_histories():
    p = os.path.join(vlib.VERIF, "corpus", "C04", "histories.json")
    with open(p) as fh:
        data = json.load(fh)
    out = []
    for h in data["histories"]:
        ops = [{"kind": "init", "state": dict(base_state(), **h.get("state", {}))}] + h["ops"]
        out.append((h["name"], h.get("component"), ops))
    return out


# --------------------------------------------------------------------------- main
N_GENERATED = {"quick": 8, "thorough": 200}     # generated histories (model tie + oracle), fixed counts
N_PARALLEL = {"quick": 2, "thorough": 24}       # generated histories whose warm runs use GOMAXPROCS=4 (oracle only)


def run(ctx):
    t0 = time.time()
    ru0 = resource.getrusage(resource.RUSAGE_CHILDREN)
    sc = vlib.build_repo_cmd(ctx, "./cmd/staticcheck")
    src = extract_source_shape(ctx)
    rng = vlib.SplitMix(ctx.seed).fork("C04")

    # histories (explicit op lists), fixed by the seed; the work is cut by COUNT, never by time
    replay = None
    if ctx.replay:
        replay = json.load(open(ctx.replay))
    full = not ctx.quick
    hists, par_hists = [], []
    if replay is not None and replay.get("ops"):
        hists = [("replay", replay["ops"])]
        if replay.get("failing_step", {}).get("warm_GOMAXPROCS") == 4:
            hists, par_hists = [], hists
    else:
        for i in range(N_GENERATED[ctx.tier]):
            r = rng.fork("h%d" % i)
            hists.append(("g%d" % i, gen_history(r, 3 + r.below(6), full)))
        for i in range(N_PARALLEL[ctx.tier]):
            r = rng.fork("p%d" % i)
            par_hists.append(("p%d" % i, gen_history(r, 3 + r.below(4), full)))
    corpus = [] if (replay is not None and replay.get("ops")) else corpus_histories()
    # violation search for an obligation that is about to fail: an environment variable that
    # analysis-time code reads and the key does not hash gets its own targeted history
    # (run; set it; run; other value; run; unset; run) through the oracle
    for e in [x for x in src["envReads"] if x not in src["envHashed"] and re.match(r"^\w+$", x)][:3]:
        ops = [{"kind": "init", "state": base_state()}]
        for v in ["1", "FOO,ID,Id,Api,URL", None, "verif-x"]:
            ops.append({"kind": "setenv", "name": e, "value": v})
        corpus.append(("search_env_" + e, "env", ops))
    only = os.environ.get("VERIF_C04_ONLY")   # development aid: run the named corpus histories only
    if only:
        corpus = [c for c in corpus if c[0] in only.split(",") or c[0].startswith("search_")]
        hists, par_hists = [], []
        ctx.notes.append("VERIF_C04_ONLY=%s: partial run" % only)
    combos = set()
    for _, ops in hists + par_hists + [(n, o) for (n, _, o) in corpus]:
        for st in states_of(ops):
            if needs_std(st) and st["go"] != "1.3":
                combos.add((st["go"], st["goos"], st["goarch"]))

    stdcache, logs, warmed = prewarm(ctx, sc, combos)
    t_prewarm = time.time() - t0
    at, pt, cf, ev = observed_shape(logs)
    gen_changed = write_generated(at, pt, cf, ev, src)

    # Lean build + audit in the background while the real binary runs
    lean = {}

    def lean_phase():
        try:
            lean["ok"], lean["broke"] = vlib.std_lean_phase(ctx, MODULES, THEOREMS)
        except Exception as e:  # noqa
            lean["ok"], lean["broke"] = False, {"exception": repr(e)}

    th = threading.Thread(target=lean_phase)
    th.start()

    workers = 8
    t_hist0 = time.time()
    with ThreadPoolExecutor(max_workers=workers) as ex:
        futs = [(name, ex.submit(run_history, ctx, sc, "c_" + name, ops, stdcache)) for (name, _, ops) in corpus]
        gfuts = [ex.submit(run_history, ctx, sc, name, ops, stdcache) for (name, ops) in hists]
        pfuts = [ex.submit(run_history, ctx, sc, name, ops, stdcache, True) for (name, ops) in par_hists]
        corpus_res = [(name, f.result()) for name, f in futs]
        results = [f.result() for f in gfuts]
        par_res = [f.result() for f in pfuts]
    th.join()
    lean_ok, lean_broke = lean.get("ok", False), lean.get("broke", {})

    tie_res = [r for _, r in corpus_res] + results
    all_res = tie_res + par_res

    # ---- X-runtime tie: model replay of every sequential history
    tie_diffs = []
    encode_problems = []
    model_ok = os.path.exists(vlib.driver_path("C04")) and lean_ok
    req_act = req_pkg = None
    if os.path.exists(vlib.driver_path("C04")):
        try:
            outs0 = vlib.run_model(ctx, "C04", ["fields"])
            req_act, req_pkg = [x.split(",") for x in outs0[0].split()]
        except Exception:  # noqa: the driver is stale or broken; the Lean phase reports it
            model_ok = False
    if model_ok:
        lines, expects = [], []
        for r in tie_res:
            l, e, pr = model_line_and_expect(r["observed"])
            lines.append(l)
            expects.append(e)
            for p in pr:
                encode_problems.append({"history": r["id"], "problem": p})
        outs = vlib.run_model(ctx, "C04", lines)
        for r, l, e, o in zip(tie_res, lines, expects, outs):
            if o == "bad-op":
                raise vlib.HarnessError("model rejected history line: " + l[:300])
            es, os_ = e.split(" | "), o.split(" | ")
            for si, (a, b) in enumerate(zip(es, os_)):
                at_, bt_ = a.split(" ") if a else [], b.split(" ") if b else []
                if len(at_) != len(bt_):
                    tie_diffs.append({"history": r["id"], "step": si, "observed": "%d actions" % len(at_), "model": "%d actions" % len(bt_)})
                for ai, (x, y) in enumerate(zip(at_, bt_)):
                    if norm_model_token(x) != norm_model_token(y):
                        tie_diffs.append({"history": r["id"], "step": si, "action": r["observed"][si][ai]["name"],
                                          "observed": x[:200], "model": y[:200], "ops": r["ops"][:si + 1]})
    obligations_bad = shape_obligations(at, pt, cf, ev, src, req_act, req_pkg)
    extra_act = [t for t in at if t not in KNOWN_ACT]
    extra_pkg = [t for t in pt if t not in KNOWN_PKG]

    # ---- witness expectations of the corpus histories
    unmet, wnotes, n_expect = [], [], 0
    for _, r in corpus_res:
        u, w, n = check_expectations(r)
        unmet += u
        wnotes += w
        n_expect += n

    # ---- evidence
    oracle_viol = [(r, v) for r in all_res for v in r["violations"]]
    nontriv = {}
    op_hist = {k: 0 for k in OP_KINDS}
    hit_hist = {"steps_with_hit_of_changed_world": 0, "steps_all_hit": 0, "steps_all_miss": 0, "steps_with_failed_analysis": 0,
                "steps_with_compile_problems": 0}
    n_steps = 0
    n_actions = 0
    for r in all_res:
        for si, s in enumerate(r["steps"]):
            n_steps += 1
            n_actions += s["n_actions"]
            if s["op"]["kind"] in op_hist:
                op_hist[s["op"]["kind"]] += 1
            if s["hits"] and not s["misses"]:
                hit_hist["steps_all_hit"] += 1
            if s["misses"] and not s["hits"]:
                hit_hist["steps_all_miss"] += 1
            if s["failed"]:
                hit_hist["steps_with_failed_analysis"] += 1
            if s["compile_problems"]:
                hit_hist["steps_with_compile_problems"] += 1
        for (si, names) in nontrivial_steps(r):
            hit_hist["steps_with_hit_of_changed_world"] += 1
            nontriv[(freeze(r["states"][si]), names, r["steps"][si]["op"]["kind"])] = 1
    samples = []
    for r in all_res[:3] + all_res[-3:]:
        samples.append({"history": r["id"], "steps": [{"op": s["op"] if s["op"]["kind"] != "init" else {"kind": "init"},
                                                       "cmd": s["cmd"], "hits": s["hits"], "misses": s["misses"],
                                                       "problems": s["n_problems"]} for s in r["steps"]]})
    ru1 = resource.getrusage(resource.RUSAGE_CHILDREN)
    ctx.coverage.update({
        "evaluations": n_steps,
        "distinct_nontrivial": len(nontriv),
        "rule": "one evaluation = one step of a history: warm run (cache shared with all earlier steps) vs the same "
                "invocation on a fresh cache, outputs compared; non-trivial = the warm run served >=1 action of the "
                "generated module from an entry written at an earlier step although the world (files, configs, flags, "
                "GOOS/GOARCH, go.mod, environment) differs from the world of that earlier step; distinct by (world, set of such actions, edit kind)",
        "histories": len(all_res), "corpus_histories": len(corpus_res), "generated_histories": len(results),
        "generated_histories_parallel_warm_run(oracle only)": len(par_res),
        "work_cut_by": "fixed counts per tier (N_GENERATED, N_PARALLEL in checks/c04.py); no time box",
        "actions_observed": n_actions,
        "edit_kinds": op_hist, "hit_patterns": hit_hist,
        "history_lengths": sorted(set(len(r["steps"]) for r in all_res)),
        "observed_action_tags": at, "observed_package_tags": pt, "observed_cfg_fields_hashed": cf, "observed_env_hashed": ev,
        "source_shape": src,
        "model_required_tags": {"action": req_act, "package": req_pkg},
        "generated_lean_rewritten": bool(gen_changed),
        "witness_expectations": {"checked": n_expect, "key_requirements_unmet": len(unmet), "weaker_notes": wnotes[:10]},
        "prewarmed_std_for(-go,GOOS,GOARCH)": [list(c) for c in warmed],
        "model_tie": {"histories_replayed_by_model": len(tie_res) if model_ok else 0, "token_mismatches": len(tie_diffs),
                      "encode_problems": len(encode_problems)},
        "timing_s": {"prewarm": round(t_prewarm, 1), "histories": round(time.time() - t_hist0, 1),
                     "cpu_children_user+sys": round((ru1.ru_utime - ru0.ru_utime) + (ru1.ru_stime - ru0.ru_stime), 1)},
        "samples": samples,
    })
    ctx.assumptions += [
        "sha256 (cache.NewHash, cache.FileHash, cache.Subkey) is collision free and the byte serialisation of the Write calls is unambiguous: hypotheses Inj Hp / Inj H / Inj vhash of warm_eq_cold",
        "the analysis of a package is deterministic in what the model hands it (package sources as seen by the Go toolchain's build id, the configuration fields read through config.For(pass), the environment variables read by analysis-time packages, target Go version, analyzer set, dependency facts), up to the order of facts in the vetx file (hypothesis Respects); that this list is complete for inputs that are not configuration fields or environment variables is probed by the warm-vs-cold differential runs, not proved",
        "which configuration fields / environment variables are read is extracted syntactically (config.For(pass).F, os.Getenv in the analysis-time packages linked into cmd/staticcheck, files tagged `verif` excluded); uses the extractor cannot resolve are counted as reading everything",
        "cold run of a step that analyses tests or net/http = a cache holding only standard-library facts written by the same binary (truly empty otherwise); warm caches start from the same standard-library facts",
        "salt (build id of the binary) and the analyzer list cannot change within one check run",
        "warnings on stderr (e.g. 'skipped package … too large') are not problems and are not compared",
    ]
    if extra_act or extra_pkg:
        ctx.notes.append("key components unknown to the model were observed (harmless for transparency, treated as extra inputs): %s %s" % (extra_act, extra_pkg))
    if src.get("notes"):
        ctx.notes.append("source extraction: " + "; ".join(src["notes"][:5]))
    for w in wnotes[:5]:
        ctx.notes.append("witness: %s" % json.dumps(w, sort_keys=True)[:300])

    # ---- classification
    if oracle_viol:
        for n, (r, v) in enumerate(oracle_viol[:5]):
            name = "history_%s_step%d.json" % (r["id"], v["step"])
            ctx.violation(name, {
                "what": "the run sharing the cache with the earlier steps reports different problems than the same invocation on a fresh cache",
                "how_to_replay": "./check C04 --replay <this file>; by hand: render the tree of every step with checks/c04.py:render(state), "
                                 "run `cmd` in work/mod with STATICCHECK_CACHE=<one dir for all steps> GODEBUG=gocachehash=1 GOOS=<goos> GOARCH=<goarch>, "
                                 "then the last step again with STATICCHECK_CACHE=<empty dir>",
                "ops": r["ops"][:v["step"] + 1], "states": r["states"][:v["step"] + 1],
                "failing_step": v, "obligations_failing": obligations_bad,
                "key_requirements_unmet": [u for u in unmet if u["history"] == r["id"]][:5],
            }, text="C04: history %s step %d (%s, `%s`): warm-cache run differs from cold-cache run; only warm: %s; only cold: %s" % (
                r["id"], v["step"], v["op"]["kind"], v["cmd"], [p[:160] for p in v["only_in_warm_cache_run"][:2]],
                [p[:160] for p in v["only_in_cold_cache_run"][:2]]))
    elif (not lean_ok) or tie_diffs or encode_problems or obligations_bad or unmet:
        # the corpus histories ARE the targeted search (one per key component / named input); they ran above
        ctx.violation("correspondence.json", {
            "what": "a proof obligation or the model/implementation correspondence no longer checks, but every warm run "
                    "(corpus histories targeted at each key component and each named input + generated histories) equalled its cold run",
            "lean": lean_broke, "obligations_failing": obligations_bad,
            "key_requirements_unmet(an input was flipped alone and the key did not follow)": unmet[:20],
            "source_shape": src,
            "correspondence": "C04 hist stream (hit/miss pattern, key classes, vetout components, served digests); theorems " + ", ".join(THEOREMS),
            "token_mismatches": tie_diffs[:20], "encode_problems": encode_problems[:20],
            "targeted_histories_run": [n for n, _ in corpus_res],
        }, nofail=True)
    return vlib.finish(ctx, "proof")


META = {
    "level": "proof",
    "technique": "Lean 4 theorems over a model of the runner's keyed memoisation in which the key and the analysis are functions of NAMED inputs "
                 "(cache invariant; warm = cold for all histories and any post-processing of the loaded results, from the structural obligation "
                 "'every named input the analysis reads is hashed'; that obligation re-proved by the kernel for the shape extracted from the current "
                 "source and from the run-time HASH lines; a counter-model shows it cannot be dropped); run-time tie to the real binary through "
                 "GODEBUG=gocachehash=1; differential warm/cold runs of the real binary over targeted witness histories (one per named input, with "
                 "required key changes) and generated edit histories (fixed counts)",
    "text": "warm_eq_cold / warm_eq_cold_post are proved for all histories of worlds and all package DAGs over the Lean model of subrunner.do/computeHash and of what "
            "linter.lint loads, under the hypotheses: sha256 injective, the analysis deterministic (up to fact order) in the inputs the model hands it, and the "
            "structural obligation Shape.Covers (configuration fields read through config.For(pass) and environment variables read by analysis-time packages are "
            "among those written into the key). Covers is not assumed for the code under test: go/ast extraction (harness/cmd/c04extract: fields of config.Config, "
            "the fields reaching the cfg component of subrunner.do, config.For(pass).F readers, os.Getenv readers, Fprintf tags of do/computeHash) and the HASH "
            "lines of the running binary regenerate Verif/C04/Generated.lean on every run, and gen_covers / gen_runtime_covers / src_key_covers_inputs / "
            "key_covers_inputs are kernel-checked closed terms over it; warm_eq_cold_gen is transparency for that shape without the hypothesis; "
            "uncovered_input_breaks exhibits a shape with a read-but-unhashed field where warm differs from cold. The model must reproduce hit/miss pattern, "
            "key equalities, vetout components and served digests of every sequential history. The remaining hypothesis and the property itself are evaluated "
            "directly: every step of every history compares the warm run with a cold run of the real binary; each corpus history flips one named input alone "
            "(initialisms, dot_import_whitelist, http_status_code_whitelist, -go, go.mod go directive, GOOS, GOARCH, -tags, -tests, GODEBUG, package pattern, "
            "direct/indirect dependency facts, comment-only directive edit, touch, revert, packages that fail to compile / to type-check and are repaired) "
            "and REQUIRES the action key to follow through the named component.",
    "note": "Trusted: Lean kernel; c04driver (compiled model); checks/c04.py (generator, parser of HASH lines, canonicalisation); harness/cmd/c04extract "
            "(syntactic; unresolved uses count as reading everything); Go toolchain build ids. Outside: salt/analyzer-set changes (need another binary), inputs "
            "read by analyzers that are neither configuration fields nor environment variables (files outside the package, time, …: found only by the "
            "differential runs), the byte-level cache (C05), the scheduler (C06), lint.go's post-processing beyond 'a function of the loaded results' (C10).",
    "design_ref": "DESIGN.md section 5, C04",
}
