"""C20 — version-restricted problems respect the effective Go version.

Lean: Verif/C20/{Model,Theorems}.lean.  Tie: X — a probe analyzer calling the real
report.Report with each bound kind at each threshold runs through the real
lintcmd/runner/loader over a grid of generated modules (module go directive x file
go1.N build constraint x -go flag); the set of reported probes and the effective
versions are compared with the model (which is proved equal to the specification
`report_iff_in_range`).  The grid is finite and enumerated completely.
"""
import json
import os
from concurrent.futures import ThreadPoolExecutor

import vlib

MODULES = ["Verif.C20.Theorems"]
THEOREMS = [
    "Verif.C20.report_iff_in_range",
    "Verif.C20.setter_targets",
    "Verif.C20.minLang_reported_iff",
    "Verif.C20.maxLang_reported_iff",
    "Verif.C20.minStd_reported_iff",
    "Verif.C20.maxStd_reported_iff",
    "Verif.C20.effective_lang_spec",
    "Verif.C20.effective_std_spec",
    "Verif.C20.tc_version_spec",
    "Verif.C20.ver_le_trans",
    "Verif.C20.ver_le_total",
]
KINDS = ["minlang", "maxlang", "minstd", "maxstd"]
TOOLCHAIN = "go1.26"


def grid(ctx):
    if ctx.quick:
        mods = ["1.17", "1.20", "1.21", "1.22.3", "1.24"]
        flags = [None, "1.19", "1.23"]
        tags = [None, "go1.18", "go1.21", "go1.23"]
        thr = ["go1.%d" % n for n in range(16, 27)] + ["go1.22.3", "go1.21.0"]
    else:
        mods = ["1.%d" % n for n in range(16, 27)] + ["1.21.0", "1.22.3", "1.20.5"]
        flags = [None] + ["1.%d" % n for n in range(16, 27)]
        tags = [None] + ["go1.%d" % n for n in range(16, 27)]
        thr = ["go1.%d" % n for n in range(14, 27)] + ["go1.22.3", "go1.21.0", "go1.20.0", "go1.26.1"]
    return mods, flags, tags, thr


REAL_SRC = """package p

import (
	"strings"
	"time"
)

func F%(n)s(xs []int, t time.Time) (string, time.Duration) {
	for _ = range xs {
	}
	return strings.Title("x"), t.Sub(time.Now())
}
"""
# (check, message fragment, bound kind, threshold source)
REAL = [("S1005", "unnecessary assignment to the blank identifier", "minlang", "go1.4"),
        ("S1024", "time.Until", "minstd", "go1.8"),
        ("SA1019", "strings.Title", "minstd", "dep:strings.Title")]


def real_checks(ctx, probe):
    """The version-restricted checks that exist in the tree (S1005, S1024, SA1019), through
    the real staticcheck binary, against the model."""
    sc = vlib.build_repo_cmd(ctx, "./cmd/staticcheck")
    rc, so, se = vlib.run([probe, "-deprecations", "strings.Title"], env=vlib.go_env())
    dep = dict(l.split() for l in so.strip().splitlines())
    if any(v == "-" for v in dep.values()):
        raise vlib.HarnessError("knowledge.StdlibDeprecations lacks strings.Title: %s" % dep)
    # `-go 1.N` also applies to the dependencies, and std no longer type-checks below ~go1.23, so
    # the real checks are exercised through the module's go directive (and -go at the toolchain's
    # own version, which must override the directive).
    mods = ["1.3", "1.4", "1.7", "1.8", "1.17", "1.18", "1.22"] if ctx.quick else \
        ["1.3", "1.4", "1.5", "1.7", "1.8", "1.9", "1.16", "1.17", "1.18", "1.19", "1.20", "1.21", "1.22", "1.23"]
    flags = [None] if ctx.quick else [None, "1.26"]
    tags = [None, "go1.20"]
    jobs = []
    for mi, m in enumerate(mods):
        gm = ctx.path("real", "r%d" % mi, "go.mod")
        open(gm, "w").write("module example.com/r%d\n\ngo %s\n" % (mi, m))
        for ti, t in enumerate(tags):
            with open(os.path.join(os.path.dirname(gm), "f%d.go" % ti), "w") as f:
                f.write(("//go:build %s\n\n" % t if t else "") + REAL_SRC % {"n": ti})
        for fl in flags:
            jobs.append((os.path.dirname(gm), m, fl))
    cache0 = ctx.path("realcache", "x")

    def one(job):
        md, m, fl = job
        e = vlib.go_env({"STATICCHECK_CACHE": os.path.dirname(cache0)})
        cmd = [sc, "-f", "json", "-checks", "S1005,S1024,SA1019"] + (["-go", fl] if fl else []) + ["./..."]
        rc, so, se = vlib.run(cmd, cwd=md, env=e, timeout=900)
        if rc not in (0, 1):
            raise vlib.HarnessError("staticcheck failed (%d) in %s -go %s: %s" % (rc, md, fl, se[-800:]))
        got = []
        for line in so.splitlines():
            j = json.loads(line)
            got.append((os.path.basename(j["location"]["file"]), j["code"], j["message"]))
        return job, got

    first = one(jobs[0])  # warms the shared cache with the facts of std
    with ThreadPoolExecutor(max_workers=8) as ex:
        results = [first] + list(ex.map(one, jobs[1:]))
    lines, meta = [], []
    for (md, m, fl), got in results:
        for ti, t in enumerate(tags):
            for (code, frag, kind, thr) in REAL:
                thr = dep[thr[4:]] if thr.startswith("dep:") else thr
                impl = any(fn == "f%d.go" % ti and c == code and frag in msg for fn, c, msg in got)
                lines.append("probe %s go%s %s %s %s %s" % ("go" + fl if fl else "-", m, t or "-", TOOLCHAIN, kind, thr))
                meta.append({"module_go": m, "flag_go": fl, "file_tag": t, "check": code, "what": frag, "bound": kind,
                             "threshold": thr, "reported_by_real_code": impl})
    model = vlib.run_model(ctx, "C20", lines)
    diffs = []
    for mt, mo in zip(meta, model):
        if mo == "bad-op":
            raise vlib.HarnessError("model rejected a real-check line")
        mt["in_range_per_spec"] = (mo == "1")
        if mt["reported_by_real_code"] != mt["in_range_per_spec"]:
            diffs.append(mt)
    return diffs, len(lines), len(jobs), meta[:3]


def run(ctx):
    lean_ok, lean_broke = vlib.std_lean_phase(ctx, MODULES, THEOREMS)
    probe = vlib.build_harness(ctx, "probe20")
    mods, flags, tags, thr = grid(ctx)

    # in-process tie of the option constructors
    rc, so, se = vlib.run([probe, "-setters"], env=vlib.go_env())
    if rc != 0:
        raise vlib.HarnessError("probe20 -setters failed: " + se)
    setter_lines = [l.split() for l in so.strip().splitlines()]
    model_set = vlib.run_model(ctx, "C20", ["setter %s go1.5" % l[0] for l in setter_lines])
    setter_diffs = []
    for l, m in zip(setter_lines, model_set):
        if " ".join(l[1:]) != m:
            setter_diffs.append({"setter": l[0], "impl_fields(minL,maxL,minS,maxS)": " ".join(l[1:]), "model": m})

    # the grid through the real runner
    jobs = []
    for mi, m in enumerate(mods):
        d = ctx.path("mods", "m%d" % mi, "go.mod")
        with open(d, "w") as f:
            f.write("module example.com/m%d\n\ngo %s\n" % (mi, m))
        md = os.path.dirname(d)
        files = {}
        for ti, t in enumerate(tags):
            fn = "f%d.go" % ti
            with open(os.path.join(md, fn), "w") as f:
                if t:
                    f.write("//go:build %s\n\n" % t)
                f.write("package p\n")
            files[fn] = t
        for fl in flags:
            jobs.append((md, m, fl, files))

    env = vlib.go_env({"VERIF_THRESHOLDS": " ".join(thr)})

    def one(job):
        md, m, fl, files = job
        cache = vlib.tempfile.mkdtemp(prefix="cache", dir=ctx.scratch)
        e = dict(env)
        e["STATICCHECK_CACHE"] = cache
        cmd = [probe, "-f", "json"]
        if fl:
            cmd += ["-go", fl]
        cmd += ["./..."]
        rc, so, se = vlib.run(cmd, cwd=md, env=e, timeout=600)
        got = {}
        other = []
        for line in so.splitlines():
            try:
                j = json.loads(line)
            except ValueError:
                other.append(line)
                continue
            if j.get("code") != "VP2000":
                other.append(line)
                continue
            fn = os.path.basename(j["location"]["file"])
            got.setdefault(fn, []).append(j["message"])
        return (job, rc, got, other, se)

    with ThreadPoolExecutor(max_workers=vlib.NCPU) as ex:
        results = list(ex.map(one, jobs))

    lines = []
    meta = []
    for (job, rc, got, other, se) in results:
        md, m, fl, files = job
        if other or rc not in (0, 1):
            raise vlib.HarnessError("probe20 run failed in %s (-go %s): rc=%d %s %s" % (md, fl, rc, other[:3], se[-500:]))
        for fn, t in files.items():
            msgs = got.get(fn, [])
            effs = [x for x in msgs if x.startswith("eff ")]
            flag = "go" + fl if fl else "-"
            lines.append("eff %s go%s %s %s" % (flag, m, t or "-", TOOLCHAIN))
            meta.append(("eff", m, fl, t, None, None, effs[0][4:] if len(effs) == 1 else "MISSING"))
            rep = set(x for x in msgs if x.startswith("probe "))
            for k in KINDS:
                for v in thr:
                    lines.append("probe %s go%s %s %s %s %s" % (flag, m, t or "-", TOOLCHAIN, k, v))
                    meta.append(("probe", m, fl, t, k, v, "1" if ("probe %s %s" % (k, v)) in rep else "0"))
    model = vlib.run_model(ctx, "C20", lines)

    diffs_probe = []
    diffs_eff = []
    nontrivial = set()
    for (kind, m, fl, t, k, v, impl), line, mo in zip(meta, lines, model):
        if mo == "bad-op":
            raise vlib.HarnessError("model rejected line: " + line)
        if kind == "probe":
            # non-trivial: a bound that actually discriminates on this grid column
            nontrivial.add((m, fl, t, k)) if mo == "0" else None
            if impl != mo:
                diffs_probe.append({"module_go": m, "flag_go": fl, "file_tag": t, "bound": k, "threshold": v,
                                    "reported_by_real_code": impl == "1", "in_range_per_spec": mo == "1"})
        else:
            if impl != mo:
                diffs_eff.append({"module_go": m, "flag_go": fl, "file_tag": t, "impl_lang_std": impl, "model_lang_std": mo})

    real_diffs, real_n, real_runs, real_samples = real_checks(ctx, probe)
    ctx.coverage.update({
        "real_check_points": real_n, "real_check_runs": real_runs, "real_check_samples": real_samples,
        "evaluations": len(lines) + real_n,
        "distinct_nontrivial": len(nontrivial),
        "rule": "complete grid module-go x file-tag x -go x bound-kind x threshold run through the real runner; "
                "non-trivial = (module, flag, tag, kind) column in which at least one threshold is out of range",
        "exhaustive": True,
        "grid": {"module_go": mods, "flag_go": flags, "file_tag": tags, "thresholds": thr, "kinds": KINDS},
        "runs_of_real_linter": len(jobs),
        "samples": [{"input": lines[i], "impl": meta[i][6], "model": model[i]} for i in range(0, len(lines), max(1, len(lines) // 6))][:8],
        "setter_tie": [" ".join(l) for l in setter_lines],
    })
    ctx.assumptions += [
        "go/version.Compare and go/types' FileVersions rule (max(tag, go1.21)) are modelled, not verified; the grid run compares them with the model",
        "toolchain release tag go1.26 (no module => newest release tag) is not exercised: every generated module has a go directive",
    ]

    if real_diffs:
        by = {}
        for d in real_diffs:
            by.setdefault(d["check"] + "_" + d["what"].split(".")[-1].split()[0], []).append(d)
        for k, ds in sorted(by.items()):
            ctx.violation("real_%s.json" % k, {
                "what": "a version-restricted problem of an existing check is reported outside / dropped inside its version range",
                "how_to_replay": "module `go <module_go>`, file (with `//go:build <file_tag>`) containing: " + REAL_SRC % {"n": 0} +
                                 " ; staticcheck -checks S1005,S1024,SA1019 [-go <flag_go>] ./...",
                "first": ds[0], "count": len(ds), "cases": ds[:40]},
                text="C20: %d real-check grid points disagree with the spec, e.g. %s" % (len(ds), ds[0]))
    if diffs_probe:
        # the model is proved equal to the spec, so a probe disagreement is a failing input
        by = {}
        for d in diffs_probe:
            by.setdefault(d["bound"], []).append(d)
        for k, ds in sorted(by.items()):
            ctx.violation("probe_%s.json" % k, {
                "what": "a problem restricted by report.%s is reported outside / dropped inside its version range" % k,
                "how_to_replay": "module with `go <module_go>`, file with `//go:build <file_tag>`, run harness/cmd/probe20 [-go <flag_go>] -f json ./...",
                "first": ds[0], "count": len(ds), "cases": ds[:50],
                "setter_tie": setter_diffs,
            }, text="C20: %d grid points disagree with report_iff_in_range for bound %s, e.g. %s" % (len(ds), k, ds[0]))
    elif not real_diffs and (diffs_eff or setter_diffs or not lean_ok):
        ctx.violation("correspondence.json", {
            "what": "model no longer corresponds to the code (or a proof no longer checks) but no probe is mis-reported on the grid",
            "effective_version_diffs": diffs_eff[:50], "setter_diffs": setter_diffs, "lean": lean_broke,
            "correspondence": "C20 eff/setter stream; theorems " + ", ".join(THEOREMS),
        }, nofail=True)
    return vlib.finish(ctx, "proof")

META = {
    "level": "proof",
    "technique": "Lean 4 theorem over a model of report.Report's version guards and the effective-version rules; exhaustive grid correspondence through the real runner",
    "text": "report_iff_in_range is proved for all versions and bound combinations over the Lean model; the model is tied to the code by running a probe analyzer through the real report.Report / loader / runner on the complete grid of module go directive x file build constraint x -go flag x bound kind x threshold and comparing every grid point with the model.",
    "note": "Trusted: Lean kernel (axioms propext/Classical.choice/Quot.sound), verifdriver (compiled model), harness/cmd/probe20, go/version.Compare and go/types FileVersions (modelled, compared on the grid, not verified).",
    "design_ref": "DESIGN.md section 5, C20",
}
