"""C20 — version-restricted problems respect the effective Go version.

Lean: Verif/C20/{Model,Theorems}.lean.  Tie: X — a probe analyzer calling the real
report.Report with each bound kind at each threshold runs through the real
lintcmd/runner/loader over a grid of generated modules (module go directive x file
go1.N build constraint x -go flag); the set of reported probes and the effective
versions are compared with the model (which is proved equal to the specification
`report_iff_in_range`).  The grid is finite and enumerated completely.
"""
import json
import os
from concurrent.futures import ThreadPoolExecutor

import vlib

MODULES = ["Verif.C20.Theorems", "Verif.C20.SiteTheorems"]
THEOREMS = [
    "Verif.C20.report_iff_in_range",
    "Verif.C20.setter_targets",
    "Verif.C20.minLang_reported_iff",
    "Verif.C20.maxLang_reported_iff",
    "Verif.C20.minStd_reported_iff",
    "Verif.C20.maxStd_reported_iff",
    "Verif.C20.effective_lang_spec",
    "Verif.C20.effective_std_spec",
    "Verif.C20.tc_version_spec",
    "Verif.C20.ver_le_trans",
    "Verif.C20.ver_le_total",
    "Verif.C20.sites_as_expected",
    "Verif.C20.s1005_sites",
    "Verif.C20.s1024_sites",
    "Verif.C20.csites_spec",
]
KINDS = ["minlang", "maxlang", "minstd", "maxstd"]
TOOLCHAIN = "go1.26"


def grid(ctx):
    if ctx.quick:
        mods = ["1.17", "1.20", "1.21", "1.22.3", "1.24"]
        flags = [None, "1.19", "1.23"]
        tags = [None, "go1.18", "go1.21", "go1.23"]
        thr = ["go1.%d" % n for n in range(16, 27)] + ["go1.22.3", "go1.21.0"]
    else:
        mods = ["1.%d" % n for n in range(16, 27)] + ["1.21.0", "1.22.3", "1.20.5"]
        flags = [None] + ["1.%d" % n for n in range(16, 27)]
        tags = [None] + ["go1.%d" % n for n in range(16, 27)]
        thr = ["go1.%d" % n for n in range(14, 27)] + ["go1.22.3", "go1.21.0", "go1.20.0", "go1.26.1"]
    return mods, flags, tags, thr


REAL_SRC = """package p

import (
	"bytes"
	"encoding/binary"
	"strings"
	"time"
)

type A struct {
	X int `a:"1"`
}
type B struct {
	X int `b:"2"`
}

func S1005a(xs []int) { for _ = range xs { } } // SITE s1005.2
func S1005b(xs []int) { for _, _ = range xs { } } // SITE s1005.3
func S1005c(xs []int) int { var i int; for i, _ = range xs { }; return i } // SITE s1005.4
func S1005d(ch chan int) { _ = <-ch } // SITE s1005.1
func S1005e(ch chan int) int { var x int; x, _ = <-ch; return x } // SITE s1005.0
func S1024a(t time.Time) time.Duration { return t.Sub(time.Now()) } // SITE s1024.0
func S1024b(t time.Time) time.Duration { return (t.Sub)(time.Now()) } // SITE s1024.1
func SA1019a(s string) string { return strings.Title(s) } // SITE sa1019
func SA1003a() error { var buf bytes.Buffer; return binary.Write(&buf, binary.LittleEndian, true) } // SITE sa1003
func SA1015a() { c := time.Tick(time.Second); <-c } // SITE sa1015
func S1016a(a A) B { return B{X: a.X} } // SITE s1016
"""
REAL_TEST_SRC = """package p

import "testing"

func TestMain(m *testing.M) { m.Run() } // SITE sa3000
"""
# site -> (check, polarity, bound kind, threshold): the problem of that site is expected iff
# polarity == model.probe(kind, threshold) for the file's effective versions; None = always.
# The thresholds are the documented ones (Verif/C20/Sites.lean expectedRSites/expectedCSites);
# sa1019's comes from the real knowledge.StdlibDeprecations table.
REAL_SITES = {
    "s1005.0": ("S1005", None, None, None),
    "s1005.1": ("S1005", None, None, None),
    "s1005.2": ("S1005", True, "minlang", "go1.4"),
    "s1005.3": ("S1005", True, "minlang", "go1.4"),
    "s1005.4": ("S1005", True, "minlang", "go1.4"),
    "s1024.0": ("S1024", True, "minstd", "go1.8"),
    "s1024.1": ("S1024", True, "minstd", "go1.8"),
    "sa1019": ("SA1019", True, "minstd", "dep:strings.Title"),
    "sa1003": ("SA1003", False, "minstd", "go1.8"),
    "sa1015": ("SA1015", False, "minstd", "go1.23"),
    "s1016": ("S1016", True, "minlang", "go1.8"),
    "sa3000": ("SA3000", False, "minstd", "go1.15"),
}
REAL_CHECKS = sorted(set(v[0] for v in REAL_SITES.values()))


def site_lines(src, header_lines):
    out = {}
    for i, l in enumerate(src.splitlines()):
        if "// SITE " in l:
            out[l.split("// SITE ")[1].strip()] = i + 1 + header_lines
    return out


def real_checks(ctx, probe):
    """Every version-restricted call site that exists in the tree (Verif/C20/Sites.lean), each
    with its own trigger, through the real staticcheck binary, against the model."""
    sc = vlib.build_repo_cmd(ctx, "./cmd/staticcheck")
    rc, so, se = vlib.run([probe, "-deprecations", "strings.Title"], env=vlib.go_env())
    dep = dict(l.split() for l in so.strip().splitlines())
    if any(v == "-" for v in dep.values()):
        raise vlib.HarnessError("knowledge.StdlibDeprecations lacks strings.Title: %s" % dep)
    # `-go 1.N` also applies to the dependencies, and std no longer type-checks below ~go1.23, so
    # the real checks are exercised through the module's go directive (and -go at the toolchain's
    # own version, which must override the directive).
    mods = ["1.3", "1.4", "1.7", "1.8", "1.14", "1.15", "1.17", "1.18", "1.22", "1.23"] if ctx.quick else \
        ["1.3", "1.4", "1.5", "1.7", "1.8", "1.9", "1.14", "1.15", "1.16", "1.17", "1.18", "1.19", "1.20", "1.21", "1.22", "1.22.3",
         "1.23", "1.24"]
    flags = [None] if ctx.quick else [None, "1.26"]
    tags = [None, "go1.20"] if ctx.quick else [None, "go1.7", "go1.20", "go1.23"]
    jobs = []
    lines_of = {}
    for mi, m in enumerate(mods):
        gm = ctx.path("real", "r%d" % mi, "go.mod")
        open(gm, "w").write("module example.com/r%d\n\ngo %s\n" % (mi, m))
        for ti, t in enumerate(tags):
            d = os.path.join(os.path.dirname(gm), "t%d" % ti)
            os.makedirs(d, exist_ok=True)
            hdr = "//go:build %s\n\n" % t if t else ""
            open(os.path.join(d, "f.go"), "w").write(hdr + REAL_SRC)
            open(os.path.join(d, "f_test.go"), "w").write(hdr + REAL_TEST_SRC)
            sl = site_lines(REAL_SRC, 2 if t else 0)
            sl.update(site_lines(REAL_TEST_SRC, 2 if t else 0))
            lines_of[ti] = sl
        for fl in flags:
            jobs.append((os.path.dirname(gm), m, fl))
    cache0 = ctx.path("realcache", "x")

    def one(job):
        md, m, fl = job
        e = vlib.go_env({"STATICCHECK_CACHE": os.path.dirname(cache0)})
        cmd = [sc, "-f", "json", "-checks", ",".join(REAL_CHECKS)] + (["-go", fl] if fl else []) + ["./..."]
        rc, so, se = vlib.run(cmd, cwd=md, env=e, timeout=900)
        if rc not in (0, 1):
            raise vlib.HarnessError("staticcheck failed (%d) in %s -go %s: %s" % (rc, md, fl, se[-800:]))
        got = set()
        other = []
        for line in so.splitlines():
            j = json.loads(line)
            f = j["location"]["file"]
            if j["code"] in REAL_CHECKS:
                got.add((os.path.basename(os.path.dirname(f)), os.path.basename(f), j["location"]["line"], j["code"]))
            else:
                other.append(line)
        if other:
            # a compile/config problem on these sources is not a C20 matter, but the grid point is lost
            raise vlib.HarnessError("unexpected problem in the real-check module %s: %s" % (md, other[:2]))
        return job, got

    first = one(jobs[0])  # warms the shared cache with the facts of std
    with ThreadPoolExecutor(max_workers=8) as ex:
        results = [first] + list(ex.map(one, jobs[1:]))
    lines, meta = [], []
    for (md, m, fl), got in results:
        for ti, t in enumerate(tags):
            for site, (code, pol, kind, thr) in sorted(REAL_SITES.items()):
                fn = "f_test.go" if site == "sa3000" else "f.go"
                impl = ("t%d" % ti, fn, lines_of[ti][site], code) in got
                if thr and thr.startswith("dep:"):
                    thr = dep[thr[4:]]
                flag = "go" + fl if fl else "-"
                if pol is None:
                    lines.append("cmp go1.1 go1.1")
                else:
                    lines.append("probe %s go%s %s %s %s %s" % (flag, m, t or "-", TOOLCHAIN, kind, thr))
                meta.append({"module_go": m, "flag_go": fl, "file_tag": t, "check": code, "site": site, "bound": kind,
                             "threshold": thr, "reported_iff_in_range": pol, "reported_by_real_code": impl})
    model = vlib.run_model(ctx, "C20", lines)
    diffs = []
    hit = {}
    for mt, mo in zip(meta, model):
        if mo == "bad-op":
            raise vlib.HarnessError("model rejected a real-check line")
        pol = mt["reported_iff_in_range"]
        mt["expected_per_spec"] = True if pol is None else ((mo == "1") == pol)
        hit.setdefault(mt["site"], set()).add(mt["reported_by_real_code"])
        if mt["reported_by_real_code"] != mt["expected_per_spec"]:
            diffs.append(mt)
    # every trigger must be live: each restricted site is seen both reported and not reported
    dead = sorted(s for s, v in hit.items() if True not in v or (REAL_SITES[s][1] is not None and False not in v))
    if dead and not diffs:
        raise vlib.HarnessError("real-check triggers that never discriminate on the grid: %s" % dead)
    return diffs, len(lines), len(jobs), meta[:3]


# --------------------------------------------------------------------------- generated site table (tie G)
def lean_ver(v):
    import re
    m = re.fullmatch(r"go1\.(\d+)(?:\.(\d+))?", v or "")
    if not m:
        return "⟨0, some 9999⟩"   # not a literal go1.N[.P]: can never equal the expectation
    return "⟨%s, %s⟩" % (m.group(1), "some " + m.group(2) if m.group(2) else "none")


SETTER = {"MinimumLanguageVersion": ".minLang", "MaximumLanguageVersion": ".maxLang",
          "MinimumStdlibVersion": ".minStd", "MaximumStdlibVersion": ".maxStd"}


def lean_str(s):
    return '"' + s.replace("\\", "\\\\").replace('"', '\\"') + '"'


def generate_sites(ctx):
    """Regenerate lean/Verif/C20/Generated.lean from the current source."""
    binp = vlib.build_harness(ctx, "c20sites")
    rc, so, se = vlib.run([binp, vlib.REPO], timeout=300)
    if rc != 0:
        raise vlib.HarnessError("c20sites failed: " + se[-2000:])
    t = json.loads(so)
    rs = []
    for r in t["reports"]:
        opts = ", ".join("(%s, %s)" % (SETTER[o[0]], lean_ver(o[1])) for o in r["opts"])
        rs.append("  ⟨%s, %d, [%s]⟩" % (lean_str(r["file"]), r["ordinal"], opts))
    cs = []
    for c in t["compares"]:
        which = {"StdlibVersion": ".std", "LanguageVersion": ".lang"}.get(c["which"])
        op = c["op"]
        if which is None:           # swapped operands: keep the row, make it unequal to any expectation
            which, op = (".std" if "Stdlib" in c["which"] else ".lang"), "swapped-args " + op
        ver = "none" if c["version"].startswith("expr:") else "some " + lean_ver(c["version"])
        try:
            rhs = int(c["rhs"])
        except ValueError:
            rhs, op = 0, op + " non-literal-rhs"
        cs.append("  ⟨%s, %s, %s, %s, %s, %d⟩" % (lean_str(c["file"]), lean_str(c["func"]), which, ver, lean_str(op), rhs))
    src = ("import Verif.C20.Sites\n/-! generated by checks/c20.py from harness/cmd/c20sites on the current /repo tree — do not edit -/\n"
           "namespace Verif.C20.Gen\nopen Verif.C20\n\ndef rsites : List RSite := [\n" + ",\n".join(rs) + "]\n\n"
           "def csites : List CSite := [\n" + ",\n".join(cs) + "]\n\nend Verif.C20.Gen\n")
    changed = vlib.write_if_changed(os.path.join(vlib.LEAN_DIR, "Verif", "C20", "Generated.lean"), src)
    return t, changed


def run(ctx):
    sites, sites_changed = generate_sites(ctx)
    lean_ok, lean_broke = vlib.std_lean_phase(ctx, MODULES, THEOREMS)
    probe = vlib.build_harness(ctx, "probe20")
    mods, flags, tags, thr = grid(ctx)

    # in-process tie of the option constructors
    rc, so, se = vlib.run([probe, "-setters"], env=vlib.go_env())
    if rc != 0:
        raise vlib.HarnessError("probe20 -setters failed: " + se)
    setter_lines = [l.split() for l in so.strip().splitlines()]
    model_set = vlib.run_model(ctx, "C20", ["setter %s go1.5" % l[0] for l in setter_lines])
    setter_diffs = []
    for l, m in zip(setter_lines, model_set):
        if " ".join(l[1:]) != m:
            setter_diffs.append({"setter": l[0], "impl_fields(minL,maxL,minS,maxS)": " ".join(l[1:]), "model": m})

    # the grid through the real runner
    jobs = []
    for mi, m in enumerate(mods):
        d = ctx.path("mods", "m%d" % mi, "go.mod")
        with open(d, "w") as f:
            f.write("module example.com/m%d\n\ngo %s\n" % (mi, m))
        md = os.path.dirname(d)
        files = {}
        for ti, t in enumerate(tags):
            fn = "f%d.go" % ti
            with open(os.path.join(md, fn), "w") as f:
                if t:
                    f.write("//go:build %s\n\n" % t)
                f.write("package p\n")
            files[fn] = t
        for fl in flags:
            jobs.append((md, m, fl, files))

    env = vlib.go_env({"VERIF_THRESHOLDS": " ".join(thr)})

    def one(job):
        md, m, fl, files = job
        cache = vlib.tempfile.mkdtemp(prefix="cache", dir=ctx.scratch)
        e = dict(env)
        e["STATICCHECK_CACHE"] = cache
        cmd = [probe, "-f", "json"]
        if fl:
            cmd += ["-go", fl]
        cmd += ["./..."]
        rc, so, se = vlib.run(cmd, cwd=md, env=e, timeout=600)
        got = {}
        other = []
        for line in so.splitlines():
            try:
                j = json.loads(line)
            except ValueError:
                other.append(line)
                continue
            if j.get("code") != "VP2000":
                other.append(line)
                continue
            fn = os.path.basename(j["location"]["file"])
            got.setdefault(fn, []).append(j["message"])
        return (job, rc, got, other, se)

    with ThreadPoolExecutor(max_workers=vlib.NCPU) as ex:
        results = list(ex.map(one, jobs))

    lines = []
    meta = []
    for (job, rc, got, other, se) in results:
        md, m, fl, files = job
        if other or rc not in (0, 1):
            raise vlib.HarnessError("probe20 run failed in %s (-go %s): rc=%d %s %s" % (md, fl, rc, other[:3], se[-500:]))
        for fn, t in files.items():
            msgs = got.get(fn, [])
            effs = [x for x in msgs if x.startswith("eff ")]
            flag = "go" + fl if fl else "-"
            lines.append("eff %s go%s %s %s" % (flag, m, t or "-", TOOLCHAIN))
            meta.append(("eff", m, fl, t, None, None, effs[0][4:] if len(effs) == 1 else "MISSING"))
            rep = set(x for x in msgs if x.startswith("probe "))
            for k in KINDS:
                for v in thr:
                    lines.append("probe %s go%s %s %s %s %s" % (flag, m, t or "-", TOOLCHAIN, k, v))
                    meta.append(("probe", m, fl, t, k, v, "1" if ("probe %s %s" % (k, v)) in rep else "0"))
    model = vlib.run_model(ctx, "C20", lines)

    diffs_probe = []
    diffs_eff = []
    nontrivial = set()
    for (kind, m, fl, t, k, v, impl), line, mo in zip(meta, lines, model):
        if mo == "bad-op":
            raise vlib.HarnessError("model rejected line: " + line)
        if kind == "probe":
            # non-trivial: a bound that actually discriminates on this grid column
            nontrivial.add((m, fl, t, k)) if mo == "0" else None
            if impl != mo:
                diffs_probe.append({"module_go": m, "flag_go": fl, "file_tag": t, "bound": k, "threshold": v,
                                    "reported_by_real_code": impl == "1", "in_range_per_spec": mo == "1"})
        else:
            if impl != mo:
                diffs_eff.append({"module_go": m, "flag_go": fl, "file_tag": t, "impl_lang_std": impl, "model_lang_std": mo})

    real_diffs, real_n, real_runs, real_samples = real_checks(ctx, probe)
    ctx.coverage.update({
        "real_check_points": real_n, "real_check_runs": real_runs, "real_check_samples": real_samples,
        "evaluations": len(lines) + real_n,
        "distinct_nontrivial": len(nontrivial),
        "rule": "complete grid module-go x file-tag x -go x bound-kind x threshold run through the real runner; "
                "non-trivial = (module, flag, tag, kind) column in which at least one threshold is out of range",
        "exhaustive": True,
        "grid": {"module_go": mods, "flag_go": flags, "file_tag": tags, "thresholds": thr, "kinds": KINDS},
        "runs_of_real_linter": len(jobs),
        "samples": [{"input": lines[i], "impl": meta[i][6], "model": model[i]} for i in range(0, len(lines), max(1, len(lines) // 6))][:8],
        "setter_tie": [" ".join(l) for l in setter_lines],
        "site_table": {"report_sites": len(sites["reports"]), "compare_sites": len(sites["compares"]),
                       "generated_table_changed_this_run": sites_changed,
                       "real_check_sites": sorted(REAL_SITES)},
    })
    ctx.assumptions += [
        "go/version.Compare and go/types' FileVersions rule (max(tag, go1.21)) are modelled, not verified; the grid run compares them with the model",
        "toolchain release tag go1.26 (no module => newest release tag) is not exercised: every generated module has a go directive",
    ]

    if real_diffs:
        by = {}
        for d in real_diffs:
            by.setdefault(d["check"] + "_" + d["site"], []).append(d)
        for k, ds in sorted(by.items()):
            ctx.violation("real_%s.json" % k, {
                "what": "a version-restricted problem of an existing check is reported outside / dropped inside its version range",
                "how_to_replay": "module `go <module_go>`, package with f.go / f_test.go (each with `//go:build <file_tag>` if a tag is given) "
                                 "containing the sources below; staticcheck -checks " + ",".join(REAL_CHECKS) + " [-go <flag_go>] ./... ; "
                                 "the problem of the function marked `SITE <site>` must be reported iff expected_per_spec",
                "f.go": REAL_SRC, "f_test.go": REAL_TEST_SRC,
                "first": ds[0], "count": len(ds), "cases": ds[:40]},
                text="C20: %d real-check grid points disagree with the spec, e.g. %s" % (len(ds), ds[0]))
    if diffs_probe:
        # the model is proved equal to the spec, so a probe disagreement is a failing input
        by = {}
        for d in diffs_probe:
            by.setdefault(d["bound"], []).append(d)
        for k, ds in sorted(by.items()):
            ctx.violation("probe_%s.json" % k, {
                "what": "a problem restricted by report.%s is reported outside / dropped inside its version range" % k,
                "how_to_replay": "module with `go <module_go>`, file with `//go:build <file_tag>`, run harness/cmd/probe20 [-go <flag_go>] -f json ./...",
                "first": ds[0], "count": len(ds), "cases": ds[:50],
                "setter_tie": setter_diffs,
            }, text="C20: %d grid points disagree with report_iff_in_range for bound %s, e.g. %s" % (len(ds), k, ds[0]))
    elif not real_diffs and (diffs_eff or setter_diffs or not lean_ok):
        ctx.violation("correspondence.json", {
            "what": "model no longer corresponds to the code (or a proof no longer checks) but no probe is mis-reported on the grid",
            "effective_version_diffs": diffs_eff[:50], "setter_diffs": setter_diffs, "lean": lean_broke,
            "site_table_from_current_source": sites,
            "correspondence": "C20 eff/setter stream; theorems " + ", ".join(THEOREMS),
        }, nofail=True)
    return vlib.finish(ctx, "proof")

META = {
    "level": "proof",
    "technique": "Lean 4 theorems over a model of report.Report's version guards and the effective-version rules; exhaustive grid correspondence "
                 "through the real runner; table of all version-restricted call sites regenerated from the source and re-proved (kernel decide) "
                 "against the documented ranges; one live trigger per site through the real staticcheck binary",
    "text": "report_iff_in_range is proved for all versions and bound combinations over the Lean model; the model is tied to the code by running a probe "
            "analyzer through the real report.Report / loader / runner on the complete grid of module go directive x file build constraint x -go flag x "
            "bound kind x threshold and comparing every grid point with the model. The version-restricted call sites of the existing checks "
            "(report.Report options in S1005/S1024, version.Compare on code.StdlibVersion/LanguageVersion in S1016, SA1003, SA1015, SA1019, SA3000) are "
            "listed from the current source on every run (go/parser), written to Verif/C20/Generated.lean and must equal the documented table "
            "(sites_as_expected, kernel decide; s1005_sites, s1024_sites, csites_spec give each site's exact range); every site has its own trigger "
            "that must be seen reported and not reported across module go versions, compared with the model.",
    "note": "Trusted: Lean kernel (axioms propext/Classical.choice/Quot.sound), c20driver (compiled model), harness/cmd/probe20 and c20sites (go/parser listing), "
            "the hand-written expectation table in Verif/C20/Sites.lean, go/version.Compare and go/types FileVersions (modelled, compared on the grid, not verified).",
    "design_ref": "DESIGN.md section 5 and 9.2, C20",
}
