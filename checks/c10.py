"""C10 — ignore directives suppress exactly what they name, nothing else.

Lean: Verif/C10/{Model,Theorems}.lean (parseDirective, parseDirectives, line/file ignore
matching with filepath.Match incl. classes/escapes/malformed patterns, filterIgnored incl.
couldHaveMatched, success, the `ignores` loop of the U1000 graph) and
Verif/C10/{Attach,AttachTheorems}.lean (go/ast.NewCommentMap as lint.ParseDirectives uses it,
lint.ParseDirectives, report.DisplayPosition, runner.serializeDirective, and their composition
with filterIgnored).

Ties (X), all against the current /repo tree:
 (a) in-process: generated (directives, diagnostics, allowed-checks) triples through the real
     lintcmd.success/filterIgnored/parseDirectives (verif hook lintcmd/verif_c10.go), generated
     directive lists through the real unused.Graph on a synthetic package (op u1k, no hook), the
     real filepath.Match and strings.ToLower, and generated *source files* with comment groups at
     every position and //line directives through the real lint.ParseDirectives +
     runner.serializeDirective (op pdf; verif hook lintcmd/runner/verif_c10.go) against the
     model fed with the syntax facts of the same parse (ops src -> att);
 (b) end-to-end metamorphic: the real `staticcheck` binary on renamed copies of a fixed two-file
     package (corpus/C10/pkg; class Copies) with one directive per copy, placed in 11 shapes
     (apply_shape) in 6 //line variants of the files (variant_layout), with and without
     -show-ignored, under several -checks selections; the report is compared with the prediction
     computed from the directive-free report (by the oracle: attachment by construction, printed
     positions by line_map; and by the Lean model fed with the parse facts of the file).
     Disagreements are re-run as a package of their own before they are reported.

Oracle: the property statement itself, evaluated in Python (`Spec`, `pyglob`, `line_map`,
`apply_shape`, `src_expected`) on the real outputs, written independently of the Lean model.
DEVIATIONS only *label* a failure (which of the three defect classes repaired in /repo it
looks like, findings.d/C10.txt); they never excuse one.
"""
import json
import os
import re
import shutil
from concurrent.futures import ThreadPoolExecutor

import vlib

MODULES = ["Verif.C10.Theorems", "Verif.C10.AttachTheorems"]
THEOREMS = [
    "Verif.C10.ignored_iff",
    "Verif.C10.others_unchanged",
    "Verif.C10.insert_directive",
    "Verif.C10.insert_directive_added",
    "Verif.C10.no_reason_is_error",
    "Verif.C10.useless_reported_iff",
    "Verif.C10.added_eq",
    "Verif.C10.kept_length",
    "Verif.C10.filterIgnored_eq",
    "Verif.C10.couldHaveMatched_iff",
    "Verif.C10.couldHaveMatched_perm",
    "Verif.C10.success_spec",
    "Verif.C10.u1000_ignores_iff",
    "Verif.C10.u1000_used_iff",
    "Verif.C10.u1000_marked_iff",
    "Verif.C10.u1000_no_reason",
    "Verif.C10.parseDirectiveText_fields",
    "Verif.C10.glob_star",
    "Verif.C10.glob_literal",
    # comments -> directives -> suppression (AttachTheorems.lean)
    "Verif.C10.mem_parseCM_iff",
    "Verif.C10.directive_at_any_index",
    "Verif.C10.parseCM_regroup",
    "Verif.C10.parseCM_inert",
    "Verif.C10.popStack_outermost",
    "Verif.C10.assocOf_above",
    "Verif.C10.assocOf_trailing",
    "Verif.C10.assocOf_detached",
    "Verif.C10.commentMap_above",
    "Verif.C10.commentMap_groups",
    "Verif.C10.display_same_line",
    "Verif.C10.mem_pipeline_iff",
    "Verif.C10.above_directive_suppresses",
    "Verif.C10.suppressed_only_by_attached",
]

MALFORMED = "malformed linter directive; missing the required reason field?"
USELESS = "this linter directive didn't match anything; should it be removed?"
PKG = os.path.join(vlib.VERIF, "corpus", "C10", "pkg")

hexs = vlib.hexs


# --------------------------------------------------------------------------- the oracle
class Dir:
    """a serialized directive"""
    def __init__(self, cmd, args, dpos, npos):
        self.cmd, self.args, self.dpos, self.npos = cmd, list(args), tuple(dpos), tuple(npos)

    def enc(self):
        return "%s %d %s %s %d %d %s %d %d" % (
            hexs(self.cmd), len(self.args), " ".join(hexs(a) for a in self.args),
            hexs(self.dpos[0]), self.dpos[1], self.dpos[2], hexs(self.npos[0]), self.npos[1], self.npos[2])

    def obj(self):
        return {"command": self.cmd, "arguments": self.args, "directive_pos": list(self.dpos), "node_pos": list(self.npos)}


def enc_dir(d):
    return " ".join(d.enc().split())


def pyglob(pat, name):
    """path/filepath.Match for names without separators, from its documentation: terms `*`, `?`,
    `[` [`^`] ranges `]` (non-empty; range items c, \\c, lo-hi with c not one of \\ - ]), `\\c`, c;
    a malformed pattern (ErrBadPattern) matches nothing."""
    i, n, rx = 0, len(pat), []
    def item(i):
        # one class character -> (char, next index) or None
        if i >= n or pat[i] in "-]":
            return None
        if pat[i] == "\\":
            i += 1
            if i >= n:
                return None
        return pat[i], i + 1
    while i < n:
        c = pat[i]
        if c == "*":
            rx.append("[^/]*"); i += 1
        elif c == "?":
            rx.append("[^/]"); i += 1
        elif c == "\\":
            if i + 1 >= n:
                return False
            rx.append(re.escape(pat[i + 1])); i += 2
        elif c == "[":
            i += 1
            neg = i < n and pat[i] == "^"
            if neg:
                i += 1
            ranges = []
            while True:
                if i < n and pat[i] == "]" and ranges:
                    i += 1
                    break
                lo = item(i)
                if lo is None or lo[1] >= n:
                    return False
                lo, i = lo
                hi = lo
                if pat[i] == "-":
                    h = item(i + 1)
                    if h is None or h[1] >= n:
                        return False
                    hi, i = h
                ranges.append((lo, hi))
            alts = "|".join("[%s-%s]" % (re.escape(a), re.escape(b)) for a, b in ranges if a <= b) or "(?!)"
            rx.append("(?!%s)." % alts if neg else "(?:%s)" % alts)
        else:
            rx.append(re.escape(c)); i += 1
    return re.fullmatch("".join(rx), name, re.S) is not None


DEVIATIONS = ("useless-u1000-order", "u1000-no-reason", "u1000-name-match")


class Spec:
    """The statement of C10, clause by clause.  `dev` names deviations (defect classes seen
    in the real code) and is empty for the property itself; a failure of the oracle is
    attributed to a class iff the statement plus that deviation reproduces the real output."""
    @staticmethod
    def wf(d):
        return d.cmd in ("ignore", "file-ignore") and len(d.args) >= 2

    @staticmethod
    def malformed(d):
        return d.cmd in ("ignore", "file-ignore") and len(d.args) < 2

    @staticmethod
    def names(d):
        return [x.lower() for x in d.args[0].split(",")] if d.args else []

    @staticmethod
    def suppresses(d, file, line, cat):
        return (Spec.wf(d) and file == d.npos[0] and (d.cmd == "file-ignore" or line == d.npos[1])
                and any(pyglob(c, cat.lower()) for c in Spec.names(d)))

    @staticmethod
    def u1000_active(d, dev=()):
        """does the directive ask the U1000 graph to ignore something"""
        if "u1000-no-reason" in dev:
            ok = d.cmd in ("ignore", "file-ignore") and len(d.args) >= 1
        else:
            ok = Spec.wf(d)
        if not ok:
            return False
        if "u1000-name-match" in dev:
            return "U1000" in d.args[0].split(",")
        return any(pyglob(c, "u1000") for c in Spec.names(d))

    @staticmethod
    def u1000_suppresses(d, file, line, dev=()):
        return Spec.u1000_active(d, dev) and file == d.npos[0] and (d.cmd == "file-ignore" or line == d.npos[1])

    @staticmethod
    def could_have_matched(d, allowed, dev=()):
        if "useless-u1000-order" in dev:
            for c in Spec.names(d):
                if c == "u1000":
                    return False
                if c in allowed:
                    return True
            return False
        return any(c != "u1000" and c in allowed for c in Spec.names(d))

    @staticmethod
    def useless(d, diags, allowed, dev=()):
        return (d.cmd == "ignore" and Spec.wf(d)
                and not any(Spec.suppresses(d, g[0], g[1], g[3]) for g in diags)
                and Spec.could_have_matched(d, allowed, dev))

    @staticmethod
    def filter(use_success, allowed, diags, dirs, dev=()):
        """diags: (file, line, col, cat, msg). Returns (kept, added); entries
        (file, line, col, cat, msg, sev)."""
        ds = [g for g in diags if (not use_success) or g[3].lower() in allowed]
        kept = []
        for g in ds:
            ign = any(Spec.suppresses(d, g[0], g[1], g[3]) for d in dirs)
            kept.append(tuple(g) + ("i" if ign else "e",))
        added = []
        for d in dirs:
            if Spec.malformed(d):
                added.append((d.npos[0], d.npos[1], d.npos[2], "compile", MALFORMED, "e"))
        for d in dirs:
            if Spec.useless(d, ds, allowed, dev):
                added.append((d.dpos[0], d.dpos[1], d.dpos[2], "staticcheck", USELESS, "e"))
        return kept, added


def enc_diag(g, sev="e"):
    return "%s %d %d %s %s %s" % (hexs(g[0]), g[1], g[2], hexs(g[3]), hexs(g[4]), sev)


def dec_hex(t):
    return "" if t == "-" else bytes.fromhex(t).decode()


def dec_diags(line):
    """`<n> (<file> <line> <col> <cat> <msg> <sev>)*` -> list of tuples, or None."""
    t = line.split()
    try:
        n = int(t[0])
        if len(t) != 1 + 6 * n:
            return None
        out = []
        for i in range(n):
            f, l, c, cat, msg, sev = t[1 + 6 * i: 7 + 6 * i]
            out.append((dec_hex(f), int(l), int(c), dec_hex(cat), dec_hex(msg), sev))
        return out
    except (ValueError, IndexError):
        return None


def fi_line(use_success, allowed, diags, dirs):
    parts = ["fi", "1" if use_success else "0", str(len(allowed))] + [hexs(a) for a in allowed]
    parts.append(str(len(diags)))
    parts += [enc_diag(g) for g in diags]
    parts.append(str(len(dirs)))
    parts += [enc_dir(d) for d in dirs]
    return " ".join(parts)


# --------------------------------------------------------------------------- generators
POOL = ["SA4000", "SA4006", "SA4010", "S1002", "S1008", "ST1003", "SA1000", "U1000"]
LETTERS = "abcdefghijklmnopqrstuvwxyzABCDEFGHIJKLMNOPQRSTUVWXYZ0123456789"


def case_variant(rng, s):
    k = rng.below(4)
    if k == 0:
        return s.lower()
    if k == 1:
        return s.upper()
    if k == 2:
        return "".join(c.lower() if rng.chance(1, 2) else c.upper() for c in s)
    return s


def glob_of(rng, s):
    """a glob over letters/digits/*/? derived from the check id s (may or may not match it)"""
    k = rng.below(8)
    if k == 0:
        return "*"
    if k == 1:
        i = rng.below(len(s) + 1)
        return s[:i] + "*"
    if k == 2:
        i = rng.below(len(s) + 1)
        return "*" + s[i:]
    if k == 3:
        i = rng.below(len(s))
        return s[:i] + "?" + s[i + 1:]
    if k == 4:
        i = rng.below(len(s))
        j = i + rng.below(len(s) - i + 1)
        return s[:i] + "*" + s[j:]
    if k == 5:
        return "?" * len(s)
    if k == 6:
        i = rng.below(len(s))
        return s[:i] + "*" + "?" + s[i + 1:]
    return s[:2] + "*" + s[-1:] + ("*" if rng.chance(1, 2) else "")


def glob_class_of(rng, s):
    """a pattern with a character class or an escape derived from the check id s: matching,
    not matching, or malformed (filepath.ErrBadPattern: matches nothing); no comma, no space"""
    i = rng.below(len(s))
    c = s[i]
    k = rng.below(14)
    if k == 0:
        return s[:i] + "[" + c + "]" + s[i + 1:]
    if k == 1:
        return s[:i] + "[" + c + "x]" + s[i + 1:]
    if k == 2:
        return s[:i] + ("[0-9]" if c.isdigit() else "[a-zA-Z]") + s[i + 1:]
    if k == 3:
        return s[:i] + "[^" + c + "]" + s[i + 1:]
    if k == 4:
        return s[:i] + "[^x]" + s[i + 1:]
    if k == 5:
        return s[:i] + "\\" + s[i:]
    if k == 6:
        return s[:i] + "[\\" + c + "]" + s[i + 1:]
    if k == 7:
        return s[:2] + "[0-9]*"
    if k == 8:
        return s[:i] + "["                       # malformed from here on
    if k == 9:
        return s[:i] + "[]" + s[i + 1:]
    if k == 10:
        return s + "\\"
    if k == 11:
        return s[:i] + "[" + c + "-]" + s[i + 1:]
    if k == 12:
        return "*[" if rng.chance(1, 2) else "[^]" + s[1:]
    return s[:i] + "[" + c + "-" + c + "]" + ("[*]" if rng.chance(1, 2) else "") + s[i + 1:]


def gen_name(rng, on_line, elsewhere, disabled):
    """one entry of a check list; returns (text, class)"""
    k = rng.below(16)
    if k < 3 and on_line:
        return rng.choice(on_line), "exact"
    if k < 5 and on_line:
        return glob_of(rng, rng.choice(on_line)), "glob"
    if k < 7 and on_line:
        return case_variant(rng, rng.choice(on_line)), "case"
    if k < 9:
        return rng.choice(elsewhere or POOL), "other"
    if k < 11:
        return rng.choice(["U1000", "U1000", "u1000", "U1*", "U100?"]), "u1000"
    if k < 13:
        return rng.choice(disabled or ["ST1003"]), "disabled"
    if k == 13:
        if rng.chance(1, 2):
            return glob_class_of(rng, rng.choice(on_line or elsewhere or POOL)), "glob-class"
        return glob_of(rng, rng.choice(elsewhere or POOL)), "glob-other"
    if k == 14:
        return rng.choice(["XX9999", "", "SA", "4000", "SA40000"]), "nonsense"
    return case_variant(rng, glob_of(rng, rng.choice(on_line or POOL))), "glob-case"


def gen_checklist(rng, on_line, elsewhere, disabled):
    n = 1 + (rng.below(3) if rng.chance(1, 2) else 0)
    names, classes = [], []
    for _ in range(n):
        t, c = gen_name(rng, on_line, elsewhere, disabled)
        names.append(t)
        classes.append(c)
    return ",".join(names), classes


def gen_cmd(rng):
    k = rng.below(20)
    if k < 11:
        return "ignore"
    if k < 17:
        return "file-ignore"
    return rng.choice(["ignored", "", "Ignore", "file_ignore", "nolint", "IGNORE"])


def gen_reason(rng):
    k = rng.below(8)
    if k < 2:
        return []
    if k < 5:
        return ["reason"]
    if k == 5:
        return ["", "x"]
    if k == 6:
        return [""]
    return ["a", "longer", "reason"]


def gen_triple(rng):
    files = ["a.go", "b.go", "/x/a.go"][: 1 + rng.below(3)]
    nlines = 1 + rng.below(5)
    cats = [rng.choice(POOL) for _ in range(1 + rng.below(4))]
    diags = []
    for _ in range(rng.below(7)):
        cat = rng.choice(cats)
        if rng.chance(1, 6):
            cat = case_variant(rng, cat)
        diags.append((rng.choice(files), 1 + rng.below(nlines), 1 + rng.below(3), cat, "m%d" % rng.below(3)))
    lower_pool = [c.lower() for c in POOL]
    allowed = [c for c in lower_pool if rng.chance(2, 3)]
    if rng.chance(1, 10):
        allowed = []
    disabled = [c.upper() for c in lower_pool if c not in allowed]
    dirs = []
    for _ in range(rng.below(5)):
        f = rng.choice(files)
        nl = 1 + rng.below(nlines)
        on_line = [g[3] for g in diags if g[0] == f and g[1] == nl]
        lst, _ = gen_checklist(rng, on_line, cats, disabled)
        args = [lst] + gen_reason(rng)
        if rng.chance(1, 12):
            args = []
        dirs.append(Dir(gen_cmd(rng), args, (f, max(nl - 1, 0) if rng.chance(3, 4) else nl, 1 + rng.below(3)), (f, nl, 1 + rng.below(3))))
    return rng.chance(1, 2), allowed, diags, dirs


def gen_comment(rng):
    k = rng.below(10)
    lst, _ = gen_checklist(rng, ["SA4000"], POOL, ["ST1003"])
    if k < 6:
        sep = " " if rng.chance(5, 6) else "  "
        return "//lint:" + gen_cmd(rng) + sep + lst + "".join(" " + w for w in gen_reason(rng))
    if k == 6:
        return "//lint:" + rng.choice(["", "ignore", "file-ignore", " ignore X y", "ignore ", "ignore  "])
    if k == 7:
        return rng.choice(["// lint:ignore X y", "//lint ignore X y", "//LINT:ignore X y", "//nolint:foo", "//lint", "//", "//lint:ignore\tX y"])
    return "//lint:" + gen_cmd(rng) + " " + lst + " " + "".join(rng.choice(LETTERS + "  ,") for _ in range(rng.below(12)))


U_NAMES = ["U1000", "U1000", "u1000", "U1*", "U100?", "*", "SA4000", "u10*0", "U1000x", "U100", "?1000", "U*0", "", "S1002", "sa4*",
           "U100[0-9]", "[uU]1000", "U[^2]000", "U1000\\", "U1[", "\\U1000", "U[]1000", "[a-z]1000"]


def gen_u1k(rng):
    """directives over the synthetic package of the `u1k` op: files f<i>.go, one declaration
    on each of the lines 3 … nlines+2"""
    nfiles = 1 + rng.below(2)
    nlines = 2 + rng.below(5)
    dirs = []
    for _ in range(rng.below(5)):
        f = "f%d.go" % rng.below(nfiles)
        nl = 3 + rng.below(nlines)
        names = [case_variant(rng, rng.choice(U_NAMES)) if rng.chance(1, 3) else rng.choice(U_NAMES) for _ in range(1 + rng.below(3))]
        args = [",".join(names)] + gen_reason(rng)
        if rng.chance(1, 15):
            args = []
        dirs.append(Dir(gen_cmd(rng), args, (f, nl - 1, 1), (f, nl, 1)))
    return nfiles, nlines, dirs


def u1k_line(nfiles, nlines, dirs):
    return " ".join(["u1k", str(nfiles), str(nlines), str(len(dirs))] + [enc_dir(d) for d in dirs])


def u1k_expected(nfiles, nlines, dirs, dev=()):
    out = []
    for f in range(nfiles):
        for l in range(3, nlines + 3):
            if any(Spec.u1000_suppresses(d, "f%d.go" % f, l, dev) for d in dirs):
                out.append(("f%d.go" % f, l))
    return out


def dec_marked(line):
    t = line.split()
    try:
        n = int(t[0])
        if len(t) != 1 + 2 * n:
            return None
        return [(dec_hex(t[1 + 2 * i]), int(t[2 + 2 * i])) for i in range(n)]
    except (ValueError, IndexError):
        return None


def model_run(ctx, lines):
    """Outputs of the compiled Lean model, or None when the Lean side is broken and the driver
    cannot be used (the oracle is then evaluated without the model: violation search)."""
    if not lines:
        return []
    try:
        return vlib.run_model(ctx, "C10", lines)
    except (vlib.HarnessError, OSError):
        if ctx.lean_ok:
            raise
        return None


# --------------------------------------------------------------------------- source files with comments everywhere
LINE_RE = re.compile(r"^//line (\S+):(\d+)$")


def line_map(lines, fname, mode="display"):
    """The positions the linter prints for the raw lines 1..n of a file whose text is `lines`,
    written from the documentation of `//line` directives and of report.DisplayPosition (the
    oracle's own reading; only the form `//line name:N` at column 1 is ever generated): after
    such a comment the next line is line N of `name`; the adjusted position is displayed iff
    `name` ends in .go.  -> list of (file, line, remapped) indexed by raw line - 1.
    mode "raw" / "adjusted" are the two other candidate printing maps (see infer_print_mode)."""
    out, cur = [], None
    for i, l in enumerate(lines, 1):
        if cur is None or mode == "raw" or (mode == "display" and not cur[0].endswith(".go")):
            out.append((fname, i, False))
        else:
            out.append((cur[0], cur[1] + (i - cur[2]), True))
        m = LINE_RE.match(l)
        if m:
            cur = (m.group(1), int(m.group(2)), i + 1)
    return out


def gen_directive_text(rng):
    """a `//lint:` comment (any command, with or without reason) or an inert look-alike"""
    lst, _ = gen_checklist(rng, ["SA4000"], POOL, ["ST1003"])
    k = rng.below(12)
    if k < 8:
        return "//lint:" + rng.choice(["ignore", "ignore", "ignore", "file-ignore", "ignored", ""]) + " " + lst + "".join(" " + w for w in gen_reason(rng))
    if k == 8:
        return "//lint:ignore " + lst
    if k == 9:
        return rng.choice(["// lint:ignore SA4000 r", "//Lint:ignore SA4000 r", "//nolint:SA4000", "//lint ignore SA4000 r"])
    if k == 10:
        return "/*lint:ignore " + lst + " r*/"
    return "//lint:file-ignore " + lst + " generated"


class SrcGen:
    """Generates one syntactically valid Go file (only parsed, never type-checked) with
    comment groups at every kind of position: before the package clause, as/after doc comments,
    above/between/after declarations, specs, struct fields and statements, trailing on a line,
    detached by blank lines, inside block comments, at the end of the file; `//lint:` lines at
    every index of their group; optional `//line` directives (column 1, strictly increasing
    target lines so that adjusted line numbers stay monotone).
    self.lines: the text; self.marks: one record per comment token that starts with `//lint:`:
    raw line, column, text and — where the construction fixes it — the raw line `target` of the
    code the comment is attached to (`None`: left to the model)."""
    def __init__(self, rng):
        self.rng = rng
        self.lines = []
        self.marks = []
        self.pending = []      # marks of the open comment group directly above the next code line
        self.seg = 0
        self.nline = 0
        self.hazard = False    # a //line comment stands between the previous code line and the next
        self.prev_blank = True

    def emit(self, text):
        self.lines.append(text)
        self.prev_blank = text.strip() == ""
        return len(self.lines)

    def blank(self):
        self.pending = []
        self.emit("")

    def line_directive(self):
        self.seg += 1
        name = ("t%d.go" if self.rng.chance(3, 4) else "g%d.y") % self.seg
        self.emit("//line %s:%d" % (name, 1000 * self.seg + self.rng.below(50)))
        # a comment group that contains a //line comment has no construction-fixed target
        for m in self.pending:
            m["target"] = None
        self.pending = []
        self.hazard = True

    def comment_group(self, indent, attach):
        """1-3 own-line comments; attach: the group directly precedes a code line"""
        rng = self.rng
        n = 1 + rng.below(3)
        where = rng.below(n)
        group = []
        for i in range(n):
            if i == where or rng.chance(1, 4):
                t = gen_directive_text(rng)
            else:
                t = rng.choice(["// note", "// c10 explanatory comment.", "//", "//go:noinline", "// TODO(x): y"])
            ln = self.emit("\t" * indent + t)
            if t.startswith("//lint:"):
                m = {"line": ln, "col": indent + 1, "text": t, "target": None, "index": i, "of": n}
                self.marks.append(m)
                group.append(m)
        self.pending = group if attach else []

    def block_comment(self, indent):
        self.pending = []
        self.emit("\t" * indent + "/*")
        self.emit("\t" * indent + gen_directive_text(self.rng).replace("/*", "").replace("*/", ""))
        self.emit("\t" * indent + "*/")

    def before(self, indent):
        """what may stand between the previous code line and the next one"""
        rng = self.rng
        self.pending = []
        self.hazard = False
        k = rng.below(20)
        if k < 6:
            return
        if k < 8:
            self.blank()
            return
        if k < 14:                       # a group directly above the code line
            if rng.chance(1, 3):
                self.blank()
            self.comment_group(indent, True)
            return
        if k < 16:                       # detached group
            self.comment_group(indent, False)
            self.blank()
            return
        if k < 17:                       # two groups
            self.comment_group(indent, False)
            self.blank()
            self.comment_group(indent, True)
            return
        if k < 18:
            self.block_comment(indent)
            return
        if k < 19:
            self.blank()
            self.line_directive()
            if rng.chance(1, 2):
                self.comment_group(indent, True)
                self.hazard = True
            return
        self.comment_group(indent, True)
        self.line_directive()

    def code(self, indent, text, single=True, trailing_ok=True):
        """one code line; `single`: a complete statement/declaration/spec/field on one line"""
        rng = self.rng
        t = "\t" * indent + text
        tr = None
        if trailing_ok and rng.chance(1, 8):
            c = gen_directive_text(rng) if rng.chance(2, 3) else "// trailing note"
            if not c.startswith("/*"):
                tr = c
        ln = len(self.lines) + 1
        if tr is not None:
            if tr.startswith("//lint:"):
                self.marks.append({"line": ln, "col": len(t) + 2, "text": tr, "target": ln if single else None, "ncol": indent + 1,
                                   "index": 0, "of": 1, "trailing": True})
            t = t + " " + tr
        self.emit(t)
        for m in self.pending:
            if not self.hazard:
                m["target"] = ln
                m["ncol"] = indent + 1
        self.pending = []
        self.hazard = False
        return ln

    def stmts(self, indent, depth):
        rng = self.rng
        for _ in range(1 + rng.below(4)):
            self.before(indent)
            k = rng.below(9 if depth < 2 else 5)
            self.nline += 1
            v = "x%d" % self.nline
            if k == 0:
                self.code(indent, "%s := %d" % (v, rng.below(9)))
            elif k == 1:
                self.code(indent, "x = %d" % rng.below(9))
            elif k == 2:
                self.code(indent, "call(x, %d)" % rng.below(9))
            elif k == 3:
                self.code(indent, "var %s []int" % v)
            elif k == 4:
                self.code(indent, "call(x,", single=False, trailing_ok=False)
                self.before(indent + 1) if rng.chance(1, 4) else None
                self.pending = []
                self.code(indent + 1, "y)", single=False)
            elif k == 5:
                self.code(indent, "if x == x {", single=False)
                self.stmts(indent + 1, depth + 1)
                self.pending = []
                self.code(indent, "}", single=False)
            elif k == 6:
                self.code(indent, "for i := range xs {", single=False)
                self.stmts(indent + 1, depth + 1)
                self.pending = []
                self.code(indent, "}", single=False)
            elif k == 7:
                self.code(indent, "if x != x {", single=False)
                self.stmts(indent + 1, depth + 1)
                self.pending = []
                self.code(indent, "} else {", single=False, trailing_ok=False)
                self.stmts(indent + 1, depth + 1)
                self.pending = []
                self.code(indent, "}", single=False)
            else:
                self.code(indent, "return")

    def decl(self, i):
        rng = self.rng
        self.before(0)
        k = rng.below(8)
        if k == 0:
            self.code(0, "var v%d = %d" % (i, i))
        elif k == 1:
            self.code(0, "const c%d = %d" % (i, i))
        elif k == 2:
            self.code(0, "type t%d struct{ n int }" % i)
        elif k == 3:
            self.code(0, "func f%d() {}" % i)
        elif k == 4:
            self.code(0, "var (", single=False)
            for j in range(1 + rng.below(3)):
                self.before(1)
                self.code(1, "w%d_%d = %d" % (i, j, j))
            self.pending = []
            self.code(0, ")", single=False)
        elif k == 5:
            self.code(0, "type s%d struct {" % i, single=False)
            for j in range(1 + rng.below(3)):
                self.before(1)
                self.code(1, "f%d int" % j)
            self.pending = []
            self.code(0, "}", single=False)
        else:
            self.code(0, "func g%d(x int, xs []int) {" % i, single=False)
            self.stmts(1, 0)
            self.pending = []
            self.code(0, "}", single=False)

    def file(self):
        rng = self.rng
        k = rng.below(8)
        if k == 0:
            self.line_directive()
        elif k == 1:
            self.comment_group(0, False)
            self.blank()
        elif k == 2:
            self.comment_group(0, True)
        elif k == 3:
            self.line_directive()
            self.comment_group(0, True)
            self.hazard = True
        self.code(0, "package p", trailing_ok=False)
        self.blank()
        for i in range(1 + rng.below(4)):
            self.decl(i)
            if rng.chance(2, 3):
                self.blank()
        # A comment trailing the last declaration follows the end of the *File* node as well
        # (ast.File.End is the end of the last declaration): go/ast associates it with the file,
        # i.e. with the package clause.  An undocumented placement; left to the model.
        last = max(i for i, l in enumerate(self.lines, 1) if l.strip() and not l.lstrip().startswith(("//", "/*", "*/")) and not l.startswith("\t"))
        for m in self.marks:
            if m.get("trailing") and m["line"] == last:
                m["target"] = None
        k = rng.below(6)
        if k == 0:
            self.comment_group(0, False)
        elif k == 1:
            self.blank()
            self.comment_group(0, False)
        return self


def src_expected(gen):
    """The oracle for one generated file: every comment token starting with `//lint:` is one
    directive, read as parseDirective reads it, located where the linter prints the comment;
    where the construction fixes the code line the comment is attached to, the node position
    is the printed position of that line's first token."""
    lm = line_map(gen.lines, "x.go")
    out = []
    for m in sorted(gen.marks, key=lambda m: (m["line"], m["col"])):
        cmd, args = py_parse_comment(m["text"])
        f, l, remapped = lm[m["line"] - 1]
        dpos = (f, l, 0 if remapped else m["col"])
        npos = None
        if m.get("target"):
            f, l, remapped = lm[m["target"] - 1]
            npos = (f, l, 0 if remapped else m["ncol"])
        out.append((cmd, args, dpos, npos))
    return out


def dec_directives(line):
    """`<n> <directive>*` -> [(cmd, args, dpos, npos)] or None"""
    t = line.split()
    try:
        n, i, out = int(t[0]), 1, []
        for _ in range(n):
            cmd, k = dec_hex(t[i]), int(t[i + 1])
            args = [dec_hex(x) for x in t[i + 2:i + 2 + k]]
            i += 2 + k
            out.append((cmd, args, (dec_hex(t[i]), int(t[i + 1]), int(t[i + 2])), (dec_hex(t[i + 3]), int(t[i + 4]), int(t[i + 5]))))
            i += 6
        return out if i == len(t) else None
    except (ValueError, IndexError):
        return None


def probe_same_line(facts):
    """Hypothesis of theorem display_same_line, probed on the facts of a real file: positions on
    the same raw line of the same file have the same adjusted file and line.  -> bad examples"""
    t = facts.split()
    seen, bad = {}, []
    try:
        nn = int(t[1])
        i = 2 + nn
        nnodes = int(t[i])
        i += 1
        for _ in range(nnodes):
            raw, adj = (t[i + 2], t[i + 3]), (t[i + 5], t[i + 6])
            if seen.setdefault(raw, adj) != adj:
                bad.append((raw, adj, seen[raw]))
            i += 10
    except (ValueError, IndexError):
        return ["unparseable facts"]
    return bad


def srcfiles(ctx, binp, rng, n, fails, mism, hist, corpus=()):
    """Tie and oracle for the path comments -> SerializedDirective: generated files through the
    real lint.ParseDirectives + runner.serializeDirective (op pdf), their syntax facts (op src)
    through the model's NewCommentMap/ParseDirectives/serializeDirective (op att)."""
    gens = []
    for text in corpus:
        g = SrcGen(rng)
        g.lines = text.split("\n")
        # corpus files: every own-line or trailing `//lint:` comment (no block comments in them)
        for ln, l in enumerate(g.lines, 1):
            j = l.find("//")
            if j >= 0 and l[j:].startswith("//lint:") and "/*" not in l:
                g.marks.append({"line": ln, "col": j + 1, "text": l[j:], "target": None})
        gens.append(g)
    for _ in range(n):
        gens.append(SrcGen(rng).file())
    lines = []
    for g in gens:
        h = hexs("\n".join(g.lines) + "\n")
        lines += ["src " + h, "pdf " + h]
    impl = run_impl(ctx, binp, lines)
    facts = impl[0::2]
    pdfs = impl[1::2]
    for g, fa, pd in zip(gens, facts, pdfs):
        if not fa.startswith("att ") or pd == "parse-error":
            raise vlib.HarnessError("generated file rejected by go/parser (%s / %s):\n%s" % (fa[:40], pd[:40], "\n".join(g.lines)))
    model = model_run(ctx, facts)
    nontrivial = set()
    for g, fa, pd, mo in zip(gens, facts, pdfs, model if model is not None else pdfs):
        src = "\n".join(g.lines) + "\n"
        hist["src"] = hist.get("src", 0) + 1
        got = dec_directives(pd)
        exp = src_expected(g)
        why = None
        if got is None:
            why = "unparseable output %r" % pd[:200]
        elif [(c, a, d) for c, a, d, _ in got] != [(c, a, d) for c, a, d, _ in exp]:
            miss = [e[:3] for e in exp if e[:3] not in [x[:3] for x in got]]
            extra = [x[:3] for x in got if x[:3] not in [e[:3] for e in exp]]
            why = "the `//lint:` comments of the file and the directives read from it differ: not read %r, unexpected %r" % (miss, extra)
        else:
            wrong = [(e, x[3]) for e, x in zip(exp, got) if e[3] is not None and (e[3][0], e[3][1]) != (x[3][0], x[3][1])]
            wrongcol = [(e, x[3]) for e, x in zip(exp, got) if e[3] is not None and e[3] != x[3]]
            if wrong:
                why = "directive attached to another line than the code line it stands on/above: %r" % (
                    [{"directive": e[:3], "expected_node": e[3], "got_node": n} for e, n in wrong][:3],)
            elif wrongcol:
                why = "directive node position (where a malformed directive is reported) differs: %r" % (wrongcol[:3],)
        if exp:
            nontrivial.add(src)
            hist["src:directives"] = hist.get("src:directives", 0) + len(exp)
            hist["src:with-target"] = hist.get("src:with-target", 0) + sum(1 for e in exp if e[3] is not None)
            hist["src:not-first-in-group"] = hist.get("src:not-first-in-group", 0) + sum(1 for m in g.marks if m.get("index", 0) > 0)
            hist["src:trailing"] = hist.get("src:trailing", 0) + sum(1 for m in g.marks if m.get("trailing"))
        if any(LINE_RE.match(l) for l in g.lines):
            hist["src:with-line-directives"] = hist.get("src:with-line-directives", 0) + 1
        pb = probe_same_line(fa)
        if pb:
            mism.append({"kind": "src", "why": "hypothesis of display_same_line fails on a real file: %r" % (pb[:3],), "source": src})
        if why:
            fails.append({"kind": "src", "key": "comment-to-directive", "why": why, "source": src, "impl": pd, "model": mo,
                          "expected": [list(e) for e in exp]})
        elif mo != pd:
            mism.append({"kind": "src", "source": src, "impl": pd, "model": mo})
    samples = [{"source": "\n".join(gens[i].lines)[:600], "impl": pdfs[i][:300]} for i in range(0, len(gens), max(1, len(gens) // 2))][:2]
    return len(gens), nontrivial, samples


# --------------------------------------------------------------------------- in-process phase
def run_impl(ctx, binp, lines):
    rc, so, se = vlib.run([binp], input="".join(l + "\n" for l in lines), env=vlib.go_env(), timeout=1800)
    if rc != 0:
        raise vlib.HarnessError("c10filter exited %d: %s" % (rc, se[-2000:]))
    out = so.split("\n")
    if out and out[-1] == "":
        out.pop()
    if len(out) != len(lines):
        raise vlib.HarnessError("c10filter: %d outputs for %d inputs" % (len(out), len(lines)))
    return out


def classify_fi(allowed, diags, dirs, got, use_success):
    """Oracle on one real filterIgnored output. Returns None if the property holds, else
    (key, description)."""
    kept, added = Spec.filter(use_success, allowed, diags, dirs)
    if got is None:
        return ("fi-output", "unparseable output")
    gk, ga = got[:len(kept)], got[len(kept):]
    if len(got) >= len(kept) and gk == kept and sorted(ga) == sorted(added):
        return None
    for dev in DEVIATIONS[:1]:
        k2, a2 = Spec.filter(use_success, allowed, diags, dirs, dev=(dev,))
        if gk == k2 and sorted(ga) == sorted(a2):
            return (dev, "%s: expected added problems %r, got %r" % (KEY_TEXT[dev], sorted(added), sorted(ga)))
    if len(got) < len(kept) or gk != kept:
        return ("suppression", "incoming diagnostics changed otherwise than the directives say: expected %r, got %r" % (kept, gk))
    return ("added", "added problems wrong: expected %r, got %r" % (sorted(added), sorted(ga)))


def inprocess(ctx, binp, rng, n_fi, n_small, fails, mism, hist, n_src=0):
    lines, meta = [], []
    # corpus: fixed regression inputs
    a = ("a.go", 5, 2, "SA4000", "m")
    corpus = [
        (False, ["sa4000", "sa4006"], [("a.go", 9, 2, "SA4000", "m")], [Dir("ignore", ["U1000,SA4006", "r"], ("a.go", 4, 2), ("a.go", 5, 2))]),
        (False, ["sa4000", "sa4006"], [("a.go", 9, 2, "SA4000", "m")], [Dir("ignore", ["SA4006,U1000", "r"], ("a.go", 4, 2), ("a.go", 5, 2))]),
        (False, ["sa4000", "sa4006", "u1000"], [a], [Dir("ignore", ["u1000,ST1003,Sa4006", "r"], ("a.go", 4, 2), ("a.go", 9, 2))]),
        (True, ["sa4000"], [a, ("b.go", 5, 2, "SA4000", "m"), ("a.go", 5, 9, "S1002", "m")], [Dir("ignore", ["SA4000", "why"], ("a.go", 4, 2), ("a.go", 5, 2))]),
        (False, ["sa4000"], [a], [Dir("ignore", ["SA4000"], ("a.go", 4, 2), ("a.go", 5, 2))]),
        (False, ["sa4000"], [a], [Dir("file-ignore", ["sa4*", "why"], ("a.go", 1, 1), ("a.go", 2, 1))]),
        (False, ["sa4000"], [a], [Dir("ignore", ["ST1003", "why"], ("a.go", 4, 2), ("a.go", 5, 2))]),
        (False, ["sa4000", "s1002"], [a], [Dir("ignore", ["S1002", "why"], ("a.go", 4, 2), ("a.go", 5, 2)),
                                            Dir("ignore", ["SA4000", "why"], ("a.go", 4, 2), ("a.go", 5, 2))]),
        (False, ["sa4000"], [a], [Dir("ignore", [], ("a.go", 4, 2), ("a.go", 5, 2)), Dir("nolint", ["SA4000", "x"], ("a.go", 4, 2), ("a.go", 5, 2))]),
    ]
    for c in corpus:
        lines.append(fi_line(*c))
        meta.append(("fi", c))
    for _ in range(n_fi):
        c = gen_triple(rng)
        lines.append(fi_line(*c))
        meta.append(("fi", c))
    # small ties: glob / lower / pd / sup
    for pat, name in [("sa4*", "sa4000"), ("s?4000", "sa4000"), ("*", ""), ("", ""), ("*0", "sa4000"), ("*1", "sa4000"), ("**", "x"), ("?", ""), ("a*b*c", "aXbYbZc"),
                      ("sa[14]000", "sa4000"), ("sa[^14]000", "sa4000"), ("sa400[0-9]", "sa4006"), ("sa[", "sa["), ("sa[]000", "sa]000"), ("sa4\\000", "sa4000"),
                      ("sa4000\\", "sa4000"), ("*[", "x"), ("[a-]", "a"), ("s[a-c]*", "sa4000"), ("\\*", "*"), ("[*]", "*"), ("[\\]]", "]"), ("[a-a][*]", "a*"),
                      ("[^]]", "x"), ("[[]", "["), ("a[b-a]", "ab"), ("[a]]", "a]"), ("x*[", "y")]:
        lines.append("glob %s %s" % (hexs(pat), hexs(name)))
        meta.append(("glob", (pat, name)))
    for _ in range(n_small):
        base = rng.choice(POOL).lower()
        k = rng.below(8)
        if k < 4:
            pat = case_variant(rng, glob_of(rng, base)).lower()
        elif k < 6:
            pat = glob_class_of(rng, base)
        elif k == 6:
            pat = "".join(rng.choice("sa401*?") for _ in range(rng.below(7)))
        else:
            pat = "".join(rng.choice("sa401*?[]^-\\") for _ in range(rng.below(9)))
        name = base if rng.chance(2, 3) else "".join(rng.choice("sa4010") for _ in range(rng.below(7)))
        if rng.chance(1, 20):
            name = "".join(rng.choice("sa401*?[]^-\\") for _ in range(rng.below(5)))
        lines.append("glob %s %s" % (hexs(pat), hexs(name)))
        meta.append(("glob", (pat, name)))
    for _ in range(n_small // 4):
        s = "".join(rng.choice(LETTERS + "*?,_-") for _ in range(rng.below(9)))
        lines.append("lower " + hexs(s))
        meta.append(("lower", s))
    for t in ["//lint:ignore SA4000 reason", "//lint:ignore SA4000", "//lint:", "//lint:ignore  SA4000 r", "// lint:ignore X y", "//lint:file-ignore U1000 generated code"]:
        lines.append("pd " + hexs(t))
        meta.append(("pd", t))
    for _ in range(n_small // 2):
        t = gen_comment(rng)
        lines.append("pd " + hexs(t))
        meta.append(("pd", t))
    for _ in range(n_small // 2):
        _, allowed, diags, dirs = gen_triple(rng)
        if not dirs or not diags:
            continue
        d, g = rng.choice(dirs), rng.choice(diags)
        if g[3].lower() == "u1000":
            continue
        lines.append("sup %s %s %d %s" % (enc_dir(d), hexs(g[0]), g[1], hexs(g[3])))
        meta.append(("sup", (d, g)))

    # the ignores map of the U1000 graph (unused.Graph on a synthetic package)
    u_corpus = [
        (2, 4, [Dir("ignore", ["U1000", "r"], ("f0.go", 3, 1), ("f0.go", 4, 1))]),
        (2, 4, [Dir("ignore", ["U1000"], ("f0.go", 3, 1), ("f0.go", 4, 1))]),
        (2, 4, [Dir("file-ignore", ["U1000"], ("f0.go", 2, 1), ("f0.go", 3, 1))]),
        (2, 4, [Dir("ignore", ["u1000", "r"], ("f0.go", 3, 1), ("f0.go", 4, 1))]),
        (2, 4, [Dir("ignore", ["SA4000,U1*", "r"], ("f1.go", 4, 1), ("f1.go", 5, 1))]),
        (2, 4, [Dir("file-ignore", ["*", "r"], ("f1.go", 2, 1), ("f1.go", 3, 1))]),
        (2, 4, [Dir("file-ignore", ["U1000", "generated"], ("f0.go", 2, 1), ("f0.go", 3, 1)), Dir("ignore", ["U1000", "r"], ("f1.go", 5, 1), ("f1.go", 6, 1))]),
        (1, 3, [Dir("Ignore", ["U1000", "r"], ("f0.go", 3, 1), ("f0.go", 4, 1)), Dir("ignore", ["U1000x,SA4000", "r"], ("f0.go", 4, 1), ("f0.go", 5, 1))]),
    ]
    for c in u_corpus:
        lines.append(u1k_line(*c))
        meta.append(("u1k", c))
    for _ in range(n_small // 2):
        c = gen_u1k(rng)
        lines.append(u1k_line(*c))
        meta.append(("u1k", c))

    impl = run_impl(ctx, binp, lines)
    model = model_run(ctx, lines)
    if model is None:
        model = impl
    nontrivial = set()
    for (kind, c), line, im, mo in zip(meta, lines, impl, model):
        if mo == "bad-op" or im == "bad-op":
            raise vlib.HarnessError("line rejected (model=%s impl=%s): %s" % (mo, im, line[:300]))
        hist[kind] = hist.get(kind, 0) + 1
        if kind == "fi":
            use_success, allowed, diags, dirs = c
            got = dec_diags(im)
            bad = classify_fi(allowed, diags, dirs, got, use_success)
            kept, added = Spec.filter(use_success, allowed, diags, dirs)
            if any(x[5] == "i" for x in kept):
                hist["fi:some-ignored"] = hist.get("fi:some-ignored", 0) + 1
            if any(x[3] == "staticcheck" for x in added):
                hist["fi:useless-reported"] = hist.get("fi:useless-reported", 0) + 1
            if any(x[3] == "compile" for x in added):
                hist["fi:malformed"] = hist.get("fi:malformed", 0) + 1
            if any(x[5] == "i" for x in kept) or added:
                nontrivial.add(line)
            if bad:
                fails.append({"kind": "fi", "key": bad[0], "why": bad[1], "line": line, "impl": im, "model": mo,
                              "input": {"use_success": use_success, "allowed": allowed, "diagnostics": [list(g) for g in diags],
                                        "directives": [d.obj() for d in dirs]}})
            elif im != mo:
                mism.append({"kind": "fi", "line": line, "impl": im, "model": mo})
        elif kind == "glob":
            exp = "1" if pyglob(c[0], c[1]) else "0"
            if im == "1":
                nontrivial.add(line)
            if "[" in c[0] or "\\" in c[0]:
                hist["glob:class-or-escape"] = hist.get("glob:class-or-escape", 0) + 1
            if im != exp or im != mo:
                # filepath.Match is modelled, not part of /repo: a disagreement is a harness/model problem
                mism.append({"kind": "glob", "pattern": c[0], "name": c[1], "impl": im, "model": mo, "python": exp})
        elif kind == "lower":
            if im != mo:
                mism.append({"kind": "lower", "s": c, "impl": im, "model": mo})
        elif kind == "pd":
            if im != "none":
                nontrivial.add(line)
            if im != mo:
                mism.append({"kind": "pd", "text": c, "impl": im, "model": mo})
        elif kind == "u1k":
            nfiles, nlines, dirs = c
            got = dec_marked(im)
            exp = u1k_expected(nfiles, nlines, dirs)
            if exp:
                nontrivial.add(line)
                hist["u1k:some-marked"] = hist.get("u1k:some-marked", 0) + 1
            if got != exp:
                key = "u1000-graph"
                for dev in DEVIATIONS[1:]:
                    if got == u1k_expected(nfiles, nlines, dirs, (dev,)):
                        key = dev
                if key == "u1000-graph" and got == u1k_expected(nfiles, nlines, dirs, DEVIATIONS[1:]):
                    key = "+".join(DEVIATIONS[1:])
                fails.append({"kind": "u1k", "key": key, "line": line, "impl": im, "model": mo,
                              "why": "declarations the U1000 graph counts as used because of the directives: expected %r, got %r (%s)" % (exp, got, im if got is None else ""),
                              "input": {"files": nfiles, "lines": nlines, "directives": [d.obj() for d in dirs]}})
            elif im != mo:
                mism.append({"kind": "u1k", "line": line, "impl": im, "model": mo})
        elif kind == "sup":
            d, g = c
            exp = "1" if Spec.suppresses(d, g[0], g[1], g[3]) else "0"
            if im == "1":
                nontrivial.add(line)
            if im != exp:
                fails.append({"kind": "sup", "key": "suppression", "why": "directive match differs from the statement: expected %s got %s" % (exp, im),
                              "line": line, "impl": im, "model": mo, "input": {"directive": d.obj(), "diagnostic": list(g)}})
            elif im != mo:
                mism.append({"kind": "sup", "line": line, "impl": im, "model": mo})
    samples = [{"input": lines[i][:400], "impl": impl[i][:300], "model": model[i][:300]} for i in range(0, len(lines), max(1, len(lines) // 5))][:6]
    # comments of whole files -> serialized directives
    srcdir = os.path.join(vlib.VERIF, "corpus", "C10", "src")
    n3, nt3, sm3 = srcfiles(ctx, binp, rng.fork("src"), n_src, fails, mism, hist,
                            [open(os.path.join(srcdir, fn)).read() for fn in sorted(os.listdir(srcdir))])
    return len(lines) + n3, nontrivial | nt3, samples + sm3


# --------------------------------------------------------------------------- end-to-end phase
CONFIGS = {
    "default": None,
    "no-sa4000-s1002": "all,-ST1000,-ST1020,-ST1021,-ST1022,-SA4000,-S1002",
    "only-four": "SA4000,SA4006,U1000,ST1003",
    "no-u1000": "all,-ST1000,-ST1020,-ST1021,-ST1022,-U1000",
    "all": "all,-ST1000,-ST1020,-ST1021,-ST1022",
}
# the doc-comment checks ST1000/ST102x are kept off: an inserted directive is itself a new
# comment, which those checks read.  "all" is a superset of every other selection and is the
# one used to calibrate which lines are insensitive to an inserted comment.
CAL = "all"


def allowed_for(cfg, all_checks, non_default):
    """enabled checks (lower case) for the restricted -checks forms used here"""
    if cfg is None:
        return set(c.lower() for c in all_checks if c not in non_default)
    out = set()
    for item in cfg.split(","):
        if item == "all":
            out = set(c.lower() for c in all_checks)
        elif item.startswith("-"):
            out.discard(item[1:].lower())
        else:
            out.add(item.lower())
    return out


def parse_report(stdout, root):
    probs = []
    for line in stdout.splitlines():
        if not line.strip():
            continue
        j = json.loads(line)
        f = j["location"]["file"]
        f = os.path.relpath(f, root) if os.path.isabs(f) else f
        probs.append((f, j["location"]["line"], j["location"]["column"], j["code"], j["message"], j["severity"]))
    return probs


def run_staticcheck_batch(ctx, sc, moddir, pkgs, cfg, show_ignored, cache):
    """One run of the real binary over the packages `pkgs` (directories of the module in
    `moddir`); returns {pkg: [problem]} with file names relative to the package."""
    env = vlib.go_env({"STATICCHECK_CACHE": cache})
    cmd = [sc, "-f", "json"]
    if cfg:
        cmd += ["-checks", cfg]
    if show_ignored:
        cmd.append("-show-ignored")
    cmd += ["./" + p for p in pkgs]
    rc, so, se = vlib.run(cmd, cwd=moddir, env=env, timeout=1500)
    if rc not in (0, 1) or se.strip():
        raise vlib.HarnessError("staticcheck failed in %s (%s, %d packages): rc=%d %s" % (moddir, cfg, len(pkgs), rc, se[-1500:]))
    out = {p: [] for p in pkgs}
    try:
        probs = parse_report(so, os.path.realpath(moddir))
    except ValueError:
        raise vlib.HarnessError("staticcheck output not JSON in %s: %s" % (moddir, so[-800:]))
    for p in probs:
        parts = p[0].split(os.sep)
        if len(parts) != 2 or parts[0] not in out:
            raise vlib.HarnessError("problem outside the requested packages: %r" % (p,))
        out[parts[0]].append((parts[1],) + tuple(p[1:]))
    return out


def target_lines(src_lines):
    """1-based numbers of the statement/declaration lines of the fixed package (every
    non-blank line that is not a closing brace, a comment or the package clause)."""
    out = []
    for i, l in enumerate(src_lines, 1):
        s = l.strip()
        if not s or s.startswith("}") or s.startswith("//") or s.startswith("package "):
            continue
        out.append(i)
    return out


def py_parse_comment(text):
    """the oracle's own reading of analysis/lint.parseDirective"""
    if not text.startswith("//lint:"):
        return None
    f = text[len("//lint:"):].split(" ")
    return f[0], f[1:]


def make_case(fname, line, text, cfgname):
    return {"file": fname, "line": line, "text": text, "config": cfgname}


def e2e_corpus():
    cs = []
    for cfg in ("default",):
        cs += [
            make_case("a.go", 20, "//lint:ignore U1000,SA4006 reason", cfg),
            make_case("a.go", 20, "//lint:ignore SA4006,U1000 reason", cfg),
            make_case("a.go", 20, "//lint:ignore SA4000 reason", cfg),
            make_case("a.go", 20, "//lint:ignore SA4000", cfg),
            make_case("a.go", 20, "//lint:ignore sa4000 wrong case still matches", cfg),
            make_case("a.go", 20, "//lint:ignore SA4* glob", cfg),
            make_case("a.go", 20, "//lint:ignore S1002 other check", cfg),
            make_case("a.go", 20, "//lint:ignore ST1003 disabled check", cfg),
            make_case("a.go", 20, "//lint:ignore ST1003,U1000 disabled and U1000", cfg),
            make_case("a.go", 31, "//lint:ignore SA4006 one of two on the line", cfg),
            make_case("a.go", 46, "//lint:ignore SA4000 two of the same check", cfg),
            make_case("b.go", 21, "//lint:ignore SA4000 same line number as in a.go after the shift", cfg),
            make_case("a.go", 3, "//lint:file-ignore SA4000 whole file", cfg),
            make_case("a.go", 3, "//lint:file-ignore SA4000", cfg),
            make_case("a.go", 7, "//lint:ignore U1000 reason", cfg),
            make_case("a.go", 7, "//lint:ignore U1000", cfg),
            make_case("a.go", 7, "//lint:ignore u1000 wrong case", cfg),
            make_case("a.go", 7, "//lint:ignore U1* glob", cfg),
            make_case("a.go", 7, "//lint:ignore SA4000,U1000 mixture", cfg),
            make_case("a.go", 3, "//lint:file-ignore U1000 generated", cfg),
            make_case("a.go", 3, "//lint:file-ignore U1000", cfg),
            make_case("a.go", 3, "//lint:file-ignore * everything", cfg),
            make_case("a.go", 13, "//lint:ignore U1000,ST1003 reason", "no-sa4000-s1002"),
            make_case("a.go", 20, "//lint:ignore SA4000 disabled here", "no-sa4000-s1002"),
            make_case("a.go", 20, "//lint:ignore SA4000,SA4006 reason", "no-sa4000-s1002"),
            make_case("a.go", 15, "//lint:ignore ST1003 reason", "only-four"),
            make_case("a.go", 23, "//lint:ignore S1002 reason", "only-four"),
            make_case("a.go", 7, "//lint:ignore U1000 reason", "no-u1000"),
            make_case("a.go", 7, "//lint:ignore U1000,SA4000 reason", "no-u1000"),
        ]
    return cs


def e2e_generate(rng, n, sources, base):
    """n cases; names are drawn relative to the problems on the target line."""
    cases = []
    cfgnames = list(CONFIGS)
    tl = {f: target_lines(src) for f, src in sources.items()}
    hot = {}
    for cfgname in cfgnames:
        for f in sources:
            hot[(cfgname, f)] = sorted(set(p[1] for p in base[cfgname]["problems"] if p[0] == f))
    for _ in range(n):
        cfgname = cfgnames[0] if rng.chance(1, 5) else rng.choice(cfgnames)
        f = rng.choice(sorted(sources))
        # two thirds of the placements on lines that carry problems
        if rng.chance(2, 3) and hot[(cfgname, f)]:
            line = rng.choice(hot[(cfgname, f)])
        else:
            line = rng.choice(tl[f])
        probs = base[cfgname]["problems"]
        on_line = sorted(set(p[3] for p in probs if p[0] == f and p[1] == line))
        elsewhere = sorted(set(p[3] for p in probs if not (p[0] == f and p[1] == line)))
        disabled = base[cfgname]["disabled_sample"]
        lst, classes = gen_checklist(rng, on_line, elsewhere, disabled)
        k = rng.below(20)
        cmd = "ignore" if k < 13 else ("file-ignore" if k < 18 else rng.choice(["ignored", "nolint", "Ignore"]))
        reason = gen_reason(rng)
        sep = " " if rng.chance(11, 12) else "  "
        text = "//lint:" + cmd + sep + lst + "".join(" " + w for w in reason)
        c = make_case(f, line, text, cfgname)
        c["classes"] = classes
        cases.append(c)
    return cases


def shape_case(fname, line, text, cfgname, shape, variant="plain"):
    c = make_case(fname, line, text, cfgname)
    c["shape"], c["variant"] = shape, variant
    return c


def e2e_corpus_shapes():
    """fixed placements inside comment groups, trailing, detached, around the package clause
    and in files remapped by //line directives (lines of corpus/C10/pkg)"""
    d = "default"
    return [
        shape_case("a.go", 20, "//lint:ignore SA4000 after an explanatory line", d, "group-last"),
        shape_case("a.go", 20, "//lint:ignore SA4000 before an explanatory line", d, "group-first"),
        shape_case("a.go", 20, "//lint:ignore SA4000 between two lines", d, "group-middle"),
        shape_case("a.go", 20, "//lint:ignore SA4000", d, "group-last"),
        shape_case("a.go", 18, "//lint:ignore SA4000 nothing here", d, "group-last"),
        shape_case("a.go", 7, "//lint:ignore U1000 kept for symmetry", d, "doc-end"),
        shape_case("a.go", 13, "//lint:ignore ST1003,U1000 at the end of a doc comment", d, "doc-end"),
        shape_case("a.go", 3, "//lint:file-ignore SA4000 after an explanatory line", d, "group-last"),
        shape_case("a.go", 29, "//lint:ignore SA4018 trailing", d, "trailing"),
        shape_case("a.go", 31, "//lint:ignore SA4006 trailing, one of two", d, "trailing"),
        shape_case("a.go", 13, "//lint:ignore U1000 trailing", d, "trailing"),
        shape_case("a.go", 30, "//lint:ignore SA4018 belongs to the line above", d, "detached"),
        shape_case("a.go", 23, "//lint:ignore SA4000 belongs to the if statement above", d, "detached"),
        shape_case("a.go", 18, "//lint:ignore SA4006 detached, first statement", d, "detached"),
        shape_case("a.go", 20, "//lint:ignore SA4000 not a directive", d, "in-block"),
        shape_case("a.go", 20, "/*lint:ignore SA4000 not a directive*/", d, "above"),
        shape_case("a.go", 20, "// lint:ignore SA4000 not a directive", d, "group-last"),
        shape_case("b.go", 2, "//lint:file-ignore SA4000 before the package clause", d, "file-top"),
        shape_case("b.go", 2, "//lint:file-ignore SA4000 last line of the package doc", d, "file-doc"),
        shape_case("a.go", 1, "//lint:file-ignore SA4000,S1002 first line of the file", d, "file-top"),
        shape_case("a.go", 1, "//lint:ignore SA4000 line directive on the package clause", d, "file-doc"),
        shape_case("a.go", 1, "//lint:file-ignore SA4* after the last declaration", d, "file-end"),
        shape_case("a.go", 20, "//lint:ignore SA4000 remapped from the first line on", d, "above", "top"),
        shape_case("a.go", 3, "//lint:file-ignore SA4000 //line precedes the package clause", d, "above", "top"),
        shape_case("a.go", 1, "//lint:file-ignore SA4000 before the //line comment", d, "file-top", "top"),
        shape_case("a.go", 20, "//lint:ignore SA4000 remapped from func F on", d, "above", "decl"),
        shape_case("a.go", 3, "//lint:file-ignore SA4000 only the part printed as a.go", d, "above", "decl"),
        shape_case("a.go", 23, "//lint:ignore S1002 directly below the //line comment", d, "above", "body"),
        shape_case("a.go", 29, "//lint:ignore SA4018 remapped mid-function", d, "group-last", "body"),
        shape_case("a.go", 20, "//lint:ignore SA4000 before the //line comment of the body", d, "above", "body"),
        shape_case("a.go", 20, "//lint:ignore SA4000 //line names a grammar file", d, "above", "yacc"),
        shape_case("a.go", 46, "//lint:ignore SA4000 second segment", d, "above", "two"),
        shape_case("a.go", 13, "//lint:ignore U1000 remapped", d, "above", "top"),
        shape_case("a.go", 20, "//lint:ignore SA4000", d, "above", "decl"),
        shape_case("a.go", 18, "//lint:ignore SA4000 nothing here, remapped", d, "above", "decl"),
        shape_case("b.go", 21, "//lint:ignore SA4000 remapped, second file", "all", "group-last", "decl"),
        shape_case("a.go", 31, "//lint:ignore SA4010 trailing, remapped", "all", "trailing", "two"),
    ]


def e2e_generate_shapes(rng, n, sources, base):
    """n placements over shapes x //line variants; names are drawn relative to the problems on
    the line the construction attaches the comment to"""
    cases = []
    cfgnames = list(CONFIGS)
    pk = {f: next(i for i, l in enumerate(src, 1) if l.startswith("package ")) for f, src in sources.items()}
    tl = {f: target_lines(src) for f, src in sources.items()}
    simple = {f: [i for i in tl[f] if is_simple(sources[f][i - 1])] for f in sources}
    for _ in range(n):
        cfgname = cfgnames[0] if rng.chance(1, 5) else rng.choice(cfgnames)
        probs = base[cfgname]["problems"]
        variant = "plain" if rng.chance(3, 10) else rng.choice(VARIANTS[1:])
        f = rng.choice(sorted(sources))
        k = rng.below(40)
        shape = ("above" if k < 6 and variant != "plain" else "group-last" if k < 12 else "group-first" if k < 15 else "group-middle" if k < 18
                 else "doc-end" if k < 22 else "trailing" if k < 27 else "detached" if k < 31 else "in-block" if k < 32
                 else "file-top" if k < 34 else "file-doc" if k < 36 else "file-end" if k < 38 else "group-last")
        hot = sorted(set(p[1] for p in probs if p[0] == f))
        if shape.startswith("file-"):
            line = pk[f]
        else:
            pool = simple[f] if shape == "trailing" else tl[f]
            hotp = [l for l in pool if l in hot]
            line = rng.choice(hotp) if hotp and rng.chance(2, 3) else rng.choice(pool)
        # the line (of the unchanged file) the comment is attached to by construction
        c = shape_case(f, line, NEUTRAL, cfgname, shape, variant)
        lay, _, t = case_layout(c, sources)
        gov = lay[f][1][t[0] - 1]
        on_line = sorted(set(p[3] for p in probs if p[0] == f and p[1] == gov))
        elsewhere = sorted(set(p[3] for p in probs if not (p[0] == f and p[1] == gov)))
        lst, classes = gen_checklist(rng, on_line, elsewhere, base[cfgname]["disabled_sample"])
        k = rng.below(20)
        if shape == "file-end":
            # only the file of the attached node is fixed by the construction
            cmd, reason = ("file-ignore" if k < 17 else "nolint"), ["generated", "code"]
        else:
            if shape in ("file-top", "file-doc"):
                cmd = "file-ignore" if k < 13 else ("ignore" if k < 18 else "Ignore")
            else:
                cmd = "ignore" if k < 13 else ("file-ignore" if k < 18 else rng.choice(["ignored", "nolint", "Ignore"]))
            reason = gen_reason(rng)
        text = "//lint:" + cmd + " " + lst + "".join(" " + w for w in reason)
        if shape != "in-block" and rng.chance(1, 12):
            text = rng.choice(["/*" + text[2:] + "*/", "// " + text[2:], "//Lint" + text[6:]])
        c["text"] = text
        c["classes"] = classes
        cases.append(c)
    return cases


# ---- where a directive is put (shape) and how the file's positions are printed (variant)
VARIANTS = ("plain", "top", "decl", "body", "yacc", "two")
SHAPES = ("above", "group-last", "group-first", "group-middle", "doc-end", "trailing", "detached", "in-block",
          "file-top", "file-doc", "file-end")
NOTE = "// c10 note"
NEUTRAL = "// c10 neutral comment"


def indent_of(l):
    return len(l) - len(l.lstrip("\t"))


def is_code(l):
    s = l.strip()
    return bool(s) and not s.startswith(("//", "/*", "*/"))


def is_simple(l):
    """a statement or declaration that starts and ends on this line"""
    s = l.strip()
    return is_code(l) and not s.endswith("{") and not s.startswith(("}", ")")) and not s.startswith("package ")


def ins(lines, origin, at, new):
    """insert the lines `new` before the 1-based line `at`"""
    return lines[:at - 1] + new + lines[at - 1:], origin[:at - 1] + [0] * len(new) + origin[at - 1:]


def variant_layout(src, key, variant):
    """The file `src` with the `//line` directives of the variant (always at column 1; names
    t<key>_s<i>.go / .y; target lines in disjoint ranges so that printed positions identify
    raw ones).  -> (lines, origin): origin[i] = line of `src` that line i+1 came from, 0 if new."""
    lines, origin = list(src), list(range(1, len(src) + 1))

    def find(prefix):
        return next(i for i, l in enumerate(lines, 1) if l.startswith(prefix))
    if variant in ("decl", "two"):
        lines, origin = ins(lines, origin, find("func F"), ["//line t%s_s2.go:201" % key])
    if variant == "yacc":
        lines, origin = ins(lines, origin, find("func F"), ["//line t%s_s4.y:401" % key])
    if variant == "body":
        lines, origin = ins(lines, origin, find("\tif b == true {"), ["", "//line t%s_s3.go:301" % key])
    if variant in ("top", "two"):
        lines, origin = ins(lines, origin, 1, ["//line t%s_s1.go:101" % key])
    return lines, origin


def apply_shape(lines, origin, L, shape, text):
    """Put the comment `text` at the 1-based line L of `lines` in the given shape.
    -> (lines, origin, (dline, dcol), (tline, tcol) or None): the comment's own raw position
    and the raw position of the first token of the code the comment is attached to, as far as
    the construction fixes it:
      above / group-* / doc-end   own-line comment group directly above line L -> line L
      trailing                    at the end of line L, a statement or declaration that starts and
                                  ends on it -> line L
      detached                    own line above L, then an empty line: belongs to the statement or
                                  declaration that ends on the line directly above, else to line L
      in-block                    inside a /* */ comment: no directive at all
      file-top / file-doc         before the package clause (detached / as its last doc line) -> the
                                  package clause
      file-end                    after the last declaration, detached: the file's last code line
                                  (only the *file* is fixed by the construction)"""
    I = "\t" * indent_of(lines[L - 1])
    if shape == "above":
        new, d, t = [I + text], 0, 1
    elif shape == "group-last":
        new, d, t = [I + NOTE, I + text], 1, 2
    elif shape == "group-first":
        new, d, t = [I + text, I + NOTE], 0, 2
    elif shape == "group-middle":
        new, d, t = [I + NOTE, I + text, I + "// c10 more"], 1, 3
    elif shape == "doc-end":
        new, d, t = [I + "// c10 doc comment.", I + "//", I + text], 2, 3
    elif shape == "in-block":
        new, d, t = [I + "/*", I + text, I + "*/"], 1, 3
    elif shape == "trailing":
        assert is_simple(lines[L - 1]), lines[L - 1]
        code = lines[L - 1]
        out = lines[:L - 1] + [code + " " + text] + lines[L:]
        return out, list(origin), (L, len(code) + 2), (L, len(I) + 1)
    elif shape == "detached":
        out, org = ins(lines, origin, L, [I + text, ""])
        k = L - 1                      # 1-based line above the comment group (comments directly
        while k >= 1 and lines[k - 1].lstrip().startswith("//"):   # above join the group: the //line
            k -= 1                                                 # comments, the first line of b.go)
        prev = lines[k - 1] if k >= 1 else ""
        if not is_code(prev) or prev.rstrip().endswith("{"):
            return out, org, (L, len(I) + 1), (L + 2, len(I) + 1)
        if prev.strip().startswith("}"):
            k = max(j for j in range(1, k) if indent_of(lines[j - 1]) == indent_of(prev) and lines[j - 1].rstrip().endswith("{") and is_code(lines[j - 1]))
        return out, org, (L, len(I) + 1), (k, indent_of(lines[k - 1]) + 1)
    elif shape in ("file-top", "file-doc"):
        pk = next(i for i, l in enumerate(lines, 1) if l.startswith("package "))
        if shape == "file-top":
            out, org = ins(lines, origin, 1, [text, ""])
            return out, org, (1, 1), (pk + 2, 1)
        out, org = ins(lines, origin, pk, [text])
        return out, org, (pk, 1), (pk + 1, 1)
    elif shape == "file-end":
        n = len(lines) if lines[-1] != "" else len(lines) - 1     # the text ends with a newline
        last = max(i for i, l in enumerate(lines, 1) if is_code(l) and not l.strip().startswith("}"))
        out, org = ins(lines, origin, n + 1, ["", text])
        return out, org, (n + 2, 1), (last, 0)
    else:
        raise vlib.HarnessError("unknown shape %r" % shape)
    out, org = ins(lines, origin, L, new)
    return out, org, (L + d, len(I) + 1), (L + t, len(I) + 1)


def case_layout(case, sources, text=None):
    """-> ({file: (lines, origin)}, dpos_raw, tpos_raw) of the package of the case; `text`
    replaces the directive (neutral comment for calibration)."""
    variant, shape = case.get("variant", "plain"), case.get("shape", "above")
    lay = {fn: variant_layout(src, fn[0], variant) for fn, src in sources.items()}
    f = case["file"]
    lines, origin = lay[f]
    L = origin.index(case["line"]) + 1
    lines, origin, d, t = apply_shape(lines, origin, L, shape, case["text"] if text is None else text)
    lay[f] = (lines, origin)
    return lay, d, t


def case_files(case, sources, text=None):
    return {fn: lo[0] for fn, lo in case_layout(case, sources, text)[0].items()}


def printed(lm, line, col):
    f, l, remapped = lm[line - 1]
    return (f, l, 0 if remapped else col)


def e2e_predict_inputs(case, sources, base, mode="display"):
    """Common part of oracle and model prediction: where the linter prints the comment and the
    first token of the code it is attached to, and where it prints the problems of the
    directive-free report after the insertion (problems are identified by their raw line: the
    construction of the variants makes printed positions identify raw ones)."""
    lay, d, t = case_layout(case, sources)
    lm = {fn: line_map(lo[0], fn, mode) for fn, lo in lay.items()}
    b = base[case["config"]]
    moved = []
    for p in b["problems"]:
        raw = lay[p[0]][1].index(p[1]) + 1
        moved.append(printed(lm[p[0]], raw, p[2]) + tuple(p[3:]))
    non_u = [p for p in moved if p[3] != "U1000"]
    u = [p for p in moved if p[3] == "U1000"]
    f = case["file"]
    return printed(lm[f], d[0], d[1]), printed(lm[f], t[0], t[1]), non_u, u, b["allowed"]


def infer_print_mode(variant, sources, base_cal, real):
    """How does this tree print positions of `//line`-remapped files?  The statement is about
    the positions the linter prints, whatever they are: the directive-free report of the
    variant decides between report.DisplayPosition's documented behaviour and the two other
    candidates (never / always adjusted)."""
    for mode in ("display", "raw", "adjusted"):
        exp = []
        for p in base_cal:
            lines, origin = variant_layout(sources[p[0]], p[0][0], variant)
            exp.append(printed(line_map(lines, p[0], mode), origin.index(p[1]) + 1, p[2]) + tuple(p[3:]))
        if sorted(exp) == sorted(real):
            return mode
    raise vlib.HarnessError("directive-free report of the //line variant %r of the fixed package is none of the expected renderings: %r" % (variant, sorted(real)))


def e2e_oracle(case, sources, base, dev=(), mode="display"):
    """-> kept, added, must_vanish, may_vanish (bool), u, dirs"""
    dpos, npos, non_u, u, allowed = e2e_predict_inputs(case, sources, base, mode)
    # inside a /* */ comment the text is no comment of its own: no directive
    parsed = py_parse_comment(case["text"]) if case.get("shape") != "in-block" else None
    dirs = [Dir(parsed[0], parsed[1], dpos, npos)] if parsed else []
    kept, added = Spec.filter(False, allowed, [p[:5] for p in non_u], dirs, dev)
    must_vanish = [p for p in u if any(Spec.u1000_suppresses(d, p[0], p[1], dev) for d in dirs)]
    # only a directive that makes the U1000 graph ignore something may change other U1000 problems
    may_vanish = any(Spec.u1000_active(d, dev) for d in dirs)
    return kept, added, must_vanish, may_vanish, u, dirs


def e2e_optional(added, must_vanish):
    """The statement demands the "didn't match anything" problem for a directive that
    suppresses *nothing*.  A line directive that did suppress a U1000 problem (and names
    another enabled check that matched nothing) is outside that clause: the oracle accepts
    the report with or without the problem.  (The code reports it, and so does the model.)"""
    return [a for a in added if a[3] == "staticcheck"] if must_vanish else []


def sev_word(s):
    return {"e": "error", "w": "warning", "i": "ignored"}[s]


def e2e_compare(kept, added, must_vanish, may_vanish, u, real, show_ignored, optional=()):
    """Compare a real report with a prediction. Returns list of discrepancy strings."""
    out = []
    opt = [(a[0], a[1], a[2], a[3], a[4], "error") for a in optional]
    exp = [(k[0], k[1], k[2], k[3], k[4], sev_word(k[5])) for k in kept if show_ignored or k[5] != "i"]
    exp += [(a[0], a[1], a[2], a[3], a[4], "error") for a in added]
    exp = [p for p in exp if p not in opt]
    real_non_u = sorted(p for p in real if p[3] != "U1000" and p not in opt)
    real_u = sorted(p for p in real if p[3] == "U1000")
    exp = sorted(exp)
    if real_non_u != exp:
        missing = [p for p in exp if p not in real_non_u]
        extra = [p for p in real_non_u if p not in exp]
        out.append("non-U1000 problems differ: missing %r, unexpected %r" % (missing, extra))
    pool = list(u)
    for p in real_u:
        if p in pool:
            pool.remove(p)
        else:
            out.append("U1000 problem not in the base report (or with changed severity): %r" % (p,))
    for p in must_vanish:
        if p in real_u:
            out.append("U1000 problem named by the directive still reported: %r" % (p,))
    if not may_vanish and pool:
        out.append("U1000 problems disappeared although no well-formed directive names U1000: %r" % (pool,))
    return out


def e2e_key(case, sources, base, r0, r1, mode="display"):
    """Attribute an oracle failure of the end-to-end phase to a defect class: the smallest
    set of deviations with which the statement reproduces both real reports."""
    import itertools
    for n in (1, 2, 3):
        for dev in itertools.combinations(DEVIATIONS, n):
            kept, added, mv, may, u, dirs = e2e_oracle(case, sources, base, dev, mode)
            opt = e2e_optional(added, mv)
            if not e2e_compare(kept, added, mv, may, u, r0, False, opt) and not e2e_compare(kept, added, mv, may, u, r1, True, opt):
                return "+".join(dev)
    return "e2e"


CHUNK = 400   # cases per scratch module
COPIES = 20   # cases per package
TOPLEVEL = re.compile(r"^(?:func|var|type|const)\s+(\w+)", re.M)


class Copies:
    """Several placements share one package: copy k of the fixed package is the pair of files
    a_n<k>.go / b_n<k>.go (not a_<k>.go: `_386.go` is a GOARCH file suffix) in which every package-level name N is renamed to N<K><k>; the copies
    do not refer to each other.  A package made of such copies is one more package of the
    property's quantifier, with one directive in each pair of files — and it costs the
    analyzers' fixed per-package work once instead of COPIES times.  Reports are mapped
    back (file a_n<k>.go -> a.go of case k, names unsuffixed) and a directive-free control
    copy in every package must reproduce the base report exactly (else HarnessError: the
    copies are not independent and the batching is invalid)."""
    def __init__(self, sources):
        names = set()
        for src in sources.values():
            names.update(TOPLEVEL.findall("\n".join(src)))
        self.pat = re.compile(r"\b(%s)\b" % "|".join(sorted(names, key=len, reverse=True)))

    def rename(self, src_lines, k):
        """comments are left alone, except that the file names of //line comments get the copy's number"""
        out = []
        for l in src_lines:
            st = l.lstrip()
            if st.startswith("//line "):
                l = re.sub(r"^//line t([ab])_(s\d)\.", lambda m: "//line t%s_n%d_%s." % (m.group(1), k, m.group(2)), l)
            elif not st.startswith(("//", "/*", "*/")):
                j = l.find(" //")
                j = l.find(" /*") if j < 0 else j
                code, com = (l, "") if j < 0 else (l[:j], l[j:])
                l = self.pat.sub(lambda m: m.group(1) + "K%d" % k, code) + com
            out.append(l)
        return out

    FILE_RE = re.compile(r"(?:([ab])|t([ab]))_n(\d+)(?:_(s\d))?\.(go|y)$")

    @staticmethod
    def unfile(name):
        """file name of a copy -> (k, raw file a.go/b.go, printed canonical name, remapped?) or None"""
        m = Copies.FILE_RE.match(name)
        if not m or (m.group(1) is None) == (m.group(4) is None):
            return None
        if m.group(1):
            return int(m.group(3)), m.group(1) + ".go", m.group(1) + ".go", False
        return int(m.group(3)), m.group(2) + ".go", "t%s_%s.%s" % (m.group(2), m.group(4), m.group(5)), True

    @staticmethod
    def unname(msg, k):
        return re.sub(r"(?<=\w)K%d\b" % k, "", msg)

    def uncol(self, line_text, k, col):
        """column in the original line of the byte that the renaming moved to column `col`"""
        if line_text.lstrip().startswith(("//", "/*", "*/")) or col == 0:
            return col
        s, shift = len("K%d" % k), 0
        for m in self.pat.finditer(line_text):
            if m.end() + shift + s <= col - 1:
                shift += s
            else:
                break
        return col - shift


def end_to_end(ctx, sc, binp, rng, n_cases, n_shapes, all_checks, non_default, fails, mism, hist):
    """Placements are materialised in scratch modules and the real binary is run over a
    module: once per -checks selection, with and without -show-ignored (the first run
    analyses, the others read the cache).  See class Copies for how placements share
    packages; disagreeing cases are re-run as a package of their own (exactly HOWTO["e2e"])
    before anything is reported."""
    sources = {}
    for fn in ("a.go", "b.go"):
        sources[fn] = open(os.path.join(PKG, fn)).read().split("\n")
    gomod = open(os.path.join(PKG, "go.mod")).read()
    cache = os.path.dirname(ctx.path("e2e", "sccache", "x"))
    counter = [0]
    copies = Copies(sources)

    def new_module():
        counter[0] += 1
        d = ctx.path("e2e", "mod%d" % counter[0], "go.mod")
        open(d, "w").write(gomod)
        return os.path.dirname(d)

    def materialise(moddir, name, files):
        d = os.path.join(moddir, name)
        os.makedirs(d, exist_ok=True)
        for fn, src in files.items():
            open(os.path.join(d, fn), "w").write("\n".join(src))

    groups = {}

    # base report: one run with everything enabled; the report under another selection is its
    # restriction to the enabled checks (verified below, on the same runs that serve the cases)
    names = [CAL] + [n for n in CONFIGS if n != CAL]
    bmod = new_module()
    materialise(bmod, "base", sources)
    base_all = run_staticcheck_batch(ctx, sc, bmod, ["base"], CONFIGS[CAL], False, cache)["base"]
    nruns = [1]
    base = {}
    for cfgname in names:
        allowed = allowed_for(CONFIGS[cfgname], all_checks, non_default)
        probs = [p for p in base_all if p[3].lower() in allowed]
        for p in probs:
            if p[5] != "error":
                raise vlib.HarnessError("base report has unexpected problem %r" % (p,))
        dis = sorted(c for c in all_checks if c.lower() not in allowed)
        base[cfgname] = {"problems": probs, "allowed": allowed,
                         "disabled_sample": [c for c in ("ST1003", "SA4000", "S1002", "S1008", "SA4003", "U1000", "SA1000") if c in dis] or dis[:3]}
    if len(base["default"]["problems"]) < 20:
        raise vlib.HarnessError("fixed package no longer has the expected problems: %r" % base["default"]["problems"])

    # directive-free reports of the //line variants of the package: how does this tree print
    # positions in remapped files (the statement is about printed positions)
    vk = {v: 900001 + i for i, v in enumerate(VARIANTS[1:])}
    for v, k in vk.items():
        materialise(bmod, "basev", {"%s_n%d.go" % (fn[0], k): copies.rename(variant_layout(src, fn[0], v)[0], k) for fn, src in sources.items()})
    realv = {}
    for p in run_staticcheck_batch(ctx, sc, bmod, ["basev"], CONFIGS[CAL], False, cache)["basev"]:
        uf = Copies.unfile(p[0])
        if uf is None:
            raise vlib.HarnessError("problem in an unknown file: %r" % (p,))
        k, rawfn, pname, remapped = uf
        vlines = variant_layout(sources[rawfn], rawfn[0], [v for v in vk if vk[v] == k][0])[0]
        col = p[2] if remapped or not 1 <= p[1] <= len(vlines) else copies.uncol(vlines[p[1] - 1], k, p[2])
        realv.setdefault(k, []).append((pname, p[1], col, p[3], Copies.unname(p[4], k), p[5]))
    nruns[0] += 1
    modes = {"plain": "display"}
    for v, k in vk.items():
        modes[v] = infer_print_mode(v, sources, base[CAL]["problems"], realv.get(k, []))
        hist["e2e:print-mode:" + modes[v]] = hist.get("e2e:print-mode:" + modes[v], 0) + 1

    def mode_of(case):
        return modes[case.get("variant", "plain")]

    if ctx.replay_cases is not None:
        cases = [dict(c["case"]) for c in ctx.replay_cases if c.get("kind") == "e2e"]
    else:
        cases = (e2e_corpus() + e2e_generate(rng, n_cases, sources, base)
                 + e2e_corpus_shapes() + e2e_generate_shapes(rng.fork("shapes"), n_shapes, sources, base))

    def run_cases(idxs, ncopies):
        """-> {i: [report, report with -show-ignored]} for the cases idxs, ncopies per package;
        a package holds cases of one -checks selection and is run under that selection only
        (first without -show-ignored: that run analyses; then with: that one reads the cache)"""
        res = {}
        for lo in range(0, len(idxs), CHUNK):
            chunk = idxs[lo:lo + CHUNK]
            mod = new_module()
            materialise(mod, "base", sources)
            where, texts, plan = {}, {}, []
            for ci, cfgname in enumerate(names):
                mine = [i for i in chunk if cases[i]["config"] == cfgname]
                pkgs = []
                for g in range(0, len(mine), ncopies):
                    name = "s%dg%d" % (ci, g)
                    pkgs.append(name)
                    group = mine[g:g + ncopies]
                    if ncopies == 1:
                        materialise(mod, name, case_files(cases[group[0]], sources))
                        where[group[0]] = (name, None)
                        continue
                    for i in group + [None]:          # None: the directive-free control copy
                        k = i if i is not None else 10 ** 6 + g
                        files = sources if i is None else case_files(cases[i], sources)
                        materialise(mod, name, {"%s_n%d.go" % (fn[0], k): copies.rename(src, k) for fn, src in files.items()})
                        where[i if i is not None else ("control", name)] = (name, k)
                        texts[(name, k)] = files
                        if i is not None:
                            groups[i] = group
                if pkgs or lo == 0:
                    plan.append((cfgname, mine, pkgs))

            def both(p):
                cfgname, mine, pkgs = p
                return [run_staticcheck_batch(ctx, sc, mod, ["base"] + pkgs, CONFIGS[cfgname], show, cache) for show in (False, True)]

            # one thread per selection; each run of the binary is itself parallel, but most of
            # these runs are small (a few packages) and dominated by start-up
            with ThreadPoolExecutor(max_workers=5) as ex:
                outs = list(ex.map(both, plan))
            nruns[0] += 2 * len(plan)
            for (cfgname, mine, pkgs), pair in zip(plan, outs):
                for show, out in zip((False, True), pair):
                    expb = sorted(base[cfgname]["problems"])
                    if sorted(out["base"]) != expb:
                        raise vlib.HarnessError("report of the unmodified package under -checks %r%s is not the restriction of the full report to the enabled checks: %r" % (
                            CONFIGS[cfgname], " -show-ignored" if show else "", out["base"]))
                    split = {}
                    for name in pkgs:
                        for p in out[name]:
                            uf = Copies.unfile(p[0])
                            if ncopies == 1:
                                split.setdefault((name, None), []).append(p)
                            elif uf:
                                k, fn, pname, remapped = uf
                                if (name, k) not in texts:
                                    raise vlib.HarnessError("problem at an unknown place: %r" % (p,))
                                # a line outside the file (a tree that mixes raw file names with adjusted
                                # lines) is passed on as printed: the oracle judges it, the machinery does not
                                inside = not remapped and 1 <= p[1] <= len(texts[(name, k)][fn])
                                col = copies.uncol(texts[(name, k)][fn][p[1] - 1], k, p[2]) if inside else p[2]
                                split.setdefault((name, k), []).append((pname, p[1], col, p[3], Copies.unname(p[4], k), p[5]))
                            else:
                                raise vlib.HarnessError("problem in an unknown file: %r" % (p,))
                    for i, key in where.items():
                        if key[0] not in pkgs:
                            continue
                        if isinstance(i, tuple):
                            if sorted(split.get(key, [])) != expb:
                                control_bad.append((cfgname, show, [j for j in where if not isinstance(j, tuple) and where[j][0] == key[0]],
                                                    sorted(split.get(key, [])), expb))
                        else:
                            res.setdefault(i, [None, None])[1 if show else 0] = split.get(key, [])
            shutil.rmtree(mod, ignore_errors=True)
        return res

    def control_verdict(cfgname, show, group, got, expb):
        """The directive-free control copy of a package differs from the base report.  Either
        the copies are not independent (harness invalid: HarnessError) — decided by the same
        package with neutral comments in place of the directives — or directives in *other*
        files changed the report of these files: a failing input of the property."""
        mod = new_module()
        k0 = 10 ** 6
        for i in group + [None]:
            k = i if i is not None else k0
            files = sources if i is None else case_files(cases[i], sources, NEUTRAL)
            materialise(mod, "n", {"%s_n%d.go" % (fn[0], k): copies.rename(src, k) for fn, src in files.items()})
        out = run_staticcheck_batch(ctx, sc, mod, ["n"], CONFIGS[cfgname], show, cache)["n"]
        nruns[0] += 1
        ctl = []
        for p in out:
            m = re.match(r"([ab])_n(\d+)\.go$", p[0])
            if m and int(m.group(2)) == k0:
                fn = m.group(1) + ".go"
                ctl.append((fn, p[1], copies.uncol(sources[fn][p[1] - 1], k0, p[2]), p[3], Copies.unname(p[4], k0), p[5]))
        shutil.rmtree(mod, ignore_errors=True)
        if sorted(ctl) != expb:
            raise vlib.HarnessError("renamed copies of the fixed package are not independent even without directives: %r vs %r" % (sorted(ctl), expb))
        missing = [p for p in expb if p not in got]
        extra = [p for p in got if p not in expb]
        return {"kind": "e2e", "key": "other-files", "no_calibration": True, "case": cases[group[0]],
                "why": "directives in other files of the package changed the problems of a pair of files that has no directive (%s%s): missing %r, unexpected %r" % (
                    "-checks " + str(CONFIGS[cfgname]), " -show-ignored" if show else "", missing, extra),
                "package_cases": [dict(cases[j], copy=j) for j in group], "control_report": [list(p) for p in got]}

    control_bad = []
    everything = list(range(len(cases)))
    copies_per_pkg = 1 if ctx.replay_cases is not None else int(os.environ.get("VERIF_C10_COPIES", COPIES))
    got = run_cases(everything, copies_per_pkg)
    results = [got[i] for i in everything]

    # A placement qualifies only if an inserted neutral comment there leaves the report
    # unchanged (some analyzers read comments, e.g. S1008).  Checked lazily, for the
    # placements of cases that disagree with the prediction.
    calib = {}

    def spot(case):
        return (case.get("variant", "plain"), case["file"], case["line"], case.get("shape", "above"))

    def calibrate(cs):
        """cs: cases; their placements (variant, file, line, shape) with a neutral comment in
        place of the directive must give the directive-free report, moved"""
        todo = {}
        for c in cs:
            if spot(c) not in calib:
                todo[spot(c)] = dict(c, config=CAL)
        if not todo:
            return
        mod = new_module()
        for k, c in enumerate(todo.values()):
            materialise(mod, "k%d" % k, case_files(c, sources, NEUTRAL))
        out = run_staticcheck_batch(ctx, sc, mod, ["k%d" % k for k in range(len(todo))], CONFIGS[CAL], False, cache)
        nruns[0] += 1
        for k, (sp, c) in enumerate(todo.items()):
            _, _, non_u, u, _ = e2e_predict_inputs(c, sources, base, mode_of(c))
            calib[sp] = sorted(out["k%d" % k]) == sorted(non_u + u)
        shutil.rmtree(mod, ignore_errors=True)
        hist["e2e:calibration-packages"] = hist.get("e2e:calibration-packages", 0) + len(todo)

    # model predictions: the file with the comment in place goes through go/parser (op src of
    # c10filter: syntax facts only) and the model's NewCommentMap + ParseDirectives +
    # serializeDirective (op att) -> the directive record(s); fi for the non-U1000 part, sup for U1000
    flines = []
    for case in cases:
        flines.append("src " + hexs("\n".join(case_files(case, sources)[case["file"]])))
    facts = run_impl(ctx, binp, flines)
    for case, fa in zip(cases, facts):
        if not fa.startswith("att "):
            raise vlib.HarnessError("the file of case %r does not parse: %s" % (case, fa[:100]))
    att_out = model_run(ctx, facts)
    have_model = att_out is not None
    mlines2, idx = [], []
    for case, ao in zip(cases, att_out if have_model else [None] * len(cases)):
        dpos, npos, non_u, u, allowed = e2e_predict_inputs(case, sources, base, mode_of(case))
        dirs = []
        if ao is None:
            parsed = py_parse_comment(case["text"]) if case.get("shape") != "in-block" else None
            dirs = [Dir(parsed[0], parsed[1], dpos, npos)] if parsed else []
        else:
            ds = dec_directives(ao)
            if ds is None or len(ds) > 1:
                raise vlib.HarnessError("model output for the file of case %r: %s" % (case, ao[:300]))
            fix = lambda q: (case["file"] if q[0] == "x.go" else q[0], q[1], q[2])
            dirs = [Dir(c, a, fix(d), fix(n)) for c, a, d, n in ds]
        al = sorted(allowed)
        start = len(mlines2)
        mlines2.append(fi_line(False, al, [p[:5] for p in non_u], dirs))
        if dirs:
            for p in u:
                mlines2.append("sup %s %s %d %s" % (enc_dir(dirs[0]), hexs(p[0]), p[1], hexs("U1000")))
            # does the directive make the U1000 graph ignore anything at all: ask about its own node
            mlines2.append("sup %s %s %d %s" % (enc_dir(dirs[0]), hexs(dirs[0].npos[0]), dirs[0].npos[1], hexs("U1000")))
        idx.append((start, len(mlines2), dirs))
    m_out = model_run(ctx, mlines2) if have_model else None
    have_model = have_model and m_out is not None

    nontrivial = set()
    samples = []

    def judge(i, r0, r1):
        case = cases[i]
        dpos, npos, non_u, u, allowed = e2e_predict_inputs(case, sources, base, mode_of(case))
        kept, added, must_vanish, may_vanish, _, dirs = e2e_oracle(case, sources, base, (), mode_of(case))
        optional = e2e_optional(added, must_vanish)
        problems = []
        for show, real in ((False, r0), (True, r1)):
            for msg in e2e_compare(kept, added, must_vanish, may_vanish, u, real, show, optional):
                problems.append(("-show-ignored: " if show else "default: ") + msg)
        # model
        mproblems = []
        if have_model:
            start, end, mdirs = idx[i]
            mo = dec_diags(m_out[start])
            if mo is None:
                raise vlib.HarnessError("model output unparseable: %s" % m_out[start][:200])
            mkept, madded = mo[:len(non_u)], mo[len(non_u):]
            mvanish = [p for p, o in zip(u, m_out[start + 1:end - 1]) if o == "1"] if mdirs else []
            mmay = m_out[end - 1] == "1" if mdirs else False
            for show, real in ((False, r0), (True, r1)):
                mproblems += e2e_compare(mkept, madded, mvanish, mmay, u, real, show)
        cls = "none"
        if dirs and Spec.malformed(dirs[0]):
            cls = "malformed"
        elif any(k[5] == "i" for k in kept) and must_vanish:
            cls = "suppresses-both"
        elif any(k[5] == "i" for k in kept):
            cls = "suppresses"
        elif must_vanish:
            cls = "suppresses-u1000"
        elif any(a[3] == "staticcheck" for a in added):
            cls = "useless-reported"
        elif dirs and Spec.wf(dirs[0]):
            cls = "useless-silent"
        rec = {"kind": "e2e", "case": case, "directive": dirs[0].obj() if dirs else None,
               "files": {fn: "\n".join(src) for fn, src in case_files(case, sources).items()} if problems else None,
               "report_default": [list(p) for p in r0], "report_show_ignored": [list(p) for p in r1],
               "expected_kept": [list(k) for k in kept], "expected_added": [list(a) for a in added],
               "expected_u1000_gone": [list(p) for p in must_vanish]}
        if problems:
            rec["key"] = e2e_key(case, sources, base, r0, r1, mode_of(case))
            rec["why"] = "; ".join(problems)
        elif mproblems:
            rec["model_disagreement"] = mproblems
        return cls, bool(optional), rec

    judged = {}
    for i, (r0, r1) in enumerate(results):
        judged[i] = judge(i, r0, r1)
        cls, optional, rec = judged[i]
        case = cases[i]
        hist["e2e:" + cls] = hist.get("e2e:" + cls, 0) + 1
        hist["e2e:cfg:" + case["config"]] = hist.get("e2e:cfg:" + case["config"], 0) + 1
        if optional:
            hist["e2e:useless-report-optional"] = hist.get("e2e:useless-report-optional", 0) + 1
        if cls != "none":
            nontrivial.add((case["file"], case["line"], case["text"], case["config"], case.get("shape"), case.get("variant")))
        hist["e2e:shape:" + case.get("shape", "above")] = hist.get("e2e:shape:" + case.get("shape", "above"), 0) + 1
        hist["e2e:variant:" + case.get("variant", "plain")] = hist.get("e2e:variant:" + case.get("variant", "plain"), 0) + 1
        if len(samples) < 5 and i % max(1, len(cases) // 5) == 0:
            samples.append({"case": case, "class": cls, "report_without_show_ignored": [list(p) for p in r0 if p[3] != "U1000"][:6]})

    # every disagreement is re-run as a package of its own before it is reported
    bad = [i for i in everything if "why" in judged[i][2] or "model_disagreement" in judged[i][2]]
    pending_f, pending_m = [], []
    if bad and copies_per_pkg != 1:
        hist["e2e:rerun-single-package"] = len(bad)
        again = run_cases(bad[:60], 1)
        for i in bad:
            if i not in again:
                continue
            rec_batch = judged[i][2]
            rec = judge(i, *again[i])[2]
            if "why" not in rec and "model_disagreement" not in rec and "why" in rec_batch:
                # holds for the package alone, fails among the copies: still a failing input
                rec_batch["key"] = "multi-file-package"
                rec_batch["why"] = "only in the package of up to %d renamed copies (class Copies; VERIF_SEED=%d, tier %s): %s" % (
                    copies_per_pkg, ctx.seed, ctx.tier, rec_batch["why"])
                rec_batch["package_cases"] = [dict(cases[j], copy=j) for j in groups.get(i, [])]
                pending_f.append(rec_batch)
            else:
                judged[i] = (judged[i][0], judged[i][1], rec)
    for i in bad:
        rec = judged[i][2]
        if rec.get("key") == "multi-file-package":
            continue
        if "why" in rec:
            pending_f.append(rec)
        elif "model_disagreement" in rec:
            pending_m.append(rec)
    for cb in control_bad[:3]:
        pending_f.append(control_verdict(*cb))
    calibrate([r["case"] for r in pending_f + pending_m if not r.get("no_calibration")])
    sensitive = sorted(sp for sp, ok in calib.items() if not ok)
    if sensitive:
        ctx.notes.append("disagreements discarded at placements where a neutral comment already changes the report: %r" % sensitive)
    fails += [r for r in pending_f if r.get("no_calibration") or calib[spot(r["case"])]]
    mism += [r for r in pending_m if calib[spot(r["case"])]]
    hist["e2e:binary-runs"] = nruns[0]
    return 2 * len(cases), nontrivial, samples, len(cases)


# --------------------------------------------------------------------------- main
HOWTO = {
    "fi": "echo '<line>' | go run -tags verif ./cmd/c10filter (in /verif/harness) gives the real filterIgnored output; "
          "echo '<line>' | lean/.lake/build/bin/c10driver gives the model's; protocol in lean/Verif/C10/Driver.lean",
    "sup": "as for fi (op sup)",
    "u1k": "as for fi (op u1k): the real unused.Graph on the synthetic package described in harness/cmd/c10filter/main.go (func u1k)",
    "e2e": "the package is in `files` of the case (= corpus/C10/pkg with the //line comments of case.variant, see variant_layout, and "
           "case.text put at line case.line of case.file in the shape case.shape, see apply_shape in checks/c10.py): write the files "
           "next to corpus/C10/pkg/go.mod, run `staticcheck -f json [-checks <CONFIGS[case.config]>] [-show-ignored] ./...` and compare "
           "with the run on the same files without the directive comment",
    "src": "save `source` as x.go in a directory with a go.mod and run `staticcheck -checks all ./...`, or: "
           "echo \"pdf $(xxd -p -c0 x.go)\" | go run -tags verif ./cmd/c10filter (in /verif/harness) prints the directives the real "
           "lint.ParseDirectives + runner.serializeDirective read from the file (<cmd> <nargs> <args> <comment position> <node position>, hex strings)",
}

KEY_TEXT = {
    "comment-to-directive": "a `//lint:` comment of a source file is not read as exactly one directive located at the printed position of the comment and attached to the code line it stands on/above",
    "other-files": "a directive changed problems of files other than its own (package of renamed copies of corpus/C10/pkg, class Copies in checks/c10.py; the copies are listed in package_cases)",
    "multi-file-package": "the statement fails for a placement only when the package holds further renamed copies of the two files with directives of their own (class Copies in checks/c10.py)",
    "useless-u1000-order": "whether a useless line directive is reported depends on where U1000 stands in its check list",
    "u1000-no-reason": "a U1000 directive without a reason is reported as malformed but still suppresses U1000 problems",
    "u1000-name-match": "a directive whose name matches U1000 only as a glob or in another case does not suppress the U1000 problem on its line",
    "u1000-no-reason+u1000-name-match": "U1000 directives: both the missing-reason and the name-matching deviation",
}


def run(ctx):
    import time
    phases = {}
    t_last = [time.time()]

    def lap(name):
        now = time.time()
        phases[name] = round(now - t_last[0], 1)
        t_last[0] = now

    ctx.replay_cases = None
    if ctx.replay:
        rp = json.load(open(ctx.replay))
        ctx.replay_cases = rp.get("cases", [])
    # the Lean phase and the two Go builds are independent: run them side by side
    with ThreadPoolExecutor(max_workers=3) as ex:
        f_lean = ex.submit(vlib.std_lean_phase, ctx, MODULES, THEOREMS)
        f_bin = ex.submit(vlib.build_harness, ctx, "c10filter")
        f_sc = ex.submit(vlib.build_repo_cmd, ctx, "./cmd/staticcheck")
        lean_ok, lean_broke = f_lean.result()
        binp, sc = f_bin.result(), f_sc.result()
    rc, so, se = vlib.run([sc, "-list-checks"], env=vlib.go_env())
    all_checks = [l.split()[0] for l in so.splitlines() if l.strip()]
    rc2, so2, se2 = vlib.run([binp, "-nondefault"], env=vlib.go_env())
    if rc != 0 or rc2 != 0 or len(all_checks) < 100:
        raise vlib.HarnessError("cannot list checks: %s %s" % (se, se2))
    non_default = set(so2.split())
    lap("lean build+audit, go builds")

    rng = vlib.SplitMix(ctx.seed).fork("C10")
    n_fi, n_small, n_e2e = (30000, 4000, 110) if ctx.quick else (200000, 20000, 2000)
    n_shapes, n_src = (100, 1500) if ctx.quick else (1000, 10000)
    if not ctx.quick:
        n_e2e = 1400      # old family; together with the 1 000 shape/variant placements ≈ the old e2e budget + 20 %
    n_shapes = int(os.environ.get("VERIF_C10_SHAPES", n_shapes))
    # development knobs (defaults are the fixed case counts above)
    n_e2e = int(os.environ.get("VERIF_C10_E2E", n_e2e))
    n_fi = int(os.environ.get("VERIF_C10_FI", n_fi))
    fails, mism, hist = [], [], {}
    samples = []
    evals = 0
    nontriv = 0
    n_cli = 0
    if ctx.replay_cases is not None:
        lines = [c["line"] for c in ctx.replay_cases if c.get("kind") in ("fi", "sup", "u1k")]
        if lines:
            impl = run_impl(ctx, binp, lines)
            model = model_run(ctx, lines) or ["model unavailable"] * len(lines)
            for l, im, mo in zip(lines, impl, model):
                print("replay: impl=%s\n        model=%s" % (im, mo))
                if im != mo:
                    fails.append({"kind": "fi", "key": "replay", "why": "real code and proved model disagree", "line": l, "impl": im, "model": mo})
            evals += len(lines)
    # the two phases are independent (separate random streams, separate scratch files); the
    # end-to-end phase mostly waits for the binary, so the in-process phase runs beside it
    fails_ip, mism_ip, hist_ip = [], [], {}
    with ThreadPoolExecutor(max_workers=1) as ex:
        f_ip = None
        if ctx.replay_cases is None:
            f_ip = ex.submit(inprocess, ctx, binp, rng.fork("inprocess"), n_fi, n_small, fails_ip, mism_ip, hist_ip, n_src)
        n, nt, sm, n_cli = end_to_end(ctx, sc, binp, rng.fork("e2e"), n_e2e, n_shapes, all_checks, non_default, fails, mism, hist)
        lap("end-to-end (in-process phase beside it)")
        if f_ip is not None:
            n2, nt2, sm2 = f_ip.result()
            lap("rest of in-process")
            evals += n2
            nontriv += len(nt2)
            samples += sm2
            fails[:0] = fails_ip
            mism[:0] = mism_ip
            hist.update(hist_ip)
    evals += n
    nontriv += len(nt)
    samples += sm

    # violation search: the model and the code disagree, or a proof no longer builds, but the
    # statement held on everything explored so far -> three times as many generated inputs
    # (another stream of the same seed) through the oracle before saying "no failing input"
    if not fails and (mism or not lean_ok) and ctx.replay_cases is None:
        n, nt, sm = inprocess(ctx, binp, rng.fork("search"), 3 * n_fi, 3 * n_small, fails, [], {}, 3 * n_src)
        evals += n
        ctx.notes.append("violation search run: %d further in-process inputs through the oracle, %d failing" % (n, len(fails)))
        lap("violation search")

    ctx.coverage.update({
        "evaluations": evals,
        "distinct_nontrivial": nontriv,
        "rule": "in-process: distinct input lines whose real result has an ignored diagnostic, an added directive problem, a "
                "matching glob, a parsed directive or a matching directive; end-to-end: distinct (file, line, directive text, "
                "-checks) placements whose directive is malformed, suppresses something or is a well-formed useless directive",
        "histogram": dict(sorted(hist.items())),
        "samples": samples[:10],
        "cli_cases": n_cli,
        "phase_wall_s": phases,
        "cli_runs": hist.get("e2e:binary-runs", 0),
        "configs": CONFIGS,
    })
    ctx.assumptions += [
        "path/filepath.Match is modelled declaratively (terms *, ?, character classes, escapes; malformed pattern = no match; names without separators); compared with the real function on generated inputs, not verified against its loops",
        "strings.ToLower / strings.Split are modelled on ASCII; compared on generated inputs",
        "go/ast.NewCommentMap is transliterated (Attach.lean) and compared, through lint.ParseDirectives, on the syntax facts of generated files; go/parser, go/scanner (//line) and go/token supply those facts and are trusted; the harness re-implements go/ast.nodeList (ast.Inspect order without comments)",
        "hypothesis of display_same_line (positions on one raw line share adjusted file and line) is probed on the facts of every generated file; /*line*/ forms and cgo are not generated",
        "which code line a comment is attached to is fixed by construction only for: own-line groups directly above code, comments trailing a one-line statement/declaration (not the last declaration of the file), detached comments, comments before the package clause; other placements (end of file, trailing a brace, groups containing a //line comment) are compared with the model only",
        "the U1000 graph itself is outside the model (only its ignore rule u1000Ignores is modelled); U1000 problems other than the named one may disappear, as the statement allows",
        "sorting/deduplication in printDiagnostics is outside C10 (reports are compared as sorted lists)",
        "-checks selection (filterAnalyzerNames) is C11's subject: only the forms all / -NAME / NAME are used to compute the allowed set",
    ]

    known = vlib.load_known_findings("C10")
    by_key = {}
    for f in fails:
        by_key.setdefault(f["key"], []).append(f)
    for key, fs in sorted(by_key.items()):
        fs.sort(key=lambda f: len(json.dumps(f, default=str)))
        obj = {
            "what": KEY_TEXT.get(key, "the real code violates the statement of C10 on this input (class %s)" % key),
            "how_to_replay": HOWTO.get(fs[0]["kind"], ""),
            "count": len(fs), "first": fs[0], "cases": fs[:20],
        }
        if key in known:
            ctx.write_replay("known_%s.json" % key, obj)
            ctx.known_finding("key=%s %s (%d inputs this run)" % (key, known[key], len(fs)))
        else:
            ctx.violation("%s.json" % key, obj, text="C10 [%s]: %d failing inputs, smallest: %s" % (key, len(fs), fs[0]["why"][:600]))
    if not [k for k in by_key if k not in known] and (mism or not lean_ok):
        ctx.violation("correspondence.json", {
            "what": "the Lean model and the real code disagree (or a proof no longer builds) although the statement of C10 held on every explored input",
            "lean": lean_broke, "count": len(mism), "cases": mism[:30],
            "correspondence": "streams fi/sup/pd/glob/lower of c10filter vs c10driver; theorems " + ", ".join(THEOREMS),
        }, nofail=True)
    return vlib.finish(ctx, "proof")


META = {
    "level": "proof",
    "technique": "Lean 4 theorems over a transliterated model of analysis/lint.parseDirective and ParseDirectives, go/ast.NewCommentMap "
                 "as ParseDirectives uses it, report.DisplayPosition, runner.serializeDirective, lintcmd.parseDirectives, "
                 "lineIgnore/fileIgnore.match, filterIgnored (incl. couldHaveMatched), success and the `ignores` loop of "
                 "unused.(*graph).entry; executable correspondence in-process (verif hooks lintcmd/verif_c10.go and "
                 "lintcmd/runner/verif_c10.go; unused.Graph without hook) and end-to-end metamorphic runs of the real staticcheck binary",
    "text": "Proved for all diagnostic lists, directive lists and check selections over the model: filterIgnored_eq, ignored_iff (a "
            "problem is ignored iff a well-formed directive in its file, on its line unless file-wide, names its check by a "
            "case-folded glob), others_unchanged, insert_directive / insert_directive_added, no_reason_is_error, u1000_no_reason, "
            "useless_reported_iff, couldHaveMatched_perm, u1000_marked_iff, parseDirectiveText_fields. Proved for all comment maps / "
            "node lists / comment groups: mem_parseCM_iff, directive_at_any_index, parseCM_regroup, parseCM_inert (every `//lint:` line "
            "of every comment group is exactly one directive whatever its index; how lines are grouped is irrelevant; other comments "
            "are inert), commentMap_groups (every group is associated once), commentMap_above (a group on its own lines directly above "
            "a node is associated with that node, proved over the whole NewCommentMap loop), assocOf_above/_trailing/_detached and "
            "popStack_outermost (the decision for the other placements), display_same_line and mem_pipeline_iff (problems and directive "
            "nodes go through the same DisplayPosition), above_directive_suppresses and suppressed_only_by_attached (a line directive "
            "suppresses exactly the problems printed on the line of the code it is attached to, in plain and //line-remapped files). "
            "The model is tied to the current /repo on every run: 30k generated (directives, diagnostics, enabled checks) triples "
            "through the real success/filterIgnored/parseDirectives, directive lists through the real unused.Graph, 4k globs "
            "(classes, escapes, malformed) through filepath.Match, 1.5k generated source files with comment groups at every position "
            "and //line directives through the real lint.ParseDirectives + runner.serializeDirective against the model fed with the "
            "syntax facts of the same parse, all also judged by an independent Python transcription of the statement; and end-to-end by "
            "placing one directive per copy of a fixed two-file package in 11 shapes (own line, first/middle/last line of a comment "
            "group, end of a doc comment, trailing, detached, inside a block comment, before the package clause, after the last "
            "declaration) x 6 //line variants x 5 -checks selections and comparing the real binary's reports with and without "
            "-show-ignored with the prediction from the directive-free report. Explored, not proved: loop-level attachment of trailing "
            "and detached comments (decision-level theorems only), the U1000 graph beyond its ignore rule, the analyzers that produce "
            "the problems, go/scanner's reading of //line comments, sorting/deduplication of the output.",
    "note": "Trusted: Lean kernel (axioms propext/Classical.choice/Quot.sound), compiled c10driver, harness/cmd/c10filter (incl. its "
            "copy of go/ast.nodeList), the two verif hooks (wrappers only), the Python oracle in checks/c10.py, go/parser, go/scanner, "
            "go/token; filepath.Match and strings.ToLower/Split on ASCII are modelled declaratively and compared on generated inputs. "
            "Three defects found and fixed in /repo (findings.d/C10.txt): U1000 order dependence of the useless-directive report, U1000 "
            "directives without a reason still honoured, U1000 names matched exactly instead of as case-folded globs. Seeded changes "
            "C10-1-1/2/3 are reported with concrete failing packages.",
    "design_ref": "DESIGN.md section 5, C10; section 6 row 8",
}
