"""C10 — ignore directives suppress exactly what they name, nothing else.

Lean: Verif/C10/{Model,Theorems}.lean (parseDirective, parseDirectives, line/file ignore
matching, filterIgnored incl. couldHaveMatched, success, the `ignores` loop of the U1000 graph).

Ties (X), all against the current /repo tree:
 (a) in-process: generated (directives, diagnostics, allowed-checks) triples through the real
     lintcmd.success/filterIgnored/parseDirectives (verif hook lintcmd/verif_c10.go), generated
     directive lists through the real unused.Graph on a synthetic package (op u1k, no hook), the
     real lint.ParseDirectives, filepath.Match and strings.ToLower, compared with the Lean model;
 (b) end-to-end metamorphic: the real `staticcheck` binary on renamed copies of a fixed two-file
     package (corpus/C10/pkg; class Copies) with one directive inserted above a
     statement/declaration line of each copy, with and without -show-ignored, under several
     -checks selections; the report is compared with the prediction computed from the
     directive-free report (by the Lean model and by the oracle).  Disagreements are re-run as a
     package of their own before they are reported.

Oracle: the property statement itself, evaluated in Python (`Spec`) on the real outputs,
written independently of the Lean model (its own glob matcher, its own splitting).
DEVIATIONS only *label* a failure (which of the three defect classes repaired in /repo it
looks like, findings.d/C10.txt); they never excuse one.
"""
import fnmatch
import json
import os
import re
import shutil
from concurrent.futures import ThreadPoolExecutor

import vlib

MODULES = ["Verif.C10.Theorems"]
THEOREMS = [
    "Verif.C10.ignored_iff",
    "Verif.C10.others_unchanged",
    "Verif.C10.insert_directive",
    "Verif.C10.insert_directive_added",
    "Verif.C10.no_reason_is_error",
    "Verif.C10.useless_reported_iff",
    "Verif.C10.added_eq",
    "Verif.C10.kept_length",
    "Verif.C10.filterIgnored_eq",
    "Verif.C10.couldHaveMatched_iff",
    "Verif.C10.couldHaveMatched_perm",
    "Verif.C10.success_spec",
    "Verif.C10.u1000_ignores_iff",
    "Verif.C10.u1000_used_iff",
    "Verif.C10.u1000_marked_iff",
    "Verif.C10.u1000_no_reason",
    "Verif.C10.parseDirectiveText_fields",
    "Verif.C10.glob_star",
    "Verif.C10.glob_literal",
]

MALFORMED = "malformed linter directive; missing the required reason field?"
USELESS = "this linter directive didn't match anything; should it be removed?"
PKG = os.path.join(vlib.VERIF, "corpus", "C10", "pkg")

hexs = vlib.hexs


# --------------------------------------------------------------------------- the oracle
class Dir:
    """a serialized directive"""
    def __init__(self, cmd, args, dpos, npos):
        self.cmd, self.args, self.dpos, self.npos = cmd, list(args), tuple(dpos), tuple(npos)

    def enc(self):
        return "%s %d %s %s %d %d %s %d %d" % (
            hexs(self.cmd), len(self.args), " ".join(hexs(a) for a in self.args),
            hexs(self.dpos[0]), self.dpos[1], self.dpos[2], hexs(self.npos[0]), self.npos[1], self.npos[2])

    def obj(self):
        return {"command": self.cmd, "arguments": self.args, "directive_pos": list(self.dpos), "node_pos": list(self.npos)}


def enc_dir(d):
    return " ".join(d.enc().split())


def pyglob(pat, name):
    # patterns are restricted to letters/digits/*/? (never brackets or escapes)
    return fnmatch.fnmatchcase(name, pat)


DEVIATIONS = ("useless-u1000-order", "u1000-no-reason", "u1000-name-match")


class Spec:
    """The statement of C10, clause by clause.  `dev` names deviations (defect classes seen
    in the real code) and is empty for the property itself; a failure of the oracle is
    attributed to a class iff the statement plus that deviation reproduces the real output."""
    @staticmethod
    def wf(d):
        return d.cmd in ("ignore", "file-ignore") and len(d.args) >= 2

    @staticmethod
    def malformed(d):
        return d.cmd in ("ignore", "file-ignore") and len(d.args) < 2

    @staticmethod
    def names(d):
        return [x.lower() for x in d.args[0].split(",")] if d.args else []

    @staticmethod
    def suppresses(d, file, line, cat):
        return (Spec.wf(d) and file == d.npos[0] and (d.cmd == "file-ignore" or line == d.npos[1])
                and any(pyglob(c, cat.lower()) for c in Spec.names(d)))

    @staticmethod
    def u1000_active(d, dev=()):
        """does the directive ask the U1000 graph to ignore something"""
        if "u1000-no-reason" in dev:
            ok = d.cmd in ("ignore", "file-ignore") and len(d.args) >= 1
        else:
            ok = Spec.wf(d)
        if not ok:
            return False
        if "u1000-name-match" in dev:
            return "U1000" in d.args[0].split(",")
        return any(pyglob(c, "u1000") for c in Spec.names(d))

    @staticmethod
    def u1000_suppresses(d, file, line, dev=()):
        return Spec.u1000_active(d, dev) and file == d.npos[0] and (d.cmd == "file-ignore" or line == d.npos[1])

    @staticmethod
    def could_have_matched(d, allowed, dev=()):
        if "useless-u1000-order" in dev:
            for c in Spec.names(d):
                if c == "u1000":
                    return False
                if c in allowed:
                    return True
            return False
        return any(c != "u1000" and c in allowed for c in Spec.names(d))

    @staticmethod
    def useless(d, diags, allowed, dev=()):
        return (d.cmd == "ignore" and Spec.wf(d)
                and not any(Spec.suppresses(d, g[0], g[1], g[3]) for g in diags)
                and Spec.could_have_matched(d, allowed, dev))

    @staticmethod
    def filter(use_success, allowed, diags, dirs, dev=()):
        """diags: (file, line, col, cat, msg). Returns (kept, added); entries
        (file, line, col, cat, msg, sev)."""
        ds = [g for g in diags if (not use_success) or g[3].lower() in allowed]
        kept = []
        for g in ds:
            ign = any(Spec.suppresses(d, g[0], g[1], g[3]) for d in dirs)
            kept.append(tuple(g) + ("i" if ign else "e",))
        added = []
        for d in dirs:
            if Spec.malformed(d):
                added.append((d.npos[0], d.npos[1], d.npos[2], "compile", MALFORMED, "e"))
        for d in dirs:
            if Spec.useless(d, ds, allowed, dev):
                added.append((d.dpos[0], d.dpos[1], d.dpos[2], "staticcheck", USELESS, "e"))
        return kept, added


def enc_diag(g, sev="e"):
    return "%s %d %d %s %s %s" % (hexs(g[0]), g[1], g[2], hexs(g[3]), hexs(g[4]), sev)


def dec_hex(t):
    return "" if t == "-" else bytes.fromhex(t).decode()


def dec_diags(line):
    """`<n> (<file> <line> <col> <cat> <msg> <sev>)*` -> list of tuples, or None."""
    t = line.split()
    try:
        n = int(t[0])
        if len(t) != 1 + 6 * n:
            return None
        out = []
        for i in range(n):
            f, l, c, cat, msg, sev = t[1 + 6 * i: 7 + 6 * i]
            out.append((dec_hex(f), int(l), int(c), dec_hex(cat), dec_hex(msg), sev))
        return out
    except (ValueError, IndexError):
        return None


def fi_line(use_success, allowed, diags, dirs):
    parts = ["fi", "1" if use_success else "0", str(len(allowed))] + [hexs(a) for a in allowed]
    parts.append(str(len(diags)))
    parts += [enc_diag(g) for g in diags]
    parts.append(str(len(dirs)))
    parts += [enc_dir(d) for d in dirs]
    return " ".join(parts)


# --------------------------------------------------------------------------- generators
POOL = ["SA4000", "SA4006", "SA4010", "S1002", "S1008", "ST1003", "SA1000", "U1000"]
LETTERS = "abcdefghijklmnopqrstuvwxyzABCDEFGHIJKLMNOPQRSTUVWXYZ0123456789"


def case_variant(rng, s):
    k = rng.below(4)
    if k == 0:
        return s.lower()
    if k == 1:
        return s.upper()
    if k == 2:
        return "".join(c.lower() if rng.chance(1, 2) else c.upper() for c in s)
    return s


def glob_of(rng, s):
    """a glob over letters/digits/*/? derived from the check id s (may or may not match it)"""
    k = rng.below(8)
    if k == 0:
        return "*"
    if k == 1:
        i = rng.below(len(s) + 1)
        return s[:i] + "*"
    if k == 2:
        i = rng.below(len(s) + 1)
        return "*" + s[i:]
    if k == 3:
        i = rng.below(len(s))
        return s[:i] + "?" + s[i + 1:]
    if k == 4:
        i = rng.below(len(s))
        j = i + rng.below(len(s) - i + 1)
        return s[:i] + "*" + s[j:]
    if k == 5:
        return "?" * len(s)
    if k == 6:
        i = rng.below(len(s))
        return s[:i] + "*" + "?" + s[i + 1:]
    return s[:2] + "*" + s[-1:] + ("*" if rng.chance(1, 2) else "")


def gen_name(rng, on_line, elsewhere, disabled):
    """one entry of a check list; returns (text, class)"""
    k = rng.below(16)
    if k < 3 and on_line:
        return rng.choice(on_line), "exact"
    if k < 5 and on_line:
        return glob_of(rng, rng.choice(on_line)), "glob"
    if k < 7 and on_line:
        return case_variant(rng, rng.choice(on_line)), "case"
    if k < 9:
        return rng.choice(elsewhere or POOL), "other"
    if k < 11:
        return rng.choice(["U1000", "U1000", "u1000", "U1*", "U100?"]), "u1000"
    if k < 13:
        return rng.choice(disabled or ["ST1003"]), "disabled"
    if k == 13:
        return glob_of(rng, rng.choice(elsewhere or POOL)), "glob-other"
    if k == 14:
        return rng.choice(["XX9999", "", "SA", "4000", "SA40000"]), "nonsense"
    return case_variant(rng, glob_of(rng, rng.choice(on_line or POOL))), "glob-case"


def gen_checklist(rng, on_line, elsewhere, disabled):
    n = 1 + (rng.below(3) if rng.chance(1, 2) else 0)
    names, classes = [], []
    for _ in range(n):
        t, c = gen_name(rng, on_line, elsewhere, disabled)
        names.append(t)
        classes.append(c)
    return ",".join(names), classes


def gen_cmd(rng):
    k = rng.below(20)
    if k < 11:
        return "ignore"
    if k < 17:
        return "file-ignore"
    return rng.choice(["ignored", "", "Ignore", "file_ignore", "nolint", "IGNORE"])


def gen_reason(rng):
    k = rng.below(8)
    if k < 2:
        return []
    if k < 5:
        return ["reason"]
    if k == 5:
        return ["", "x"]
    if k == 6:
        return [""]
    return ["a", "longer", "reason"]


def gen_triple(rng):
    files = ["a.go", "b.go", "/x/a.go"][: 1 + rng.below(3)]
    nlines = 1 + rng.below(5)
    cats = [rng.choice(POOL) for _ in range(1 + rng.below(4))]
    diags = []
    for _ in range(rng.below(7)):
        cat = rng.choice(cats)
        if rng.chance(1, 6):
            cat = case_variant(rng, cat)
        diags.append((rng.choice(files), 1 + rng.below(nlines), 1 + rng.below(3), cat, "m%d" % rng.below(3)))
    lower_pool = [c.lower() for c in POOL]
    allowed = [c for c in lower_pool if rng.chance(2, 3)]
    if rng.chance(1, 10):
        allowed = []
    disabled = [c.upper() for c in lower_pool if c not in allowed]
    dirs = []
    for _ in range(rng.below(5)):
        f = rng.choice(files)
        nl = 1 + rng.below(nlines)
        on_line = [g[3] for g in diags if g[0] == f and g[1] == nl]
        lst, _ = gen_checklist(rng, on_line, cats, disabled)
        args = [lst] + gen_reason(rng)
        if rng.chance(1, 12):
            args = []
        dirs.append(Dir(gen_cmd(rng), args, (f, max(nl - 1, 0) if rng.chance(3, 4) else nl, 1 + rng.below(3)), (f, nl, 1 + rng.below(3))))
    return rng.chance(1, 2), allowed, diags, dirs


def gen_comment(rng):
    k = rng.below(10)
    lst, _ = gen_checklist(rng, ["SA4000"], POOL, ["ST1003"])
    if k < 6:
        sep = " " if rng.chance(5, 6) else "  "
        return "//lint:" + gen_cmd(rng) + sep + lst + "".join(" " + w for w in gen_reason(rng))
    if k == 6:
        return "//lint:" + rng.choice(["", "ignore", "file-ignore", " ignore X y", "ignore ", "ignore  "])
    if k == 7:
        return rng.choice(["// lint:ignore X y", "//lint ignore X y", "//LINT:ignore X y", "//nolint:foo", "//lint", "//", "//lint:ignore\tX y"])
    return "//lint:" + gen_cmd(rng) + " " + lst + " " + "".join(rng.choice(LETTERS + "  ,") for _ in range(rng.below(12)))


U_NAMES = ["U1000", "U1000", "u1000", "U1*", "U100?", "*", "SA4000", "u10*0", "U1000x", "U100", "?1000", "U*0", "", "S1002", "sa4*"]


def gen_u1k(rng):
    """directives over the synthetic package of the `u1k` op: files f<i>.go, one declaration
    on each of the lines 3 … nlines+2"""
    nfiles = 1 + rng.below(2)
    nlines = 2 + rng.below(5)
    dirs = []
    for _ in range(rng.below(5)):
        f = "f%d.go" % rng.below(nfiles)
        nl = 3 + rng.below(nlines)
        names = [case_variant(rng, rng.choice(U_NAMES)) if rng.chance(1, 3) else rng.choice(U_NAMES) for _ in range(1 + rng.below(3))]
        args = [",".join(names)] + gen_reason(rng)
        if rng.chance(1, 15):
            args = []
        dirs.append(Dir(gen_cmd(rng), args, (f, nl - 1, 1), (f, nl, 1)))
    return nfiles, nlines, dirs


def u1k_line(nfiles, nlines, dirs):
    return " ".join(["u1k", str(nfiles), str(nlines), str(len(dirs))] + [enc_dir(d) for d in dirs])


def u1k_expected(nfiles, nlines, dirs, dev=()):
    out = []
    for f in range(nfiles):
        for l in range(3, nlines + 3):
            if any(Spec.u1000_suppresses(d, "f%d.go" % f, l, dev) for d in dirs):
                out.append(("f%d.go" % f, l))
    return out


def dec_marked(line):
    t = line.split()
    try:
        n = int(t[0])
        if len(t) != 1 + 2 * n:
            return None
        return [(dec_hex(t[1 + 2 * i]), int(t[2 + 2 * i])) for i in range(n)]
    except (ValueError, IndexError):
        return None


def model_run(ctx, lines):
    """Outputs of the compiled Lean model, or None when the Lean side is broken and the driver
    cannot be used (the oracle is then evaluated without the model: violation search)."""
    if not lines:
        return []
    try:
        return vlib.run_model(ctx, "C10", lines)
    except (vlib.HarnessError, OSError):
        if ctx.lean_ok:
            raise
        return None


# --------------------------------------------------------------------------- in-process phase
def run_impl(ctx, binp, lines):
    rc, so, se = vlib.run([binp], input="".join(l + "\n" for l in lines), env=vlib.go_env(), timeout=1800)
    if rc != 0:
        raise vlib.HarnessError("c10filter exited %d: %s" % (rc, se[-2000:]))
    out = so.split("\n")
    if out and out[-1] == "":
        out.pop()
    if len(out) != len(lines):
        raise vlib.HarnessError("c10filter: %d outputs for %d inputs" % (len(out), len(lines)))
    return out


def classify_fi(allowed, diags, dirs, got, use_success):
    """Oracle on one real filterIgnored output. Returns None if the property holds, else
    (key, description)."""
    kept, added = Spec.filter(use_success, allowed, diags, dirs)
    if got is None:
        return ("fi-output", "unparseable output")
    gk, ga = got[:len(kept)], got[len(kept):]
    if len(got) >= len(kept) and gk == kept and sorted(ga) == sorted(added):
        return None
    for dev in DEVIATIONS[:1]:
        k2, a2 = Spec.filter(use_success, allowed, diags, dirs, dev=(dev,))
        if gk == k2 and sorted(ga) == sorted(a2):
            return (dev, "%s: expected added problems %r, got %r" % (KEY_TEXT[dev], sorted(added), sorted(ga)))
    if len(got) < len(kept) or gk != kept:
        return ("suppression", "incoming diagnostics changed otherwise than the directives say: expected %r, got %r" % (kept, gk))
    return ("added", "added problems wrong: expected %r, got %r" % (sorted(added), sorted(ga)))


def inprocess(ctx, binp, rng, n_fi, n_small, fails, mism, hist):
    lines, meta = [], []
    # corpus: fixed regression inputs
    a = ("a.go", 5, 2, "SA4000", "m")
    corpus = [
        (False, ["sa4000", "sa4006"], [("a.go", 9, 2, "SA4000", "m")], [Dir("ignore", ["U1000,SA4006", "r"], ("a.go", 4, 2), ("a.go", 5, 2))]),
        (False, ["sa4000", "sa4006"], [("a.go", 9, 2, "SA4000", "m")], [Dir("ignore", ["SA4006,U1000", "r"], ("a.go", 4, 2), ("a.go", 5, 2))]),
        (False, ["sa4000", "sa4006", "u1000"], [a], [Dir("ignore", ["u1000,ST1003,Sa4006", "r"], ("a.go", 4, 2), ("a.go", 9, 2))]),
        (True, ["sa4000"], [a, ("b.go", 5, 2, "SA4000", "m"), ("a.go", 5, 9, "S1002", "m")], [Dir("ignore", ["SA4000", "why"], ("a.go", 4, 2), ("a.go", 5, 2))]),
        (False, ["sa4000"], [a], [Dir("ignore", ["SA4000"], ("a.go", 4, 2), ("a.go", 5, 2))]),
        (False, ["sa4000"], [a], [Dir("file-ignore", ["sa4*", "why"], ("a.go", 1, 1), ("a.go", 2, 1))]),
        (False, ["sa4000"], [a], [Dir("ignore", ["ST1003", "why"], ("a.go", 4, 2), ("a.go", 5, 2))]),
        (False, ["sa4000", "s1002"], [a], [Dir("ignore", ["S1002", "why"], ("a.go", 4, 2), ("a.go", 5, 2)),
                                            Dir("ignore", ["SA4000", "why"], ("a.go", 4, 2), ("a.go", 5, 2))]),
        (False, ["sa4000"], [a], [Dir("ignore", [], ("a.go", 4, 2), ("a.go", 5, 2)), Dir("nolint", ["SA4000", "x"], ("a.go", 4, 2), ("a.go", 5, 2))]),
    ]
    for c in corpus:
        lines.append(fi_line(*c))
        meta.append(("fi", c))
    for _ in range(n_fi):
        c = gen_triple(rng)
        lines.append(fi_line(*c))
        meta.append(("fi", c))
    # small ties: glob / lower / pd / sup
    for pat, name in [("sa4*", "sa4000"), ("s?4000", "sa4000"), ("*", ""), ("", ""), ("*0", "sa4000"), ("*1", "sa4000"), ("**", "x"), ("?", ""), ("a*b*c", "aXbYbZc")]:
        lines.append("glob %s %s" % (hexs(pat), hexs(name)))
        meta.append(("glob", (pat, name)))
    for _ in range(n_small):
        base = rng.choice(POOL).lower()
        pat = case_variant(rng, glob_of(rng, base)).lower() if rng.chance(3, 4) else "".join(rng.choice("sa401*?") for _ in range(rng.below(7)))
        name = base if rng.chance(2, 3) else "".join(rng.choice("sa4010") for _ in range(rng.below(7)))
        lines.append("glob %s %s" % (hexs(pat), hexs(name)))
        meta.append(("glob", (pat, name)))
    for _ in range(n_small // 4):
        s = "".join(rng.choice(LETTERS + "*?,_-") for _ in range(rng.below(9)))
        lines.append("lower " + hexs(s))
        meta.append(("lower", s))
    for t in ["//lint:ignore SA4000 reason", "//lint:ignore SA4000", "//lint:", "//lint:ignore  SA4000 r", "// lint:ignore X y", "//lint:file-ignore U1000 generated code"]:
        lines.append("pd " + hexs(t))
        meta.append(("pd", t))
    for _ in range(n_small // 2):
        t = gen_comment(rng)
        lines.append("pd " + hexs(t))
        meta.append(("pd", t))
    for _ in range(n_small // 2):
        _, allowed, diags, dirs = gen_triple(rng)
        if not dirs or not diags:
            continue
        d, g = rng.choice(dirs), rng.choice(diags)
        if g[3].lower() == "u1000":
            continue
        lines.append("sup %s %s %d %s" % (enc_dir(d), hexs(g[0]), g[1], hexs(g[3])))
        meta.append(("sup", (d, g)))

    # the ignores map of the U1000 graph (unused.Graph on a synthetic package)
    u_corpus = [
        (2, 4, [Dir("ignore", ["U1000", "r"], ("f0.go", 3, 1), ("f0.go", 4, 1))]),
        (2, 4, [Dir("ignore", ["U1000"], ("f0.go", 3, 1), ("f0.go", 4, 1))]),
        (2, 4, [Dir("file-ignore", ["U1000"], ("f0.go", 2, 1), ("f0.go", 3, 1))]),
        (2, 4, [Dir("ignore", ["u1000", "r"], ("f0.go", 3, 1), ("f0.go", 4, 1))]),
        (2, 4, [Dir("ignore", ["SA4000,U1*", "r"], ("f1.go", 4, 1), ("f1.go", 5, 1))]),
        (2, 4, [Dir("file-ignore", ["*", "r"], ("f1.go", 2, 1), ("f1.go", 3, 1))]),
        (2, 4, [Dir("file-ignore", ["U1000", "generated"], ("f0.go", 2, 1), ("f0.go", 3, 1)), Dir("ignore", ["U1000", "r"], ("f1.go", 5, 1), ("f1.go", 6, 1))]),
        (1, 3, [Dir("Ignore", ["U1000", "r"], ("f0.go", 3, 1), ("f0.go", 4, 1)), Dir("ignore", ["U1000x,SA4000", "r"], ("f0.go", 4, 1), ("f0.go", 5, 1))]),
    ]
    for c in u_corpus:
        lines.append(u1k_line(*c))
        meta.append(("u1k", c))
    for _ in range(n_small // 2):
        c = gen_u1k(rng)
        lines.append(u1k_line(*c))
        meta.append(("u1k", c))

    impl = run_impl(ctx, binp, lines)
    model = model_run(ctx, lines)
    if model is None:
        model = impl
    nontrivial = set()
    for (kind, c), line, im, mo in zip(meta, lines, impl, model):
        if mo == "bad-op" or im == "bad-op":
            raise vlib.HarnessError("line rejected (model=%s impl=%s): %s" % (mo, im, line[:300]))
        hist[kind] = hist.get(kind, 0) + 1
        if kind == "fi":
            use_success, allowed, diags, dirs = c
            got = dec_diags(im)
            bad = classify_fi(allowed, diags, dirs, got, use_success)
            kept, added = Spec.filter(use_success, allowed, diags, dirs)
            if any(x[5] == "i" for x in kept):
                hist["fi:some-ignored"] = hist.get("fi:some-ignored", 0) + 1
            if any(x[3] == "staticcheck" for x in added):
                hist["fi:useless-reported"] = hist.get("fi:useless-reported", 0) + 1
            if any(x[3] == "compile" for x in added):
                hist["fi:malformed"] = hist.get("fi:malformed", 0) + 1
            if any(x[5] == "i" for x in kept) or added:
                nontrivial.add(line)
            if bad:
                fails.append({"kind": "fi", "key": bad[0], "why": bad[1], "line": line, "impl": im, "model": mo,
                              "input": {"use_success": use_success, "allowed": allowed, "diagnostics": [list(g) for g in diags],
                                        "directives": [d.obj() for d in dirs]}})
            elif im != mo:
                mism.append({"kind": "fi", "line": line, "impl": im, "model": mo})
        elif kind == "glob":
            exp = "1" if pyglob(c[0], c[1]) else "0"
            if im == "1":
                nontrivial.add(line)
            if im != exp or im != mo:
                # filepath.Match is modelled, not part of /repo: a disagreement is a harness/model problem
                mism.append({"kind": "glob", "pattern": c[0], "name": c[1], "impl": im, "model": mo, "python": exp})
        elif kind == "lower":
            if im != mo:
                mism.append({"kind": "lower", "s": c, "impl": im, "model": mo})
        elif kind == "pd":
            if im != "none":
                nontrivial.add(line)
            if im != mo:
                mism.append({"kind": "pd", "text": c, "impl": im, "model": mo})
        elif kind == "u1k":
            nfiles, nlines, dirs = c
            got = dec_marked(im)
            exp = u1k_expected(nfiles, nlines, dirs)
            if exp:
                nontrivial.add(line)
                hist["u1k:some-marked"] = hist.get("u1k:some-marked", 0) + 1
            if got != exp:
                key = "u1000-graph"
                for dev in DEVIATIONS[1:]:
                    if got == u1k_expected(nfiles, nlines, dirs, (dev,)):
                        key = dev
                if key == "u1000-graph" and got == u1k_expected(nfiles, nlines, dirs, DEVIATIONS[1:]):
                    key = "+".join(DEVIATIONS[1:])
                fails.append({"kind": "u1k", "key": key, "line": line, "impl": im, "model": mo,
                              "why": "declarations the U1000 graph counts as used because of the directives: expected %r, got %r (%s)" % (exp, got, im if got is None else ""),
                              "input": {"files": nfiles, "lines": nlines, "directives": [d.obj() for d in dirs]}})
            elif im != mo:
                mism.append({"kind": "u1k", "line": line, "impl": im, "model": mo})
        elif kind == "sup":
            d, g = c
            exp = "1" if Spec.suppresses(d, g[0], g[1], g[3]) else "0"
            if im == "1":
                nontrivial.add(line)
            if im != exp:
                fails.append({"kind": "sup", "key": "suppression", "why": "directive match differs from the statement: expected %s got %s" % (exp, im),
                              "line": line, "impl": im, "model": mo, "input": {"directive": d.obj(), "diagnostic": list(g)}})
            elif im != mo:
                mism.append({"kind": "sup", "line": line, "impl": im, "model": mo})
    samples = [{"input": lines[i][:400], "impl": impl[i][:300], "model": model[i][:300]} for i in range(0, len(lines), max(1, len(lines) // 5))][:6]
    return len(lines), nontrivial, samples


# --------------------------------------------------------------------------- end-to-end phase
CONFIGS = {
    "default": None,
    "no-sa4000-s1002": "all,-ST1000,-ST1020,-ST1021,-ST1022,-SA4000,-S1002",
    "only-four": "SA4000,SA4006,U1000,ST1003",
    "no-u1000": "all,-ST1000,-ST1020,-ST1021,-ST1022,-U1000",
    "all": "all,-ST1000,-ST1020,-ST1021,-ST1022",
}
# the doc-comment checks ST1000/ST102x are kept off: an inserted directive is itself a new
# comment, which those checks read.  "all" is a superset of every other selection and is the
# one used to calibrate which lines are insensitive to an inserted comment.
CAL = "all"


def allowed_for(cfg, all_checks, non_default):
    """enabled checks (lower case) for the restricted -checks forms used here"""
    if cfg is None:
        return set(c.lower() for c in all_checks if c not in non_default)
    out = set()
    for item in cfg.split(","):
        if item == "all":
            out = set(c.lower() for c in all_checks)
        elif item.startswith("-"):
            out.discard(item[1:].lower())
        else:
            out.add(item.lower())
    return out


def parse_report(stdout, root):
    probs = []
    for line in stdout.splitlines():
        if not line.strip():
            continue
        j = json.loads(line)
        f = j["location"]["file"]
        f = os.path.relpath(f, root) if os.path.isabs(f) else f
        probs.append((f, j["location"]["line"], j["location"]["column"], j["code"], j["message"], j["severity"]))
    return probs


def run_staticcheck_batch(ctx, sc, moddir, pkgs, cfg, show_ignored, cache):
    """One run of the real binary over the packages `pkgs` (directories of the module in
    `moddir`); returns {pkg: [problem]} with file names relative to the package."""
    env = vlib.go_env({"STATICCHECK_CACHE": cache})
    cmd = [sc, "-f", "json"]
    if cfg:
        cmd += ["-checks", cfg]
    if show_ignored:
        cmd.append("-show-ignored")
    cmd += ["./" + p for p in pkgs]
    rc, so, se = vlib.run(cmd, cwd=moddir, env=env, timeout=1500)
    if rc not in (0, 1) or se.strip():
        raise vlib.HarnessError("staticcheck failed in %s (%s, %d packages): rc=%d %s" % (moddir, cfg, len(pkgs), rc, se[-1500:]))
    out = {p: [] for p in pkgs}
    try:
        probs = parse_report(so, os.path.realpath(moddir))
    except ValueError:
        raise vlib.HarnessError("staticcheck output not JSON in %s: %s" % (moddir, so[-800:]))
    for p in probs:
        parts = p[0].split(os.sep)
        if len(parts) != 2 or parts[0] not in out:
            raise vlib.HarnessError("problem outside the requested packages: %r" % (p,))
        out[parts[0]].append((parts[1],) + tuple(p[1:]))
    return out


def target_lines(src_lines):
    """1-based numbers of the statement/declaration lines of the fixed package (every
    non-blank line that is not a closing brace, a comment or the package clause)."""
    out = []
    for i, l in enumerate(src_lines, 1):
        s = l.strip()
        if not s or s.startswith("}") or s.startswith("//") or s.startswith("package "):
            continue
        out.append(i)
    return out


def py_parse_comment(text):
    """the oracle's own reading of analysis/lint.parseDirective"""
    if not text.startswith("//lint:"):
        return None
    f = text[len("//lint:"):].split(" ")
    return f[0], f[1:]


def make_case(fname, line, text, cfgname):
    return {"file": fname, "line": line, "text": text, "config": cfgname}


def e2e_corpus():
    cs = []
    for cfg in ("default",):
        cs += [
            make_case("a.go", 20, "//lint:ignore U1000,SA4006 reason", cfg),
            make_case("a.go", 20, "//lint:ignore SA4006,U1000 reason", cfg),
            make_case("a.go", 20, "//lint:ignore SA4000 reason", cfg),
            make_case("a.go", 20, "//lint:ignore SA4000", cfg),
            make_case("a.go", 20, "//lint:ignore sa4000 wrong case still matches", cfg),
            make_case("a.go", 20, "//lint:ignore SA4* glob", cfg),
            make_case("a.go", 20, "//lint:ignore S1002 other check", cfg),
            make_case("a.go", 20, "//lint:ignore ST1003 disabled check", cfg),
            make_case("a.go", 20, "//lint:ignore ST1003,U1000 disabled and U1000", cfg),
            make_case("a.go", 31, "//lint:ignore SA4006 one of two on the line", cfg),
            make_case("a.go", 46, "//lint:ignore SA4000 two of the same check", cfg),
            make_case("b.go", 21, "//lint:ignore SA4000 same line number as in a.go after the shift", cfg),
            make_case("a.go", 3, "//lint:file-ignore SA4000 whole file", cfg),
            make_case("a.go", 3, "//lint:file-ignore SA4000", cfg),
            make_case("a.go", 7, "//lint:ignore U1000 reason", cfg),
            make_case("a.go", 7, "//lint:ignore U1000", cfg),
            make_case("a.go", 7, "//lint:ignore u1000 wrong case", cfg),
            make_case("a.go", 7, "//lint:ignore U1* glob", cfg),
            make_case("a.go", 7, "//lint:ignore SA4000,U1000 mixture", cfg),
            make_case("a.go", 3, "//lint:file-ignore U1000 generated", cfg),
            make_case("a.go", 3, "//lint:file-ignore U1000", cfg),
            make_case("a.go", 3, "//lint:file-ignore * everything", cfg),
            make_case("a.go", 13, "//lint:ignore U1000,ST1003 reason", "no-sa4000-s1002"),
            make_case("a.go", 20, "//lint:ignore SA4000 disabled here", "no-sa4000-s1002"),
            make_case("a.go", 20, "//lint:ignore SA4000,SA4006 reason", "no-sa4000-s1002"),
            make_case("a.go", 15, "//lint:ignore ST1003 reason", "only-four"),
            make_case("a.go", 23, "//lint:ignore S1002 reason", "only-four"),
            make_case("a.go", 7, "//lint:ignore U1000 reason", "no-u1000"),
            make_case("a.go", 7, "//lint:ignore U1000,SA4000 reason", "no-u1000"),
        ]
    return cs


def e2e_generate(rng, n, sources, base):
    """n cases; names are drawn relative to the problems on the target line."""
    cases = []
    cfgnames = list(CONFIGS)
    tl = {f: target_lines(src) for f, src in sources.items()}
    hot = {}
    for cfgname in cfgnames:
        for f in sources:
            hot[(cfgname, f)] = sorted(set(p[1] for p in base[cfgname]["problems"] if p[0] == f))
    for _ in range(n):
        cfgname = cfgnames[0] if rng.chance(1, 5) else rng.choice(cfgnames)
        f = rng.choice(sorted(sources))
        # two thirds of the placements on lines that carry problems
        if rng.chance(2, 3) and hot[(cfgname, f)]:
            line = rng.choice(hot[(cfgname, f)])
        else:
            line = rng.choice(tl[f])
        probs = base[cfgname]["problems"]
        on_line = sorted(set(p[3] for p in probs if p[0] == f and p[1] == line))
        elsewhere = sorted(set(p[3] for p in probs if not (p[0] == f and p[1] == line)))
        disabled = base[cfgname]["disabled_sample"]
        lst, classes = gen_checklist(rng, on_line, elsewhere, disabled)
        k = rng.below(20)
        cmd = "ignore" if k < 13 else ("file-ignore" if k < 18 else rng.choice(["ignored", "nolint", "Ignore"]))
        reason = gen_reason(rng)
        sep = " " if rng.chance(11, 12) else "  "
        text = "//lint:" + cmd + sep + lst + "".join(" " + w for w in reason)
        c = make_case(f, line, text, cfgname)
        c["classes"] = classes
        cases.append(c)
    return cases


def e2e_predict_inputs(case, sources, base):
    """Common part of oracle and model prediction: the directive record and the shifted
    base problems."""
    f, L = case["file"], case["line"]
    src = sources[f]
    indent = len(src[L - 1]) - len(src[L - 1].lstrip("\t"))
    col = indent + 1
    b = base[case["config"]]
    shifted = []
    for p in b["problems"]:
        if p[0] == f and p[1] >= L:
            p = (p[0], p[1] + 1) + tuple(p[2:])
        shifted.append(p)
    non_u = [p for p in shifted if p[3] != "U1000"]
    u = [p for p in shifted if p[3] == "U1000"]
    return (f, L, col), (f, L + 1, col), non_u, u, b["allowed"]


def e2e_oracle(case, sources, base, dev=()):
    """-> kept, added, must_vanish, may_vanish (bool), u, dirs"""
    dpos, npos, non_u, u, allowed = e2e_predict_inputs(case, sources, base)
    parsed = py_parse_comment(case["text"])
    dirs = [Dir(parsed[0], parsed[1], dpos, npos)] if parsed else []
    kept, added = Spec.filter(False, allowed, [p[:5] for p in non_u], dirs, dev)
    must_vanish = [p for p in u if any(Spec.u1000_suppresses(d, p[0], p[1], dev) for d in dirs)]
    # only a directive that makes the U1000 graph ignore something may change other U1000 problems
    may_vanish = any(Spec.u1000_active(d, dev) for d in dirs)
    return kept, added, must_vanish, may_vanish, u, dirs


def e2e_optional(added, must_vanish):
    """The statement demands the "didn't match anything" problem for a directive that
    suppresses *nothing*.  A line directive that did suppress a U1000 problem (and names
    another enabled check that matched nothing) is outside that clause: the oracle accepts
    the report with or without the problem.  (The code reports it, and so does the model.)"""
    return [a for a in added if a[3] == "staticcheck"] if must_vanish else []


def sev_word(s):
    return {"e": "error", "w": "warning", "i": "ignored"}[s]


def e2e_compare(kept, added, must_vanish, may_vanish, u, real, show_ignored, optional=()):
    """Compare a real report with a prediction. Returns list of discrepancy strings."""
    out = []
    opt = [(a[0], a[1], a[2], a[3], a[4], "error") for a in optional]
    exp = [(k[0], k[1], k[2], k[3], k[4], sev_word(k[5])) for k in kept if show_ignored or k[5] != "i"]
    exp += [(a[0], a[1], a[2], a[3], a[4], "error") for a in added]
    exp = [p for p in exp if p not in opt]
    real_non_u = sorted(p for p in real if p[3] != "U1000" and p not in opt)
    real_u = sorted(p for p in real if p[3] == "U1000")
    exp = sorted(exp)
    if real_non_u != exp:
        missing = [p for p in exp if p not in real_non_u]
        extra = [p for p in real_non_u if p not in exp]
        out.append("non-U1000 problems differ: missing %r, unexpected %r" % (missing, extra))
    pool = list(u)
    for p in real_u:
        if p in pool:
            pool.remove(p)
        else:
            out.append("U1000 problem not in the base report (or with changed severity): %r" % (p,))
    for p in must_vanish:
        if p in real_u:
            out.append("U1000 problem named by the directive still reported: %r" % (p,))
    if not may_vanish and pool:
        out.append("U1000 problems disappeared although no well-formed directive names U1000: %r" % (pool,))
    return out


def e2e_key(case, sources, base, r0, r1):
    """Attribute an oracle failure of the end-to-end phase to a defect class: the smallest
    set of deviations with which the statement reproduces both real reports."""
    import itertools
    for n in (1, 2, 3):
        for dev in itertools.combinations(DEVIATIONS, n):
            kept, added, mv, may, u, dirs = e2e_oracle(case, sources, base, dev)
            opt = e2e_optional(added, mv)
            if not e2e_compare(kept, added, mv, may, u, r0, False, opt) and not e2e_compare(kept, added, mv, may, u, r1, True, opt):
                return "+".join(dev)
    return "e2e"


def insert_line(sources, f, L, text):
    files = {fn: list(src) for fn, src in sources.items()}
    indent = len(files[f][L - 1]) - len(files[f][L - 1].lstrip("\t"))
    files[f].insert(L - 1, "\t" * indent + text)
    return files


CHUNK = 400   # cases per scratch module
COPIES = 20   # cases per package
TOPLEVEL = re.compile(r"^(?:func|var|type|const)\s+(\w+)", re.M)


class Copies:
    """Several placements share one package: copy k of the fixed package is the pair of files
    a_n<k>.go / b_n<k>.go (not a_<k>.go: `_386.go` is a GOARCH file suffix) in which every package-level name N is renamed to N<K><k>; the copies
    do not refer to each other.  A package made of such copies is one more package of the
    property's quantifier, with one directive in each pair of files — and it costs the
    analyzers' fixed per-package work once instead of COPIES times.  Reports are mapped
    back (file a_n<k>.go -> a.go of case k, names unsuffixed) and a directive-free control
    copy in every package must reproduce the base report exactly (else HarnessError: the
    copies are not independent and the batching is invalid)."""
    def __init__(self, sources):
        names = set()
        for src in sources.values():
            names.update(TOPLEVEL.findall("\n".join(src)))
        self.pat = re.compile(r"\b(%s)\b" % "|".join(sorted(names, key=len, reverse=True)))

    def rename(self, src_lines, k):
        return [self.pat.sub(lambda m: m.group(1) + "K%d" % k, l) if not l.lstrip().startswith("//") else l for l in src_lines]

    @staticmethod
    def unname(msg, k):
        return re.sub(r"(?<=\w)K%d\b" % k, "", msg)

    def uncol(self, line_text, k, col):
        """column in the original line of the byte that the renaming moved to column `col`"""
        if line_text.lstrip().startswith("//"):
            return col
        s, shift = len("K%d" % k), 0
        for m in self.pat.finditer(line_text):
            if m.end() + shift + s <= col - 1:
                shift += s
            else:
                break
        return col - shift


def end_to_end(ctx, sc, rng, n_cases, all_checks, non_default, fails, mism, hist):
    """Placements are materialised in scratch modules and the real binary is run over a
    module: once per -checks selection, with and without -show-ignored (the first run
    analyses, the others read the cache).  See class Copies for how placements share
    packages; disagreeing cases are re-run as a package of their own (exactly HOWTO["e2e"])
    before anything is reported."""
    sources = {}
    for fn in ("a.go", "b.go"):
        sources[fn] = open(os.path.join(PKG, fn)).read().split("\n")
    gomod = open(os.path.join(PKG, "go.mod")).read()
    cache = os.path.dirname(ctx.path("e2e", "sccache", "x"))
    counter = [0]
    copies = Copies(sources)

    def new_module():
        counter[0] += 1
        d = ctx.path("e2e", "mod%d" % counter[0], "go.mod")
        open(d, "w").write(gomod)
        return os.path.dirname(d)

    def materialise(moddir, name, files):
        d = os.path.join(moddir, name)
        os.makedirs(d, exist_ok=True)
        for fn, src in files.items():
            open(os.path.join(d, fn), "w").write("\n".join(src))

    groups = {}

    # base report: one run with everything enabled; the report under another selection is its
    # restriction to the enabled checks (verified below, on the same runs that serve the cases)
    names = [CAL] + [n for n in CONFIGS if n != CAL]
    bmod = new_module()
    materialise(bmod, "base", sources)
    base_all = run_staticcheck_batch(ctx, sc, bmod, ["base"], CONFIGS[CAL], False, cache)["base"]
    nruns = [1]
    base = {}
    for cfgname in names:
        allowed = allowed_for(CONFIGS[cfgname], all_checks, non_default)
        probs = [p for p in base_all if p[3].lower() in allowed]
        for p in probs:
            if p[5] != "error":
                raise vlib.HarnessError("base report has unexpected problem %r" % (p,))
        dis = sorted(c for c in all_checks if c.lower() not in allowed)
        base[cfgname] = {"problems": probs, "allowed": allowed,
                         "disabled_sample": [c for c in ("ST1003", "SA4000", "S1002", "S1008", "SA4003", "U1000", "SA1000") if c in dis] or dis[:3]}
    if len(base["default"]["problems"]) < 20:
        raise vlib.HarnessError("fixed package no longer has the expected problems: %r" % base["default"]["problems"])

    if ctx.replay_cases is not None:
        cases = [dict(c["case"]) for c in ctx.replay_cases if c.get("kind") == "e2e"]
    else:
        cases = e2e_corpus() + e2e_generate(rng, n_cases, sources, base)

    def run_cases(idxs, ncopies):
        """-> {i: [report, report with -show-ignored]} for the cases idxs, ncopies per package;
        a package holds cases of one -checks selection and is run under that selection only
        (first without -show-ignored: that run analyses; then with: that one reads the cache)"""
        res = {}
        for lo in range(0, len(idxs), CHUNK):
            chunk = idxs[lo:lo + CHUNK]
            mod = new_module()
            materialise(mod, "base", sources)
            where, texts, plan = {}, {}, []
            for ci, cfgname in enumerate(names):
                mine = [i for i in chunk if cases[i]["config"] == cfgname]
                pkgs = []
                for g in range(0, len(mine), ncopies):
                    name = "s%dg%d" % (ci, g)
                    pkgs.append(name)
                    group = mine[g:g + ncopies]
                    if ncopies == 1:
                        materialise(mod, name, insert_line(sources, cases[group[0]]["file"], cases[group[0]]["line"], cases[group[0]]["text"]))
                        where[group[0]] = (name, None)
                        continue
                    for i in group + [None]:          # None: the directive-free control copy
                        k = i if i is not None else 10 ** 6 + g
                        files = sources if i is None else insert_line(sources, cases[i]["file"], cases[i]["line"], cases[i]["text"])
                        materialise(mod, name, {"%s_n%d.go" % (fn[0], k): copies.rename(src, k) for fn, src in files.items()})
                        where[i if i is not None else ("control", name)] = (name, k)
                        texts[(name, k)] = files
                        if i is not None:
                            groups[i] = group
                if pkgs or lo == 0:
                    plan.append((cfgname, mine, pkgs))

            def both(p):
                cfgname, mine, pkgs = p
                return [run_staticcheck_batch(ctx, sc, mod, ["base"] + pkgs, CONFIGS[cfgname], show, cache) for show in (False, True)]

            # one thread per selection; each run of the binary is itself parallel, but most of
            # these runs are small (a few packages) and dominated by start-up
            with ThreadPoolExecutor(max_workers=5) as ex:
                outs = list(ex.map(both, plan))
            nruns[0] += 2 * len(plan)
            for (cfgname, mine, pkgs), pair in zip(plan, outs):
                for show, out in zip((False, True), pair):
                    expb = sorted(base[cfgname]["problems"])
                    if sorted(out["base"]) != expb:
                        raise vlib.HarnessError("report of the unmodified package under -checks %r%s is not the restriction of the full report to the enabled checks: %r" % (
                            CONFIGS[cfgname], " -show-ignored" if show else "", out["base"]))
                    split = {}
                    for name in pkgs:
                        for p in out[name]:
                            m = re.match(r"([ab])_n(\d+)\.go$", p[0])
                            if ncopies == 1:
                                split.setdefault((name, None), []).append(p)
                            elif m:
                                k = int(m.group(2))
                                fn = m.group(1) + ".go"
                                if (name, k) not in texts or not 1 <= p[1] <= len(texts[(name, k)][fn]):
                                    raise vlib.HarnessError("problem at an unknown place: %r" % (p,))
                                col = copies.uncol(texts[(name, k)][fn][p[1] - 1], k, p[2])
                                split.setdefault((name, k), []).append((fn, p[1], col, p[3], Copies.unname(p[4], k), p[5]))
                            else:
                                raise vlib.HarnessError("problem in an unknown file: %r" % (p,))
                    for i, key in where.items():
                        if key[0] not in pkgs:
                            continue
                        if isinstance(i, tuple):
                            if sorted(split.get(key, [])) != expb:
                                control_bad.append((cfgname, show, [j for j in where if not isinstance(j, tuple) and where[j][0] == key[0]],
                                                    sorted(split.get(key, [])), expb))
                        else:
                            res.setdefault(i, [None, None])[1 if show else 0] = split.get(key, [])
            shutil.rmtree(mod, ignore_errors=True)
        return res

    def control_verdict(cfgname, show, group, got, expb):
        """The directive-free control copy of a package differs from the base report.  Either
        the copies are not independent (harness invalid: HarnessError) — decided by the same
        package with neutral comments in place of the directives — or directives in *other*
        files changed the report of these files: a failing input of the property."""
        mod = new_module()
        k0 = 10 ** 6
        for i in group + [None]:
            k = i if i is not None else k0
            files = sources if i is None else insert_line(sources, cases[i]["file"], cases[i]["line"], "// c10 neutral comment")
            materialise(mod, "n", {"%s_n%d.go" % (fn[0], k): copies.rename(src, k) for fn, src in files.items()})
        out = run_staticcheck_batch(ctx, sc, mod, ["n"], CONFIGS[cfgname], show, cache)["n"]
        nruns[0] += 1
        ctl = []
        for p in out:
            m = re.match(r"([ab])_n(\d+)\.go$", p[0])
            if m and int(m.group(2)) == k0:
                fn = m.group(1) + ".go"
                ctl.append((fn, p[1], copies.uncol(sources[fn][p[1] - 1], k0, p[2]), p[3], Copies.unname(p[4], k0), p[5]))
        shutil.rmtree(mod, ignore_errors=True)
        if sorted(ctl) != expb:
            raise vlib.HarnessError("renamed copies of the fixed package are not independent even without directives: %r vs %r" % (sorted(ctl), expb))
        missing = [p for p in expb if p not in got]
        extra = [p for p in got if p not in expb]
        return {"kind": "e2e", "key": "other-files", "no_calibration": True, "case": cases[group[0]],
                "why": "directives in other files of the package changed the problems of a pair of files that has no directive (%s%s): missing %r, unexpected %r" % (
                    "-checks " + str(CONFIGS[cfgname]), " -show-ignored" if show else "", missing, extra),
                "package_cases": [dict(cases[j], copy=j) for j in group], "control_report": [list(p) for p in got]}

    control_bad = []
    everything = list(range(len(cases)))
    copies_per_pkg = 1 if ctx.replay_cases is not None else int(os.environ.get("VERIF_C10_COPIES", COPIES))
    got = run_cases(everything, copies_per_pkg)
    results = [got[i] for i in everything]

    # A placement qualifies only if an inserted neutral comment there leaves the report
    # unchanged (some analyzers read comments, e.g. S1008).  Checked lazily, for the
    # placements of cases that disagree with the prediction.
    calib = {}

    def calibrate(spots):
        spots = [s for s in spots if s not in calib]
        if not spots:
            return
        mod = new_module()
        for k, (f, L) in enumerate(spots):
            materialise(mod, "k%d" % k, insert_line(sources, f, L, "// c10 neutral comment"))
        out = run_staticcheck_batch(ctx, sc, mod, ["k%d" % k for k in range(len(spots))], CONFIGS[CAL], False, cache)
        nruns[0] += 1
        for k, (f, L) in enumerate(spots):
            exp = sorted((p[0], p[1] + 1 if (p[0] == f and p[1] >= L) else p[1]) + tuple(p[2:]) for p in base[CAL]["problems"])
            calib[(f, L)] = sorted(out["k%d" % k]) == exp
        shutil.rmtree(mod, ignore_errors=True)
        hist["e2e:calibration-packages"] = hist.get("e2e:calibration-packages", 0) + len(spots)

    # model predictions: pd for the text, fi for the non-U1000 part, sup for U1000
    mlines, mslots = [], []
    for case in cases:
        dpos, npos, non_u, u, allowed = e2e_predict_inputs(case, sources, base)
        mlines.append("pd " + hexs(case["text"]))
        mslots.append(("pd", case))
    pd_out = model_run(ctx, mlines)
    have_model = pd_out is not None
    mlines2, idx = [], []
    for case, pdo in zip(cases, pd_out if have_model else [None] * len(cases)):
        dpos, npos, non_u, u, allowed = e2e_predict_inputs(case, sources, base)
        if pdo == "bad-op":
            raise vlib.HarnessError("model rejected pd line for %r" % case)
        dirs = []
        if pdo is None:
            parsed = py_parse_comment(case["text"])
            dirs = [Dir(parsed[0], parsed[1], dpos, npos)] if parsed else []
        elif pdo != "none":
            t = pdo.split()
            n = int(t[1])
            dirs = [Dir(dec_hex(t[0]), [dec_hex(x) for x in t[2:2 + n]], dpos, npos)]
        al = sorted(allowed)
        start = len(mlines2)
        mlines2.append(fi_line(False, al, [p[:5] for p in non_u], dirs))
        if dirs:
            for p in u:
                mlines2.append("sup %s %s %d %s" % (enc_dir(dirs[0]), hexs(p[0]), p[1], hexs("U1000")))
            # does the directive make the U1000 graph ignore anything at all: ask about its own node
            mlines2.append("sup %s %s %d %s" % (enc_dir(dirs[0]), hexs(npos[0]), npos[1], hexs("U1000")))
        idx.append((start, len(mlines2), dirs))
    m_out = model_run(ctx, mlines2) if have_model else None
    have_model = have_model and m_out is not None

    nontrivial = set()
    samples = []

    def judge(i, r0, r1):
        case = cases[i]
        dpos, npos, non_u, u, allowed = e2e_predict_inputs(case, sources, base)
        kept, added, must_vanish, may_vanish, _, dirs = e2e_oracle(case, sources, base)
        optional = e2e_optional(added, must_vanish)
        problems = []
        for show, real in ((False, r0), (True, r1)):
            for msg in e2e_compare(kept, added, must_vanish, may_vanish, u, real, show, optional):
                problems.append(("-show-ignored: " if show else "default: ") + msg)
        # model
        mproblems = []
        if have_model:
            start, end, mdirs = idx[i]
            mo = dec_diags(m_out[start])
            if mo is None:
                raise vlib.HarnessError("model output unparseable: %s" % m_out[start][:200])
            mkept, madded = mo[:len(non_u)], mo[len(non_u):]
            mvanish = [p for p, o in zip(u, m_out[start + 1:end - 1]) if o == "1"] if mdirs else []
            mmay = m_out[end - 1] == "1" if mdirs else False
            for show, real in ((False, r0), (True, r1)):
                mproblems += e2e_compare(mkept, madded, mvanish, mmay, u, real, show)
        cls = "none"
        if dirs and Spec.malformed(dirs[0]):
            cls = "malformed"
        elif any(k[5] == "i" for k in kept) and must_vanish:
            cls = "suppresses-both"
        elif any(k[5] == "i" for k in kept):
            cls = "suppresses"
        elif must_vanish:
            cls = "suppresses-u1000"
        elif any(a[3] == "staticcheck" for a in added):
            cls = "useless-reported"
        elif dirs and Spec.wf(dirs[0]):
            cls = "useless-silent"
        rec = {"kind": "e2e", "case": case, "directive": dirs[0].obj() if dirs else None,
               "report_default": [list(p) for p in r0], "report_show_ignored": [list(p) for p in r1],
               "expected_kept": [list(k) for k in kept], "expected_added": [list(a) for a in added],
               "expected_u1000_gone": [list(p) for p in must_vanish]}
        if problems:
            rec["key"] = e2e_key(case, sources, base, r0, r1)
            rec["why"] = "; ".join(problems)
        elif mproblems:
            rec["model_disagreement"] = mproblems
        return cls, bool(optional), rec

    judged = {}
    for i, (r0, r1) in enumerate(results):
        judged[i] = judge(i, r0, r1)
        cls, optional, rec = judged[i]
        case = cases[i]
        hist["e2e:" + cls] = hist.get("e2e:" + cls, 0) + 1
        hist["e2e:cfg:" + case["config"]] = hist.get("e2e:cfg:" + case["config"], 0) + 1
        if optional:
            hist["e2e:useless-report-optional"] = hist.get("e2e:useless-report-optional", 0) + 1
        if cls != "none":
            nontrivial.add((case["file"], case["line"], case["text"], case["config"]))
        if len(samples) < 5 and i % max(1, len(cases) // 5) == 0:
            samples.append({"case": case, "class": cls, "report_without_show_ignored": [list(p) for p in r0 if p[3] != "U1000"][:6]})

    # every disagreement is re-run as a package of its own before it is reported
    bad = [i for i in everything if "why" in judged[i][2] or "model_disagreement" in judged[i][2]]
    pending_f, pending_m = [], []
    if bad and copies_per_pkg != 1:
        hist["e2e:rerun-single-package"] = len(bad)
        again = run_cases(bad[:60], 1)
        for i in bad:
            if i not in again:
                continue
            rec_batch = judged[i][2]
            rec = judge(i, *again[i])[2]
            if "why" not in rec and "model_disagreement" not in rec and "why" in rec_batch:
                # holds for the package alone, fails among the copies: still a failing input
                rec_batch["key"] = "multi-file-package"
                rec_batch["why"] = "only in the package of up to %d renamed copies (class Copies; VERIF_SEED=%d, tier %s): %s" % (
                    copies_per_pkg, ctx.seed, ctx.tier, rec_batch["why"])
                rec_batch["package_cases"] = [dict(cases[j], copy=j) for j in groups.get(i, [])]
                pending_f.append(rec_batch)
            else:
                judged[i] = (judged[i][0], judged[i][1], rec)
    for i in bad:
        rec = judged[i][2]
        if rec.get("key") == "multi-file-package":
            continue
        if "why" in rec:
            pending_f.append(rec)
        elif "model_disagreement" in rec:
            pending_m.append(rec)
    for cb in control_bad[:3]:
        pending_f.append(control_verdict(*cb))
    calibrate(sorted(set((r["case"]["file"], r["case"]["line"]) for r in pending_f + pending_m if not r.get("no_calibration"))))
    sensitive = sorted(sp for sp, ok in calib.items() if not ok)
    if sensitive:
        ctx.notes.append("disagreements discarded at placements where a neutral comment already changes the report: %r" % sensitive)
    fails += [r for r in pending_f if r.get("no_calibration") or calib[(r["case"]["file"], r["case"]["line"])]]
    mism += [r for r in pending_m if calib[(r["case"]["file"], r["case"]["line"])]]
    hist["e2e:binary-runs"] = nruns[0]
    return 2 * len(cases), nontrivial, samples, len(cases)


# --------------------------------------------------------------------------- main
HOWTO = {
    "fi": "echo '<line>' | go run -tags verif ./cmd/c10filter (in /verif/harness) gives the real filterIgnored output; "
          "echo '<line>' | lean/.lake/build/bin/c10driver gives the model's; protocol in lean/Verif/C10/Driver.lean",
    "sup": "as for fi (op sup)",
    "u1k": "as for fi (op u1k): the real unused.Graph on the synthetic package described in harness/cmd/c10filter/main.go (func u1k)",
    "e2e": "copy corpus/C10/pkg, insert case.text (indented like the target) above line case.line of case.file, run "
           "`staticcheck -f json [-checks <CONFIGS[case.config]>] [-show-ignored] ./...` and compare with the run on the unmodified copy",
}

KEY_TEXT = {
    "other-files": "a directive changed problems of files other than its own (package of renamed copies of corpus/C10/pkg, class Copies in checks/c10.py; the copies are listed in package_cases)",
    "multi-file-package": "the statement fails for a placement only when the package holds further renamed copies of the two files with directives of their own (class Copies in checks/c10.py)",
    "useless-u1000-order": "whether a useless line directive is reported depends on where U1000 stands in its check list",
    "u1000-no-reason": "a U1000 directive without a reason is reported as malformed but still suppresses U1000 problems",
    "u1000-name-match": "a directive whose name matches U1000 only as a glob or in another case does not suppress the U1000 problem on its line",
    "u1000-no-reason+u1000-name-match": "U1000 directives: both the missing-reason and the name-matching deviation",
}


def run(ctx):
    import time
    phases = {}
    t_last = [time.time()]

    def lap(name):
        now = time.time()
        phases[name] = round(now - t_last[0], 1)
        t_last[0] = now

    ctx.replay_cases = None
    if ctx.replay:
        rp = json.load(open(ctx.replay))
        ctx.replay_cases = rp.get("cases", [])
    # the Lean phase and the two Go builds are independent: run them side by side
    with ThreadPoolExecutor(max_workers=3) as ex:
        f_lean = ex.submit(vlib.std_lean_phase, ctx, MODULES, THEOREMS)
        f_bin = ex.submit(vlib.build_harness, ctx, "c10filter")
        f_sc = ex.submit(vlib.build_repo_cmd, ctx, "./cmd/staticcheck")
        lean_ok, lean_broke = f_lean.result()
        binp, sc = f_bin.result(), f_sc.result()
    rc, so, se = vlib.run([sc, "-list-checks"], env=vlib.go_env())
    all_checks = [l.split()[0] for l in so.splitlines() if l.strip()]
    rc2, so2, se2 = vlib.run([binp, "-nondefault"], env=vlib.go_env())
    if rc != 0 or rc2 != 0 or len(all_checks) < 100:
        raise vlib.HarnessError("cannot list checks: %s %s" % (se, se2))
    non_default = set(so2.split())
    lap("lean build+audit, go builds")

    rng = vlib.SplitMix(ctx.seed).fork("C10")
    n_fi, n_small, n_e2e = (30000, 4000, 110) if ctx.quick else (200000, 20000, 2000)
    # development knobs (defaults are the fixed case counts above)
    n_e2e = int(os.environ.get("VERIF_C10_E2E", n_e2e))
    n_fi = int(os.environ.get("VERIF_C10_FI", n_fi))
    fails, mism, hist = [], [], {}
    samples = []
    evals = 0
    nontriv = 0
    n_cli = 0
    if ctx.replay_cases is not None:
        lines = [c["line"] for c in ctx.replay_cases if c.get("kind") in ("fi", "sup", "u1k")]
        if lines:
            impl = run_impl(ctx, binp, lines)
            model = model_run(ctx, lines) or ["model unavailable"] * len(lines)
            for l, im, mo in zip(lines, impl, model):
                print("replay: impl=%s\n        model=%s" % (im, mo))
                if im != mo:
                    fails.append({"kind": "fi", "key": "replay", "why": "real code and proved model disagree", "line": l, "impl": im, "model": mo})
            evals += len(lines)
    # the two phases are independent (separate random streams, separate scratch files); the
    # end-to-end phase mostly waits for the binary, so the in-process phase runs beside it
    fails_ip, mism_ip, hist_ip = [], [], {}
    with ThreadPoolExecutor(max_workers=1) as ex:
        f_ip = None
        if ctx.replay_cases is None:
            f_ip = ex.submit(inprocess, ctx, binp, rng.fork("inprocess"), n_fi, n_small, fails_ip, mism_ip, hist_ip)
        n, nt, sm, n_cli = end_to_end(ctx, sc, rng.fork("e2e"), n_e2e, all_checks, non_default, fails, mism, hist)
        lap("end-to-end (in-process phase beside it)")
        if f_ip is not None:
            n2, nt2, sm2 = f_ip.result()
            lap("rest of in-process")
            evals += n2
            nontriv += len(nt2)
            samples += sm2
            fails[:0] = fails_ip
            mism[:0] = mism_ip
            hist.update(hist_ip)
    evals += n
    nontriv += len(nt)
    samples += sm

    # violation search: the model and the code disagree, or a proof no longer builds, but the
    # statement held on everything explored so far -> three times as many generated inputs
    # (another stream of the same seed) through the oracle before saying "no failing input"
    if not fails and (mism or not lean_ok) and ctx.replay_cases is None:
        n, nt, sm = inprocess(ctx, binp, rng.fork("search"), 3 * n_fi, 3 * n_small, fails, [], {})
        evals += n
        ctx.notes.append("violation search run: %d further in-process inputs through the oracle, %d failing" % (n, len(fails)))
        lap("violation search")

    ctx.coverage.update({
        "evaluations": evals,
        "distinct_nontrivial": nontriv,
        "rule": "in-process: distinct input lines whose real result has an ignored diagnostic, an added directive problem, a "
                "matching glob, a parsed directive or a matching directive; end-to-end: distinct (file, line, directive text, "
                "-checks) placements whose directive is malformed, suppresses something or is a well-formed useless directive",
        "histogram": dict(sorted(hist.items())),
        "samples": samples[:10],
        "cli_cases": n_cli,
        "phase_wall_s": phases,
        "cli_runs": hist.get("e2e:binary-runs", 0),
        "configs": CONFIGS,
    })
    ctx.assumptions += [
        "path/filepath.Match is modelled on patterns over letters/digits/*/? only (no brackets, escapes, separators); compared with the real function on generated inputs, not verified",
        "strings.ToLower / strings.Split are modelled on ASCII; compared on generated inputs",
        "go/ast.NewCommentMap (which node a comment is attached to) is not modelled: directives are generated on their own line directly above a statement/declaration, where the attached node starts on the next line; the end-to-end runs check this placement",
        "the U1000 graph itself is outside the model (only its ignore rule u1000Ignores is modelled); U1000 problems other than the named one may disappear, as the statement allows",
        "sorting/deduplication in printDiagnostics is outside C10 (reports are compared as sorted lists)",
        "-checks selection (filterAnalyzerNames) is C11's subject: only the forms all / -NAME / NAME are used to compute the allowed set",
    ]

    known = vlib.load_known_findings("C10")
    by_key = {}
    for f in fails:
        by_key.setdefault(f["key"], []).append(f)
    for key, fs in sorted(by_key.items()):
        fs.sort(key=lambda f: len(json.dumps(f, default=str)))
        obj = {
            "what": KEY_TEXT.get(key, "the real code violates the statement of C10 on this input (class %s)" % key),
            "how_to_replay": HOWTO.get(fs[0]["kind"], ""),
            "count": len(fs), "first": fs[0], "cases": fs[:20],
        }
        if key in known:
            ctx.write_replay("known_%s.json" % key, obj)
            ctx.known_finding("key=%s %s (%d inputs this run)" % (key, known[key], len(fs)))
        else:
            ctx.violation("%s.json" % key, obj, text="C10 [%s]: %d failing inputs, smallest: %s" % (key, len(fs), fs[0]["why"][:600]))
    if not [k for k in by_key if k not in known] and (mism or not lean_ok):
        ctx.violation("correspondence.json", {
            "what": "the Lean model and the real code disagree (or a proof no longer builds) although the statement of C10 held on every explored input",
            "lean": lean_broke, "count": len(mism), "cases": mism[:30],
            "correspondence": "streams fi/sup/pd/glob/lower of c10filter vs c10driver; theorems " + ", ".join(THEOREMS),
        }, nofail=True)
    return vlib.finish(ctx, "proof")


META = {
    "level": "proof",
    "technique": "Lean 4 theorems over a transliterated model of analysis/lint.parseDirective, lintcmd.parseDirectives, "
                 "lineIgnore/fileIgnore.match, filterIgnored (incl. couldHaveMatched), success and the `ignores` loop of "
                 "unused.(*graph).entry; executable correspondence in-process (verif hook lintcmd/verif_c10.go; unused.Graph "
                 "without hook) and end-to-end metamorphic runs of the real staticcheck binary",
    "text": "Proved for all diagnostic lists, directive lists and check selections over the model: filterIgnored_eq (the "
            "transliterated loops compute the declarative specification), ignored_iff (a problem is ignored iff a well-formed "
            "directive in its file, on its line unless file-wide, names its check by a case-folded glob), others_unchanged and "
            "insert_directive / insert_directive_added (inserting a directive changes nothing but the severity of the problems it "
            "suppresses and may add only its own malformed/useless problem), no_reason_is_error and u1000_no_reason (a directive "
            "without a reason is a compile error and suppresses nothing, also in the U1000 graph), useless_reported_iff and "
            "couldHaveMatched_perm (a line directive that suppressed nothing is reported iff it names an enabled check other than "
            "U1000, whatever the order of its names), u1000_marked_iff (the U1000 graph counts the object at file:line as used "
            "because of a directive iff the directive would suppress a U1000 problem there by the same rule), "
            "parseDirectiveText_fields (how the comment text is read). The model is tied to the current /repo on every run: "
            "30k generated (directives, diagnostics, enabled checks) triples through the real success/filterIgnored/"
            "parseDirectives, generated directive lists through the real unused.Graph on a synthetic package, comment texts "
            "through the real lint.ParseDirectives, globs through the real filepath.Match, all compared with the compiled "
            "model and with an independent Python transcription of the statement; and end-to-end by inserting one directive "
            "per copy of a fixed two-file package (every statement/declaration line; exact ids, globs, wrong case, other checks, "
            "U1000, disabled checks; with and without reason; five -checks selections) and comparing the real binary's reports "
            "with and without -show-ignored with the prediction from the directive-free report. Explored, not proved: which "
            "syntax node a comment attaches to (go/ast comment maps), the U1000 graph beyond its ignore rule (what becomes used "
            "through an ignored object), the analyzers that produce the problems, sorting/deduplication of the output.",
    "note": "Trusted: Lean kernel (axioms propext/Classical.choice/Quot.sound), compiled c10driver, harness/cmd/c10filter, the "
            "verif hook lintcmd/verif_c10.go (wrappers only), the Python oracle in checks/c10.py; filepath.Match (letters, digits, "
            "*, ? only), strings.ToLower/Split on ASCII and go/ast.NewCommentMap are modelled or assumed and compared on generated "
            "inputs. Three defects found and fixed in /repo (findings.d/C10.txt): U1000 order dependence of the useless-directive "
            "report, U1000 directives without a reason still honoured, U1000 names matched exactly instead of as case-folded globs.",
    "design_ref": "DESIGN.md section 5, C10; section 6 row 8",
}
