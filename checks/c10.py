"""C10 — ignore directives suppress exactly what they name, nothing else.

Lean: Verif/C10/{Model,Theorems}.lean (parseDirective, parseDirectives, line/file ignore
matching, filterIgnored incl. couldHaveMatched, success, the U1000 ignore rule).

Ties (X):
 (a) in-process: generated (directives, diagnostics, allowed-checks) triples through the real
     lintcmd.success/filterIgnored/parseDirectives (verif hook lintcmd/verif_c10.go), the real
     lint.ParseDirectives, filepath.Match and strings.ToLower, compared with the Lean model;
 (b) end-to-end metamorphic: the real `staticcheck` binary on a fixed two-file package
     (corpus/C10/pkg) with one directive inserted above a statement/declaration line, with and
     without -show-ignored, under several -checks selections; the report is compared with the
     prediction computed from the base report (by the Lean model and by the oracle).

Oracle: the property statement itself, evaluated in Python (`Spec`) on the real outputs,
written independently of the Lean model (its own glob matcher, its own splitting).
"""
import fnmatch
import json
import os
import shutil
import threading
from concurrent.futures import ThreadPoolExecutor

import vlib

MODULES = ["Verif.C10.Theorems"]
THEOREMS = [
    "Verif.C10.ignored_iff",
    "Verif.C10.others_unchanged",
    "Verif.C10.no_reason_is_error",
    "Verif.C10.useless_reported_iff",
    "Verif.C10.added_eq",
    "Verif.C10.kept_length",
    "Verif.C10.filterIgnored_eq",
    "Verif.C10.couldHaveMatched_iff",
    "Verif.C10.couldHaveMatched_perm",
    "Verif.C10.success_spec",
    "Verif.C10.u1000_ignores_iff",
    "Verif.C10.glob_star",
    "Verif.C10.glob_literal",
]

MALFORMED = "malformed linter directive; missing the required reason field?"
USELESS = "this linter directive didn't match anything; should it be removed?"
PKG = os.path.join(vlib.VERIF, "corpus", "C10", "pkg")

hexs = vlib.hexs


# --------------------------------------------------------------------------- the oracle
class Dir:
    """a serialized directive"""
    def __init__(self, cmd, args, dpos, npos):
        self.cmd, self.args, self.dpos, self.npos = cmd, list(args), tuple(dpos), tuple(npos)

    def enc(self):
        return "%s %d %s %s %d %d %s %d %d" % (
            hexs(self.cmd), len(self.args), " ".join(hexs(a) for a in self.args),
            hexs(self.dpos[0]), self.dpos[1], self.dpos[2], hexs(self.npos[0]), self.npos[1], self.npos[2])

    def obj(self):
        return {"command": self.cmd, "arguments": self.args, "directive_pos": list(self.dpos), "node_pos": list(self.npos)}


def enc_dir(d):
    return " ".join(d.enc().split())


def pyglob(pat, name):
    # patterns are restricted to letters/digits/*/? (never brackets or escapes)
    return fnmatch.fnmatchcase(name, pat)


DEVIATIONS = ("useless-u1000-order", "u1000-no-reason", "u1000-name-match")


class Spec:
    """The statement of C10, clause by clause.  `dev` names deviations (defect classes seen
    in the real code) and is empty for the property itself; a failure of the oracle is
    attributed to a class iff the statement plus that deviation reproduces the real output."""
    @staticmethod
    def wf(d):
        return d.cmd in ("ignore", "file-ignore") and len(d.args) >= 2

    @staticmethod
    def malformed(d):
        return d.cmd in ("ignore", "file-ignore") and len(d.args) < 2

    @staticmethod
    def names(d):
        return [x.lower() for x in d.args[0].split(",")] if d.args else []

    @staticmethod
    def suppresses(d, file, line, cat):
        return (Spec.wf(d) and file == d.npos[0] and (d.cmd == "file-ignore" or line == d.npos[1])
                and any(pyglob(c, cat.lower()) for c in Spec.names(d)))

    @staticmethod
    def u1000_active(d, dev=()):
        """does the directive ask the U1000 graph to ignore something"""
        if "u1000-no-reason" in dev:
            ok = d.cmd in ("ignore", "file-ignore") and len(d.args) >= 1
        else:
            ok = Spec.wf(d)
        if not ok:
            return False
        if "u1000-name-match" in dev:
            return "U1000" in d.args[0].split(",")
        return any(pyglob(c, "u1000") for c in Spec.names(d))

    @staticmethod
    def u1000_suppresses(d, file, line, dev=()):
        return Spec.u1000_active(d, dev) and file == d.npos[0] and (d.cmd == "file-ignore" or line == d.npos[1])

    @staticmethod
    def could_have_matched(d, allowed, dev=()):
        if "useless-u1000-order" in dev:
            for c in Spec.names(d):
                if c == "u1000":
                    return False
                if c in allowed:
                    return True
            return False
        return any(c != "u1000" and c in allowed for c in Spec.names(d))

    @staticmethod
    def useless(d, diags, allowed, dev=()):
        return (d.cmd == "ignore" and Spec.wf(d)
                and not any(Spec.suppresses(d, g[0], g[1], g[3]) for g in diags)
                and Spec.could_have_matched(d, allowed, dev))

    @staticmethod
    def filter(use_success, allowed, diags, dirs, dev=()):
        """diags: (file, line, col, cat, msg). Returns (kept, added); entries
        (file, line, col, cat, msg, sev)."""
        ds = [g for g in diags if (not use_success) or g[3].lower() in allowed]
        kept = []
        for g in ds:
            ign = any(Spec.suppresses(d, g[0], g[1], g[3]) for d in dirs)
            kept.append(tuple(g) + ("i" if ign else "e",))
        added = []
        for d in dirs:
            if Spec.malformed(d):
                added.append((d.npos[0], d.npos[1], d.npos[2], "compile", MALFORMED, "e"))
        for d in dirs:
            if Spec.useless(d, ds, allowed, dev):
                added.append((d.dpos[0], d.dpos[1], d.dpos[2], "staticcheck", USELESS, "e"))
        return kept, added


def enc_diag(g, sev="e"):
    return "%s %d %d %s %s %s" % (hexs(g[0]), g[1], g[2], hexs(g[3]), hexs(g[4]), sev)


def dec_hex(t):
    return "" if t == "-" else bytes.fromhex(t).decode()


def dec_diags(line):
    """`<n> (<file> <line> <col> <cat> <msg> <sev>)*` -> list of tuples, or None."""
    t = line.split()
    try:
        n = int(t[0])
        if len(t) != 1 + 6 * n:
            return None
        out = []
        for i in range(n):
            f, l, c, cat, msg, sev = t[1 + 6 * i: 7 + 6 * i]
            out.append((dec_hex(f), int(l), int(c), dec_hex(cat), dec_hex(msg), sev))
        return out
    except (ValueError, IndexError):
        return None


def fi_line(use_success, allowed, diags, dirs):
    parts = ["fi", "1" if use_success else "0", str(len(allowed))] + [hexs(a) for a in allowed]
    parts.append(str(len(diags)))
    parts += [enc_diag(g) for g in diags]
    parts.append(str(len(dirs)))
    parts += [enc_dir(d) for d in dirs]
    return " ".join(parts)


# --------------------------------------------------------------------------- generators
POOL = ["SA4000", "SA4006", "SA4010", "S1002", "S1008", "ST1003", "SA1000", "U1000"]
LETTERS = "abcdefghijklmnopqrstuvwxyzABCDEFGHIJKLMNOPQRSTUVWXYZ0123456789"


def case_variant(rng, s):
    k = rng.below(4)
    if k == 0:
        return s.lower()
    if k == 1:
        return s.upper()
    if k == 2:
        return "".join(c.lower() if rng.chance(1, 2) else c.upper() for c in s)
    return s


def glob_of(rng, s):
    """a glob over letters/digits/*/? derived from the check id s (may or may not match it)"""
    k = rng.below(8)
    if k == 0:
        return "*"
    if k == 1:
        i = rng.below(len(s) + 1)
        return s[:i] + "*"
    if k == 2:
        i = rng.below(len(s) + 1)
        return "*" + s[i:]
    if k == 3:
        i = rng.below(len(s))
        return s[:i] + "?" + s[i + 1:]
    if k == 4:
        i = rng.below(len(s))
        j = i + rng.below(len(s) - i + 1)
        return s[:i] + "*" + s[j:]
    if k == 5:
        return "?" * len(s)
    if k == 6:
        i = rng.below(len(s))
        return s[:i] + "*" + "?" + s[i + 1:]
    return s[:2] + "*" + s[-1:] + ("*" if rng.chance(1, 2) else "")


def gen_name(rng, on_line, elsewhere, disabled):
    """one entry of a check list; returns (text, class)"""
    k = rng.below(16)
    if k < 3 and on_line:
        return rng.choice(on_line), "exact"
    if k < 5 and on_line:
        return glob_of(rng, rng.choice(on_line)), "glob"
    if k < 7 and on_line:
        return case_variant(rng, rng.choice(on_line)), "case"
    if k < 9:
        return rng.choice(elsewhere or POOL), "other"
    if k < 11:
        return rng.choice(["U1000", "U1000", "u1000", "U1*", "U100?"]), "u1000"
    if k < 13:
        return rng.choice(disabled or ["ST1003"]), "disabled"
    if k == 13:
        return glob_of(rng, rng.choice(elsewhere or POOL)), "glob-other"
    if k == 14:
        return rng.choice(["XX9999", "", "SA", "4000", "SA40000"]), "nonsense"
    return case_variant(rng, glob_of(rng, rng.choice(on_line or POOL))), "glob-case"


def gen_checklist(rng, on_line, elsewhere, disabled):
    n = 1 + (rng.below(3) if rng.chance(1, 2) else 0)
    names, classes = [], []
    for _ in range(n):
        t, c = gen_name(rng, on_line, elsewhere, disabled)
        names.append(t)
        classes.append(c)
    return ",".join(names), classes


def gen_cmd(rng):
    k = rng.below(20)
    if k < 11:
        return "ignore"
    if k < 17:
        return "file-ignore"
    return rng.choice(["ignored", "", "Ignore", "file_ignore", "nolint", "IGNORE"])


def gen_reason(rng):
    k = rng.below(8)
    if k < 2:
        return []
    if k < 5:
        return ["reason"]
    if k == 5:
        return ["", "x"]
    if k == 6:
        return [""]
    return ["a", "longer", "reason"]


def gen_triple(rng):
    files = ["a.go", "b.go", "/x/a.go"][: 1 + rng.below(3)]
    nlines = 1 + rng.below(5)
    cats = [rng.choice(POOL) for _ in range(1 + rng.below(4))]
    diags = []
    for _ in range(rng.below(7)):
        cat = rng.choice(cats)
        if rng.chance(1, 6):
            cat = case_variant(rng, cat)
        diags.append((rng.choice(files), 1 + rng.below(nlines), 1 + rng.below(3), cat, "m%d" % rng.below(3)))
    lower_pool = [c.lower() for c in POOL]
    allowed = [c for c in lower_pool if rng.chance(2, 3)]
    if rng.chance(1, 10):
        allowed = []
    disabled = [c.upper() for c in lower_pool if c not in allowed]
    dirs = []
    for _ in range(rng.below(5)):
        f = rng.choice(files)
        nl = 1 + rng.below(nlines)
        on_line = [g[3] for g in diags if g[0] == f and g[1] == nl]
        lst, _ = gen_checklist(rng, on_line, cats, disabled)
        args = [lst] + gen_reason(rng)
        if rng.chance(1, 12):
            args = []
        dirs.append(Dir(gen_cmd(rng), args, (f, max(nl - 1, 0) if rng.chance(3, 4) else nl, 1 + rng.below(3)), (f, nl, 1 + rng.below(3))))
    return rng.chance(1, 2), allowed, diags, dirs


def gen_comment(rng):
    k = rng.below(10)
    lst, _ = gen_checklist(rng, ["SA4000"], POOL, ["ST1003"])
    if k < 6:
        sep = " " if rng.chance(5, 6) else "  "
        return "//lint:" + gen_cmd(rng) + sep + lst + "".join(" " + w for w in gen_reason(rng))
    if k == 6:
        return "//lint:" + rng.choice(["", "ignore", "file-ignore", " ignore X y", "ignore ", "ignore  "])
    if k == 7:
        return rng.choice(["// lint:ignore X y", "//lint ignore X y", "//LINT:ignore X y", "//nolint:foo", "//lint", "//", "//lint:ignore\tX y"])
    return "//lint:" + gen_cmd(rng) + " " + lst + " " + "".join(rng.choice(LETTERS + "  ,") for _ in range(rng.below(12)))


# --------------------------------------------------------------------------- in-process phase
def run_impl(ctx, binp, lines):
    rc, so, se = vlib.run([binp], input="".join(l + "\n" for l in lines), env=vlib.go_env(), timeout=1800)
    if rc != 0:
        raise vlib.HarnessError("c10filter exited %d: %s" % (rc, se[-2000:]))
    out = so.split("\n")
    if out and out[-1] == "":
        out.pop()
    if len(out) != len(lines):
        raise vlib.HarnessError("c10filter: %d outputs for %d inputs" % (len(out), len(lines)))
    return out


def classify_fi(allowed, diags, dirs, got, use_success):
    """Oracle on one real filterIgnored output. Returns None if the property holds, else
    (key, description)."""
    kept, added = Spec.filter(use_success, allowed, diags, dirs)
    if got is None:
        return ("fi-output", "unparseable output")
    gk, ga = got[:len(kept)], got[len(kept):]
    if len(got) >= len(kept) and gk == kept and sorted(ga) == sorted(added):
        return None
    for dev in DEVIATIONS[:1]:
        k2, a2 = Spec.filter(use_success, allowed, diags, dirs, dev=(dev,))
        if gk == k2 and sorted(ga) == sorted(a2):
            return (dev, "%s: expected added problems %r, got %r" % (KEY_TEXT[dev], sorted(added), sorted(ga)))
    if len(got) < len(kept) or gk != kept:
        return ("suppression", "incoming diagnostics changed otherwise than the directives say: expected %r, got %r" % (kept, gk))
    return ("added", "added problems wrong: expected %r, got %r" % (sorted(added), sorted(ga)))


def inprocess(ctx, binp, rng, n_fi, n_small, fails, mism, hist):
    lines, meta = [], []
    # corpus: fixed regression inputs
    a = ("a.go", 5, 2, "SA4000", "m")
    corpus = [
        (False, ["sa4000", "sa4006"], [("a.go", 9, 2, "SA4000", "m")], [Dir("ignore", ["U1000,SA4006", "r"], ("a.go", 4, 2), ("a.go", 5, 2))]),
        (False, ["sa4000", "sa4006"], [("a.go", 9, 2, "SA4000", "m")], [Dir("ignore", ["SA4006,U1000", "r"], ("a.go", 4, 2), ("a.go", 5, 2))]),
        (False, ["sa4000", "sa4006", "u1000"], [a], [Dir("ignore", ["u1000,ST1003,Sa4006", "r"], ("a.go", 4, 2), ("a.go", 9, 2))]),
        (True, ["sa4000"], [a, ("b.go", 5, 2, "SA4000", "m"), ("a.go", 5, 9, "S1002", "m")], [Dir("ignore", ["SA4000", "why"], ("a.go", 4, 2), ("a.go", 5, 2))]),
        (False, ["sa4000"], [a], [Dir("ignore", ["SA4000"], ("a.go", 4, 2), ("a.go", 5, 2))]),
        (False, ["sa4000"], [a], [Dir("file-ignore", ["sa4*", "why"], ("a.go", 1, 1), ("a.go", 2, 1))]),
        (False, ["sa4000"], [a], [Dir("ignore", ["ST1003", "why"], ("a.go", 4, 2), ("a.go", 5, 2))]),
        (False, ["sa4000", "s1002"], [a], [Dir("ignore", ["S1002", "why"], ("a.go", 4, 2), ("a.go", 5, 2)),
                                            Dir("ignore", ["SA4000", "why"], ("a.go", 4, 2), ("a.go", 5, 2))]),
        (False, ["sa4000"], [a], [Dir("ignore", [], ("a.go", 4, 2), ("a.go", 5, 2)), Dir("nolint", ["SA4000", "x"], ("a.go", 4, 2), ("a.go", 5, 2))]),
    ]
    for c in corpus:
        lines.append(fi_line(*c))
        meta.append(("fi", c))
    for _ in range(n_fi):
        c = gen_triple(rng)
        lines.append(fi_line(*c))
        meta.append(("fi", c))
    # small ties: glob / lower / pd / sup
    for pat, name in [("sa4*", "sa4000"), ("s?4000", "sa4000"), ("*", ""), ("", ""), ("*0", "sa4000"), ("*1", "sa4000"), ("**", "x"), ("?", ""), ("a*b*c", "aXbYbZc")]:
        lines.append("glob %s %s" % (hexs(pat), hexs(name)))
        meta.append(("glob", (pat, name)))
    for _ in range(n_small):
        base = rng.choice(POOL).lower()
        pat = case_variant(rng, glob_of(rng, base)).lower() if rng.chance(3, 4) else "".join(rng.choice("sa401*?") for _ in range(rng.below(7)))
        name = base if rng.chance(2, 3) else "".join(rng.choice("sa4010") for _ in range(rng.below(7)))
        lines.append("glob %s %s" % (hexs(pat), hexs(name)))
        meta.append(("glob", (pat, name)))
    for _ in range(n_small // 4):
        s = "".join(rng.choice(LETTERS + "*?,_-") for _ in range(rng.below(9)))
        lines.append("lower " + hexs(s))
        meta.append(("lower", s))
    for t in ["//lint:ignore SA4000 reason", "//lint:ignore SA4000", "//lint:", "//lint:ignore  SA4000 r", "// lint:ignore X y", "//lint:file-ignore U1000 generated code"]:
        lines.append("pd " + hexs(t))
        meta.append(("pd", t))
    for _ in range(n_small // 2):
        t = gen_comment(rng)
        lines.append("pd " + hexs(t))
        meta.append(("pd", t))
    for _ in range(n_small // 2):
        _, allowed, diags, dirs = gen_triple(rng)
        if not dirs or not diags:
            continue
        d, g = rng.choice(dirs), rng.choice(diags)
        if g[3].lower() == "u1000":
            continue
        lines.append("sup %s %s %d %s" % (enc_dir(d), hexs(g[0]), g[1], hexs(g[3])))
        meta.append(("sup", (d, g)))

    impl = run_impl(ctx, binp, lines)
    model = vlib.run_model(ctx, "C10", lines)
    nontrivial = set()
    for (kind, c), line, im, mo in zip(meta, lines, impl, model):
        if mo == "bad-op" or im == "bad-op":
            raise vlib.HarnessError("line rejected (model=%s impl=%s): %s" % (mo, im, line[:300]))
        hist[kind] = hist.get(kind, 0) + 1
        if kind == "fi":
            use_success, allowed, diags, dirs = c
            got = dec_diags(im)
            bad = classify_fi(allowed, diags, dirs, got, use_success)
            kept, added = Spec.filter(use_success, allowed, diags, dirs)
            if any(x[5] == "i" for x in kept):
                hist["fi:some-ignored"] = hist.get("fi:some-ignored", 0) + 1
            if any(x[3] == "staticcheck" for x in added):
                hist["fi:useless-reported"] = hist.get("fi:useless-reported", 0) + 1
            if any(x[3] == "compile" for x in added):
                hist["fi:malformed"] = hist.get("fi:malformed", 0) + 1
            if any(x[5] == "i" for x in kept) or added:
                nontrivial.add(line)
            if bad:
                fails.append({"kind": "fi", "key": bad[0], "why": bad[1], "line": line, "impl": im, "model": mo,
                              "input": {"use_success": use_success, "allowed": allowed, "diagnostics": [list(g) for g in diags],
                                        "directives": [d.obj() for d in dirs]}})
            elif im != mo:
                mism.append({"kind": "fi", "line": line, "impl": im, "model": mo})
        elif kind == "glob":
            exp = "1" if pyglob(c[0], c[1]) else "0"
            if im == "1":
                nontrivial.add(line)
            if im != exp or im != mo:
                # filepath.Match is modelled, not part of /repo: a disagreement is a harness/model problem
                mism.append({"kind": "glob", "pattern": c[0], "name": c[1], "impl": im, "model": mo, "python": exp})
        elif kind == "lower":
            if im != mo:
                mism.append({"kind": "lower", "s": c, "impl": im, "model": mo})
        elif kind == "pd":
            if im != "none":
                nontrivial.add(line)
            if im != mo:
                mism.append({"kind": "pd", "text": c, "impl": im, "model": mo})
        elif kind == "sup":
            d, g = c
            exp = "1" if Spec.suppresses(d, g[0], g[1], g[3]) else "0"
            if im == "1":
                nontrivial.add(line)
            if im != exp:
                fails.append({"kind": "sup", "key": "suppression", "why": "directive match differs from the statement: expected %s got %s" % (exp, im),
                              "line": line, "impl": im, "model": mo, "input": {"directive": d.obj(), "diagnostic": list(g)}})
            elif im != mo:
                mism.append({"kind": "sup", "line": line, "impl": im, "model": mo})
    samples = [{"input": lines[i][:400], "impl": impl[i][:300], "model": model[i][:300]} for i in range(0, len(lines), max(1, len(lines) // 5))][:6]
    return len(lines), nontrivial, samples


# --------------------------------------------------------------------------- end-to-end phase
CONFIGS = {
    "default": None,
    "no-sa4000-s1002": "all,-ST1000,-ST1020,-ST1021,-ST1022,-SA4000,-S1002",
    "only-four": "SA4000,SA4006,U1000,ST1003",
    "no-u1000": "all,-ST1000,-ST1020,-ST1021,-ST1022,-U1000",
    "all": "all,-ST1000,-ST1020,-ST1021,-ST1022",
}
# the doc-comment checks ST1000/ST102x are kept off: an inserted directive is itself a new
# comment, which those checks read.  "all" is a superset of every other selection and is the
# one used to calibrate which lines are insensitive to an inserted comment.
CAL = "all"


def allowed_for(cfg, all_checks, non_default):
    """enabled checks (lower case) for the restricted -checks forms used here"""
    if cfg is None:
        return set(c.lower() for c in all_checks if c not in non_default)
    out = set()
    for item in cfg.split(","):
        if item == "all":
            out = set(c.lower() for c in all_checks)
        elif item.startswith("-"):
            out.discard(item[1:].lower())
        else:
            out.add(item.lower())
    return out


def parse_report(stdout, root):
    probs = []
    for line in stdout.splitlines():
        if not line.strip():
            continue
        j = json.loads(line)
        f = j["location"]["file"]
        f = os.path.relpath(f, root) if os.path.isabs(f) else f
        probs.append((f, j["location"]["line"], j["location"]["column"], j["code"], j["message"], j["severity"]))
    return probs


_tls = threading.local()


def run_staticcheck(ctx, sc, pkgdir, cfg, show_ignored):
    if not hasattr(_tls, "cache"):
        _tls.cache = vlib.tempfile.mkdtemp(prefix="sccache", dir=ctx.scratch)
    env = vlib.go_env({"STATICCHECK_CACHE": _tls.cache})
    cmd = [sc, "-f", "json"]
    if cfg:
        cmd += ["-checks", cfg]
    if show_ignored:
        cmd.append("-show-ignored")
    cmd.append("./...")
    rc, so, se = vlib.run(cmd, cwd=pkgdir, env=env, timeout=600)
    if rc not in (0, 1) or se.strip():
        raise vlib.HarnessError("staticcheck failed in %s (%s): rc=%d %s" % (pkgdir, cfg, rc, se[-1500:]))
    try:
        return parse_report(so, os.path.realpath(pkgdir))
    except ValueError:
        raise vlib.HarnessError("staticcheck output not JSON in %s: %s" % (pkgdir, so[-800:]))


def target_lines(src_lines):
    """1-based numbers of the statement/declaration lines of the fixed package (every
    non-blank line that is not a closing brace, a comment or the package clause)."""
    out = []
    for i, l in enumerate(src_lines, 1):
        s = l.strip()
        if not s or s.startswith("}") or s.startswith("//") or s.startswith("package "):
            continue
        out.append(i)
    return out


def py_parse_comment(text):
    """the oracle's own reading of analysis/lint.parseDirective"""
    if not text.startswith("//lint:"):
        return None
    f = text[len("//lint:"):].split(" ")
    return f[0], f[1:]


def make_case(fname, line, text, cfgname):
    return {"file": fname, "line": line, "text": text, "config": cfgname}


def e2e_corpus():
    cs = []
    for cfg in ("default",):
        cs += [
            make_case("a.go", 20, "//lint:ignore U1000,SA4006 reason", cfg),
            make_case("a.go", 20, "//lint:ignore SA4006,U1000 reason", cfg),
            make_case("a.go", 20, "//lint:ignore SA4000 reason", cfg),
            make_case("a.go", 20, "//lint:ignore SA4000", cfg),
            make_case("a.go", 20, "//lint:ignore sa4000 wrong case still matches", cfg),
            make_case("a.go", 20, "//lint:ignore SA4* glob", cfg),
            make_case("a.go", 20, "//lint:ignore S1002 other check", cfg),
            make_case("a.go", 20, "//lint:ignore ST1003 disabled check", cfg),
            make_case("a.go", 20, "//lint:ignore ST1003,U1000 disabled and U1000", cfg),
            make_case("a.go", 31, "//lint:ignore SA4006 one of two on the line", cfg),
            make_case("a.go", 46, "//lint:ignore SA4000 two of the same check", cfg),
            make_case("b.go", 21, "//lint:ignore SA4000 same line number as in a.go after the shift", cfg),
            make_case("a.go", 3, "//lint:file-ignore SA4000 whole file", cfg),
            make_case("a.go", 3, "//lint:file-ignore SA4000", cfg),
            make_case("a.go", 7, "//lint:ignore U1000 reason", cfg),
            make_case("a.go", 7, "//lint:ignore U1000", cfg),
            make_case("a.go", 7, "//lint:ignore u1000 wrong case", cfg),
            make_case("a.go", 7, "//lint:ignore U1* glob", cfg),
            make_case("a.go", 7, "//lint:ignore SA4000,U1000 mixture", cfg),
            make_case("a.go", 3, "//lint:file-ignore U1000 generated", cfg),
            make_case("a.go", 3, "//lint:file-ignore U1000", cfg),
            make_case("a.go", 3, "//lint:file-ignore * everything", cfg),
            make_case("a.go", 13, "//lint:ignore U1000,ST1003 reason", "no-sa4000-s1002"),
            make_case("a.go", 20, "//lint:ignore SA4000 disabled here", "no-sa4000-s1002"),
            make_case("a.go", 20, "//lint:ignore SA4000,SA4006 reason", "no-sa4000-s1002"),
            make_case("a.go", 15, "//lint:ignore ST1003 reason", "only-four"),
            make_case("a.go", 23, "//lint:ignore S1002 reason", "only-four"),
            make_case("a.go", 7, "//lint:ignore U1000 reason", "no-u1000"),
            make_case("a.go", 7, "//lint:ignore U1000,SA4000 reason", "no-u1000"),
        ]
    return cs


def e2e_generate(rng, n, sources, base):
    """n cases; names are drawn relative to the problems on the target line."""
    cases = []
    cfgnames = list(CONFIGS)
    tl = {f: target_lines(src) for f, src in sources.items()}
    hot = {}
    for cfgname in cfgnames:
        for f in sources:
            hot[(cfgname, f)] = sorted(set(p[1] for p in base[cfgname]["problems"] if p[0] == f))
    for _ in range(n):
        cfgname = cfgnames[0] if rng.chance(1, 2) else rng.choice(cfgnames)
        f = rng.choice(sorted(sources))
        # two thirds of the placements on lines that carry problems
        if rng.chance(2, 3) and hot[(cfgname, f)]:
            line = rng.choice(hot[(cfgname, f)])
        else:
            line = rng.choice(tl[f])
        probs = base[cfgname]["problems"]
        on_line = sorted(set(p[3] for p in probs if p[0] == f and p[1] == line))
        elsewhere = sorted(set(p[3] for p in probs if not (p[0] == f and p[1] == line)))
        disabled = base[cfgname]["disabled_sample"]
        lst, classes = gen_checklist(rng, on_line, elsewhere, disabled)
        k = rng.below(20)
        cmd = "ignore" if k < 13 else ("file-ignore" if k < 18 else rng.choice(["ignored", "nolint", "Ignore"]))
        reason = gen_reason(rng)
        sep = " " if rng.chance(11, 12) else "  "
        text = "//lint:" + cmd + sep + lst + "".join(" " + w for w in reason)
        c = make_case(f, line, text, cfgname)
        c["classes"] = classes
        cases.append(c)
    return cases


def e2e_predict_inputs(case, sources, base):
    """Common part of oracle and model prediction: the directive record and the shifted
    base problems."""
    f, L = case["file"], case["line"]
    src = sources[f]
    indent = len(src[L - 1]) - len(src[L - 1].lstrip("\t"))
    col = indent + 1
    b = base[case["config"]]
    shifted = []
    for p in b["problems"]:
        if p[0] == f and p[1] >= L:
            p = (p[0], p[1] + 1) + tuple(p[2:])
        shifted.append(p)
    non_u = [p for p in shifted if p[3] != "U1000"]
    u = [p for p in shifted if p[3] == "U1000"]
    return (f, L, col), (f, L + 1, col), non_u, u, b["allowed"]


def e2e_oracle(case, sources, base, dev=()):
    """-> kept, added, must_vanish, may_vanish (bool), u, dirs"""
    dpos, npos, non_u, u, allowed = e2e_predict_inputs(case, sources, base)
    parsed = py_parse_comment(case["text"])
    dirs = [Dir(parsed[0], parsed[1], dpos, npos)] if parsed else []
    kept, added = Spec.filter(False, allowed, [p[:5] for p in non_u], dirs, dev)
    must_vanish = [p for p in u if any(Spec.u1000_suppresses(d, p[0], p[1], dev) for d in dirs)]
    # only a directive that makes the U1000 graph ignore something may change other U1000 problems
    may_vanish = any(Spec.u1000_active(d, dev) for d in dirs)
    return kept, added, must_vanish, may_vanish, u, dirs


def sev_word(s):
    return {"e": "error", "w": "warning", "i": "ignored"}[s]


def e2e_compare(kept, added, must_vanish, may_vanish, u, real, show_ignored):
    """Compare a real report with a prediction. Returns list of discrepancy strings."""
    out = []
    exp = [(k[0], k[1], k[2], k[3], k[4], sev_word(k[5])) for k in kept if show_ignored or k[5] != "i"]
    exp += [(a[0], a[1], a[2], a[3], a[4], "error") for a in added]
    real_non_u = sorted(p for p in real if p[3] != "U1000")
    real_u = sorted(p for p in real if p[3] == "U1000")
    exp = sorted(exp)
    if real_non_u != exp:
        missing = [p for p in exp if p not in real_non_u]
        extra = [p for p in real_non_u if p not in exp]
        out.append("non-U1000 problems differ: missing %r, unexpected %r" % (missing, extra))
    pool = list(u)
    for p in real_u:
        if p in pool:
            pool.remove(p)
        else:
            out.append("U1000 problem not in the base report (or with changed severity): %r" % (p,))
    for p in must_vanish:
        if p in real_u:
            out.append("U1000 problem named by the directive still reported: %r" % (p,))
    if not may_vanish and pool:
        out.append("U1000 problems disappeared although no well-formed directive names U1000: %r" % (pool,))
    return out


def e2e_key(case, sources, base, r0, r1):
    """Attribute an oracle failure of the end-to-end phase to a defect class: the smallest
    set of deviations with which the statement reproduces both real reports."""
    import itertools
    for n in (1, 2, 3):
        for dev in itertools.combinations(DEVIATIONS, n):
            kept, added, mv, may, u, dirs = e2e_oracle(case, sources, base, dev)
            if not e2e_compare(kept, added, mv, may, u, r0, False) and not e2e_compare(kept, added, mv, may, u, r1, True):
                return "+".join(dev)
    return "e2e"


def end_to_end(ctx, sc, rng, n_cases, all_checks, non_default, fails, mism, hist):
    sources = {}
    for fn in ("a.go", "b.go"):
        sources[fn] = open(os.path.join(PKG, fn)).read().split("\n")
    gomod = open(os.path.join(PKG, "go.mod")).read()

    def materialise(name, files):
        d = ctx.path("e2e", name, "go.mod")
        open(d, "w").write(gomod)
        d = os.path.dirname(d)
        for fn, src in files.items():
            open(os.path.join(d, fn), "w").write("\n".join(src))
        return d

    # base reports
    base = {}
    based = materialise("base", sources)
    for cfgname, cfg in CONFIGS.items():
        r0 = run_staticcheck(ctx, sc, based, cfg, False)
        r1 = run_staticcheck(ctx, sc, based, cfg, True)
        if sorted(r0) != sorted(r1):
            raise vlib.HarnessError("base report differs with -show-ignored although there is no directive")
        allowed = allowed_for(cfg, all_checks, non_default)
        for p in r0:
            if p[3].lower() not in allowed or p[5] != "error":
                raise vlib.HarnessError("base report of config %s has unexpected problem %r" % (cfgname, p))
        dis = sorted(c for c in all_checks if c.lower() not in allowed)
        base[cfgname] = {"problems": r0, "allowed": allowed,
                         "disabled_sample": [c for c in ("ST1003", "SA4000", "S1002", "S1008", "SA4003", "U1000", "SA1000") if c in dis] or dis[:3]}
    if len(base["default"]["problems"]) < 20:
        raise vlib.HarnessError("fixed package no longer has the expected problems: %r" % base["default"]["problems"])

    if ctx.replay_cases is not None:
        cases = [dict(c["case"]) for c in ctx.replay_cases if c.get("kind") == "e2e"]
    else:
        cases = e2e_corpus() + e2e_generate(rng, n_cases, sources, base)

    # calibration: a line qualifies as a placement only if an inserted neutral comment leaves
    # the report unchanged (some analyzers, e.g. S1008, read comments)
    spots = sorted(set((c["file"], c["line"]) for c in cases))

    def calibrate(spot):
        f, L = spot
        files = {fn: list(src) for fn, src in sources.items()}
        indent = len(files[f][L - 1]) - len(files[f][L - 1].lstrip("\t"))
        files[f].insert(L - 1, "\t" * indent + "// c10 neutral comment")
        d = materialise("cal_%s_%d" % (f, L), files)
        r = run_staticcheck(ctx, sc, d, CONFIGS[CAL], False)
        shutil.rmtree(d, ignore_errors=True)
        exp = sorted((p[0], p[1] + 1 if (p[0] == f and p[1] >= L) else p[1]) + tuple(p[2:]) for p in base[CAL]["problems"])
        return sorted(r) == exp

    with ThreadPoolExecutor(max_workers=vlib.NCPU) as ex:
        calib = dict(zip(spots, ex.map(calibrate, spots)))
    sensitive = sorted(s for s, ok in calib.items() if not ok)
    if sensitive:
        ctx.notes.append("placements excluded because a neutral comment there already changes the report: %r" % sensitive)
        cases = [c for c in cases if calib[(c["file"], c["line"])]]
    hist["e2e:calibration-runs"] = len(spots)

    def one(ic):
        i, case = ic
        f, L = case["file"], case["line"]
        files = {fn: list(src) for fn, src in sources.items()}
        indent = len(files[f][L - 1]) - len(files[f][L - 1].lstrip("\t"))
        files[f].insert(L - 1, "\t" * indent + case["text"])
        d = materialise("c%d" % i, files)
        cfg = CONFIGS[case["config"]]
        r0 = run_staticcheck(ctx, sc, d, cfg, False)
        r1 = run_staticcheck(ctx, sc, d, cfg, True)
        shutil.rmtree(d, ignore_errors=True)
        return r0, r1

    with ThreadPoolExecutor(max_workers=vlib.NCPU) as ex:
        results = list(ex.map(one, enumerate(cases)))

    # model predictions: pd for the text, fi for the non-U1000 part, sup for U1000
    mlines, mslots = [], []
    for case in cases:
        dpos, npos, non_u, u, allowed = e2e_predict_inputs(case, sources, base)
        mlines.append("pd " + hexs(case["text"]))
        mslots.append(("pd", case))
    pd_out = vlib.run_model(ctx, "C10", mlines) if mlines else []
    mlines2, idx = [], []
    for case, pdo in zip(cases, pd_out):
        dpos, npos, non_u, u, allowed = e2e_predict_inputs(case, sources, base)
        if pdo == "bad-op":
            raise vlib.HarnessError("model rejected pd line for %r" % case)
        dirs = []
        if pdo != "none":
            t = pdo.split()
            n = int(t[1])
            dirs = [Dir(dec_hex(t[0]), [dec_hex(x) for x in t[2:2 + n]], dpos, npos)]
        al = sorted(allowed)
        start = len(mlines2)
        mlines2.append(fi_line(False, al, [p[:5] for p in non_u], dirs))
        if dirs:
            for p in u:
                mlines2.append("sup %s %s %d %s" % (enc_dir(dirs[0]), hexs(p[0]), p[1], hexs("U1000")))
            # does the directive make the U1000 graph ignore anything at all: ask about its own node
            mlines2.append("sup %s %s %d %s" % (enc_dir(dirs[0]), hexs(npos[0]), npos[1], hexs("U1000")))
        idx.append((start, len(mlines2), dirs))
    m_out = vlib.run_model(ctx, "C10", mlines2) if mlines2 else []

    nontrivial = set()
    samples = []
    for i, (case, (r0, r1)) in enumerate(zip(cases, results)):
        dpos, npos, non_u, u, allowed = e2e_predict_inputs(case, sources, base)
        kept, added, must_vanish, may_vanish, _, dirs = e2e_oracle(case, sources, base)
        problems = []
        for show, real in ((False, r0), (True, r1)):
            for msg in e2e_compare(kept, added, must_vanish, may_vanish, u, real, show):
                problems.append(("-show-ignored: " if show else "default: ") + msg)
        # model
        start, end, mdirs = idx[i]
        mo = dec_diags(m_out[start])
        if mo is None:
            raise vlib.HarnessError("model output unparseable: %s" % m_out[start][:200])
        mkept, madded = mo[:len(non_u)], mo[len(non_u):]
        mvanish = [p for p, o in zip(u, m_out[start + 1:end - 1]) if o == "1"] if mdirs else []
        mmay = m_out[end - 1] == "1" if mdirs else False
        mproblems = []
        for show, real in ((False, r0), (True, r1)):
            mproblems += e2e_compare(mkept, madded, mvanish, mmay, u, real, show)
        # histogram
        cls = "none"
        if dirs and Spec.malformed(dirs[0]):
            cls = "malformed"
        elif any(k[5] == "i" for k in kept) and must_vanish:
            cls = "suppresses-both"
        elif any(k[5] == "i" for k in kept):
            cls = "suppresses"
        elif must_vanish:
            cls = "suppresses-u1000"
        elif any(a[3] == "staticcheck" for a in added):
            cls = "useless-reported"
        elif dirs and Spec.wf(dirs[0]):
            cls = "useless-silent"
        hist["e2e:" + cls] = hist.get("e2e:" + cls, 0) + 1
        hist["e2e:cfg:" + case["config"]] = hist.get("e2e:cfg:" + case["config"], 0) + 1
        if cls != "none":
            nontrivial.add((case["file"], case["line"], case["text"], case["config"]))
        if len(samples) < 5 and i % max(1, len(cases) // 5) == 0:
            samples.append({"case": case, "class": cls, "report_without_show_ignored": [list(p) for p in r0 if p[3] != "U1000"][:6]})
        rec = {"kind": "e2e", "case": case, "directive": dirs[0].obj() if dirs else None,
               "report_default": [list(p) for p in r0], "report_show_ignored": [list(p) for p in r1],
               "expected_kept": [list(k) for k in kept], "expected_added": [list(a) for a in added],
               "expected_u1000_gone": [list(p) for p in must_vanish]}
        if problems:
            rec["key"] = e2e_key(case, sources, base, r0, r1)
            rec["why"] = "; ".join(problems)
            fails.append(rec)
        elif mproblems:
            rec["model_disagreement"] = mproblems
            mism.append(rec)
    return 2 * len(cases), nontrivial, samples, len(cases)


# --------------------------------------------------------------------------- main
HOWTO = {
    "fi": "echo '<line>' | go run -tags verif ./cmd/c10filter (in /verif/harness) gives the real filterIgnored output; "
          "echo '<line>' | lean/.lake/build/bin/c10driver gives the model's; protocol in lean/Verif/C10/Driver.lean",
    "sup": "as for fi (op sup)",
    "e2e": "copy corpus/C10/pkg, insert case.text (indented like the target) above line case.line of case.file, run "
           "`staticcheck -f json [-checks <CONFIGS[case.config]>] [-show-ignored] ./...` and compare with the run on the unmodified copy",
}

KEY_TEXT = {
    "useless-u1000-order": "whether a useless line directive is reported depends on where U1000 stands in its check list",
    "u1000-no-reason": "a U1000 directive without a reason is reported as malformed but still suppresses U1000 problems",
    "u1000-name-match": "a directive whose name matches U1000 only as a glob or in another case does not suppress the U1000 problem on its line",
    "u1000-no-reason+u1000-name-match": "U1000 directives: both the missing-reason and the name-matching deviation",
}


def run(ctx):
    ctx.replay_cases = None
    if ctx.replay:
        rp = json.load(open(ctx.replay))
        ctx.replay_cases = rp.get("cases", [])
    lean_ok, lean_broke = vlib.std_lean_phase(ctx, MODULES, THEOREMS)
    binp = vlib.build_harness(ctx, "c10filter")
    sc = vlib.build_repo_cmd(ctx, "./cmd/staticcheck")
    rc, so, se = vlib.run([sc, "-list-checks"], env=vlib.go_env())
    all_checks = [l.split()[0] for l in so.splitlines() if l.strip()]
    rc2, so2, se2 = vlib.run([binp, "-nondefault"], env=vlib.go_env())
    if rc != 0 or rc2 != 0 or len(all_checks) < 100:
        raise vlib.HarnessError("cannot list checks: %s %s" % (se, se2))
    non_default = set(so2.split())

    rng = vlib.SplitMix(ctx.seed).fork("C10")
    n_fi, n_small, n_e2e = (30000, 4000, 330) if ctx.quick else (300000, 40000, 6000)
    # development knobs (defaults are the fixed case counts above)
    n_e2e = int(os.environ.get("VERIF_C10_E2E", n_e2e))
    n_fi = int(os.environ.get("VERIF_C10_FI", n_fi))
    fails, mism, hist = [], [], {}
    samples = []
    evals = 0
    nontriv = 0
    n_cli = 0
    if ctx.replay_cases is not None:
        lines = [c["line"] for c in ctx.replay_cases if c.get("kind") in ("fi", "sup")]
        if lines:
            impl = run_impl(ctx, binp, lines)
            model = vlib.run_model(ctx, "C10", lines)
            for l, im, mo in zip(lines, impl, model):
                print("replay: impl=%s\n        model=%s" % (im, mo))
                if im != mo:
                    fails.append({"kind": "fi", "key": "replay", "why": "real code and proved model disagree", "line": l, "impl": im, "model": mo})
            evals += len(lines)
    else:
        n, nt, sm = inprocess(ctx, binp, rng.fork("inprocess"), n_fi, n_small, fails, mism, hist)
        evals += n
        nontriv += len(nt)
        samples += sm
    n, nt, sm, n_cli = end_to_end(ctx, sc, rng.fork("e2e"), n_e2e, all_checks, non_default, fails, mism, hist)
    evals += n
    nontriv += len(nt)
    samples += sm

    ctx.coverage.update({
        "evaluations": evals,
        "distinct_nontrivial": nontriv,
        "rule": "in-process: distinct input lines whose real result has an ignored diagnostic, an added directive problem, a "
                "matching glob, a parsed directive or a matching directive; end-to-end: distinct (file, line, directive text, "
                "-checks) placements whose directive is malformed, suppresses something or is a well-formed useless directive",
        "histogram": dict(sorted(hist.items())),
        "samples": samples[:10],
        "cli_cases": n_cli,
        "cli_runs": 2 * n_cli + 2 * len(CONFIGS),
        "configs": CONFIGS,
    })
    ctx.assumptions += [
        "path/filepath.Match is modelled on patterns over letters/digits/*/? only (no brackets, escapes, separators); compared with the real function on generated inputs, not verified",
        "strings.ToLower / strings.Split are modelled on ASCII; compared on generated inputs",
        "go/ast.NewCommentMap (which node a comment is attached to) is not modelled: directives are generated on their own line directly above a statement/declaration, where the attached node starts on the next line; the end-to-end runs check this placement",
        "the U1000 graph itself is outside the model (only its ignore rule u1000Ignores is modelled); U1000 problems other than the named one may disappear, as the statement allows",
        "sorting/deduplication in printDiagnostics is outside C10 (reports are compared as sorted lists)",
        "-checks selection (filterAnalyzerNames) is C11's subject: only the forms all / -NAME / NAME are used to compute the allowed set",
    ]

    known = vlib.load_known_findings("C10")
    by_key = {}
    for f in fails:
        by_key.setdefault(f["key"], []).append(f)
    for key, fs in sorted(by_key.items()):
        fs.sort(key=lambda f: len(json.dumps(f, default=str)))
        obj = {
            "what": KEY_TEXT.get(key, "the real code violates the statement of C10 on this input (class %s)" % key),
            "how_to_replay": HOWTO.get(fs[0]["kind"], ""),
            "count": len(fs), "first": fs[0], "cases": fs[:20],
        }
        if key in known:
            ctx.write_replay("known_%s.json" % key, obj)
            ctx.known_finding("key=%s %s (%d inputs this run)" % (key, known[key], len(fs)))
        else:
            ctx.violation("%s.json" % key, obj, text="C10 [%s]: %d failing inputs, smallest: %s" % (key, len(fs), fs[0]["why"][:600]))
    if not [k for k in by_key if k not in known] and (mism or not lean_ok):
        ctx.violation("correspondence.json", {
            "what": "the Lean model and the real code disagree (or a proof no longer builds) although the statement of C10 held on every explored input",
            "lean": lean_broke, "count": len(mism), "cases": mism[:30],
            "correspondence": "streams fi/sup/pd/glob/lower of c10filter vs c10driver; theorems " + ", ".join(THEOREMS),
        }, nofail=True)
    return vlib.finish(ctx, "proof")


META = {
    "level": "proof",
    "technique": "Lean 4 theorems over a transliterated model of parseDirectives/filterIgnored/ignore matching; executable correspondence in-process (verif hook) and end-to-end metamorphic runs of the real staticcheck binary",
    "text": "ignored_iff, others_unchanged, no_reason_is_error, useless_reported_iff and added_eq are proved for all diagnostic lists, directive lists and check selections over the Lean model of lintcmd's directive handling; the model is tied to the code by running generated (directives, diagnostics, allowed) triples through the real filterIgnored and by inserting directives into a fixed package and comparing the real binary's reports (with and without -show-ignored, several -checks selections) with the model's prediction from the base report.",
    "note": "Trusted: Lean kernel (axioms propext/Classical.choice/Quot.sound), compiled c10driver, harness/cmd/c10filter, the verif hook lintcmd/verif_c10.go (wrappers only), filepath.Match/strings.ToLower/go/ast comment maps (modelled or assumed, compared on generated inputs).",
    "design_ref": "DESIGN.md section 5, C10",
}
