"""C11 — check selection, config inheritance, exit status and formats agree.

Lean: Verif/C11/{Model,Lemmas,Theorems}.lean (model of config.mergeLists/Merge/parseConfigs/
mergeConfigs/normalizeList/Load, the command-line merge, lintcmd.filterAnalyzerNames,
success, and the counting/exit part of printDiagnostics; theorems selection_spec,
inherit_splice, effective_selection, printed_spec, exit_spec, ...).

Tie X, no hooks, three streams, each compared with the model (c11driver) and with an
independent Python evaluation of the documented algebra (the oracle):
  A  load   in-process: the real config.Load on generated directory trees of
            staticcheck.conf files + the real Config.Merge with the command-line list;
  B  merge  in-process: the real lintcmd.Command (`-merge`) on gob-crafted results:
            filterAnalyzerNames on -fail over generated analyzer universes, counting, exit
            status and the four formatters, stdout parsed back;
  C  cli    the real staticcheck binary built from the current tree on a fixed
            "one problem per check" module under generated -checks/-fail/-show-ignored and
            nested staticcheck.conf trees x -f text|stylish|json|sarif, plus the corpus
            (ignored-only module, malformed/useless directives, broken conf, compile
            error) and a few `staticcheck -merge` runs.
"""
import json
import os
import re
import shutil
import threading
import urllib.parse
from concurrent.futures import ThreadPoolExecutor

import vlib

MODULES = ["Verif.C11.Theorems"]
THEOREMS = [
    "Verif.C11.selection_spec",
    "Verif.C11.lastMatch_iff",
    "Verif.C11.all_names_everything",
    "Verif.C11.cat_glob_exact",
    "Verif.C11.prefix_glob",
    "Verif.C11.exact_name",
    "Verif.C11.negation",
    "Verif.C11.case_insensitive",
    "Verif.C11.mergeLists_eq_splice",
    "Verif.C11.merge_assoc",
    "Verif.C11.inherit_splice",
    "Verif.C11.cmdline_is_innermost",
    "Verif.C11.unset_inherits",
    "Verif.C11.effective_selection",
    "Verif.C11.no_unresolved_inherit",
    "Verif.C11.printed_eq_restrict",
    "Verif.C11.printed_spec",
    "Verif.C11.lintPackage_spec",
    "Verif.C11.exit_spec",
    "Verif.C11.exit_zero_or_one",
    "Verif.C11.sarif_exits_zero",
    "Verif.C11.shown_spec",
    "Verif.C11.formats_same_problems",
]
FORMATS = ["text", "stylish", "json", "sarif"]
SPECIAL = ("staticcheck", "compile", "config")
CORPUS = os.path.join(vlib.VERIF, "corpus", "C11")
PKGS = ["", "a", "a/b"]          # packages of the fixture, relative to the module root


# =========================================================================== oracle
# The documented algebra, evaluated independently of the Lean model
# (website/content/docs/configuration/{_index,options}.md, comments of filterAnalyzerNames).

def o_category(name):
    return re.match(r"^[^0-9]*", name).group(0)


def o_names(body, name, known):
    """does list entry `body` (no leading '-', lower case) name check `name`?"""
    if body in ("*", "all"):
        return name in known
    if body.endswith("*"):
        pre = body[:-1]
        if name not in known:
            return False
        if not any(c.isdigit() for c in pre):
            return o_category(name) == pre          # S* names S1000, not SA1000
        return name.startswith(pre)
    return name == body


def o_allowed(sel, name, known_lower):
    """last entry naming `name` decides; nothing names it => not allowed."""
    name = name.lower()
    verdict = False
    for e in sel:
        e = e.lower()
        on = True
        if len(e) > 1 and e[0] == "-":
            on, e = False, e[1:]
        if o_names(e, name, known_lower):
            verdict = on
    return verdict


def o_splice(parent, l):
    out = []
    for e in l:
        if e == "inherit":
            out += parent
        else:
            out.append(e)
    return out


def o_resolve(dflt, levels_innermost_first, cmd):
    """outermost file first; unset / missing inherits; the command line is innermost."""
    cur = dflt
    for lv in reversed(levels_innermost_first):
        if lv["kind"] == "set":
            cur = o_splice(cur or [], lv["checks"])
    if cmd is not None:
        cur = o_splice(cur or [], cmd)
    return cur


def o_exit(fmt, live, fail, known_lower):
    """live: categories of the printed problems that are not ignored."""
    if fmt == "sarif":
        return 0
    for cat in live:
        if cat.lower() in SPECIAL or o_allowed(fail, cat, known_lower):
            return 1
    return 0


def flag_list(val):
    """lintcmd's `list` flag: None = flag not given."""
    if val is None:
        return None
    if val == "":
        return []
    return [e.strip() for e in val.split(",")]


# =========================================================================== model protocol

def xn(s):
    return "x" + s.encode().hex()


def xl(l):
    return "L:" + ",".join(xn(s) for s in l)


def xc(c):
    return "N" if c is None else xl(c)


def xlevel(lv):
    k = lv["kind"]
    if k in ("absent", "dir"):
        return "A"
    if k in ("empty", "other"):
        return "CN"
    if k == "set":
        return "C" + xl(lv["checks"])
    raise vlib.HarnessError("bad level kind %r" % k)


def un_xc(tok):
    if tok == "N":
        return None
    if not tok.startswith("L:"):
        raise vlib.HarnessError("bad model output " + tok)
    body = tok[2:]
    if body == "":
        return []
    return [bytes.fromhex(t[1:]).decode() for t in body.split(",")]


# =========================================================================== output parsers
# every format is parsed back to a sorted list of (file, line, col, code, message)

def canon_file(f, cwd):
    if f in ("", "-"):
        return ""
    return os.path.normpath(os.path.join(cwd, f))


TEXT_TAIL = re.compile(r" \((\S+)\)$")


def parse_text(out, cwd):
    res = []
    pending = None
    for line in out.split("\n"):
        if line.startswith("\t"):          # related information
            continue
        if pending is None and line == "":
            continue
        pending = line if pending is None else pending + "\n" + line
        if not TEXT_TAIL.search(line):
            continue                       # message continues on the next line
        rec, pending = pending, None
        m = re.match(r"^(.*?):(\d+):(\d+): (.*) \((\S+)\)$", rec, re.S)
        if m and "\n" not in m.group(1):
            res.append((canon_file(m.group(1), cwd), int(m.group(2)), int(m.group(3)), m.group(5), m.group(4)))
            continue
        m = re.match(r"^(.*?): (.*) \((\S+)\)$", rec, re.S)
        if not m:
            raise ValueError("text line not understood: %r" % rec)
        res.append((canon_file(m.group(1), cwd), 0, 0, m.group(3), m.group(2)))
    if pending is not None:
        raise ValueError("text output ends inside a problem: %r" % pending)
    return sorted(res)


def parse_stylish(out, cwd):
    res = []
    cur_file = None
    prev = "blank"
    for line in out.split("\n"):
        if line.startswith(" ✖"):
            prev = "stats"
            continue
        if line == "":
            prev = "blank"
            continue
        m = re.match(r"^  \((\d+), (\d+)\)\s+(\S+)\s+(.*)$", line)
        if m and cur_file is not None:
            res.append([cur_file, int(m.group(1)), int(m.group(2)), m.group(3), m.group(4)])
            prev = "diag"
            continue
        if line.startswith("    ("):       # related information
            continue
        if prev == "diag":                 # continuation of a multi-line message
            res[-1][4] += "\n" + line
            continue
        cur_file = canon_file(line, cwd)
        prev = "header"
    return sorted(tuple(r) for r in res)


def parse_json(out, cwd):
    res = []
    sev = {}
    for line in out.split("\n"):
        if not line.strip():
            continue
        j = json.loads(line)
        loc = j["location"]
        t = (canon_file(loc["file"], cwd), loc["line"], loc["column"], j["code"], j["message"])
        res.append(t)
        sev[t] = j.get("severity", "")
    return sorted(res), sev


def parse_sarif(out, cwd):
    j = json.loads(out)
    res = []
    for r in j["runs"][0].get("results") or []:
        pl = r["locations"][0]["physicalLocation"]
        al = pl.get("artifactLocation", {})
        uri = al.get("uri", "")
        if uri.startswith("file://"):
            f = urllib.parse.unquote(urllib.parse.urlparse(uri).path)
        else:
            f = urllib.parse.unquote(uri)
        reg = pl.get("region", {})
        msg = r["message"]["text"]
        k = msg.find("\n\t[")               # related information appended to the text
        if k >= 0 and r.get("relatedLocations"):
            msg = msg[:k]
        res.append((canon_file(f, cwd), reg.get("startLine", 0), reg.get("startColumn", 0), r["ruleId"], msg))
    return sorted(res)


def parse_output(fmt, out, cwd):
    """-> (sorted tuples, json severities or None)"""
    if fmt == "text":
        return parse_text(out, cwd), None
    if fmt == "stylish":
        return parse_stylish(out, cwd), None
    if fmt == "json":
        return parse_json(out, cwd)
    if fmt == "sarif":
        return parse_sarif(out, cwd), None
    raise vlib.HarnessError("format " + fmt)


# =========================================================================== generators

REAL_CATS_HINT = ["S", "SA", "ST", "U", "QF"]


def flip_case(rng, s):
    r = rng.below(100)
    if r < 75:
        return s
    if r < 85:
        return s.lower()
    if r < 92:
        return s.upper()
    return s.swapcase()


def gen_entry(rng, names, inherit_ok, hist):
    cats = sorted({o_category(n) for n in names} | {"S", "SA"})
    r = rng.below(100)
    if r < 12:
        body, kind = "all", "all"
    elif r < 16:
        body, kind = "*", "all"
    elif r < 33:
        body, kind = rng.choice(cats) + "*", "catglob"
    elif r < 38:
        body, kind = rng.choice(["T", "SB", "Q", "X", "SAA", "s", "all"]) + "*", "catglob-odd"
    elif r < 56:
        n = rng.choice(names)
        ds = [i for i, c in enumerate(n) if c.isdigit()]
        if ds:
            cut = ds[0] + 1 + rng.below(len(n) - ds[0])
            body, kind = n[:cut] + "*", "prefixglob"
        else:
            body, kind = n + "*", "catglob"
    elif r < 80:
        body, kind = rng.choice(names), "exact"
    elif r < 88:
        body, kind = rng.choice(["XX999", "foo", "S9999", "SA", "S", "1000", "compile", "staticcheck", "config", "U1", "Inherit"]), "unknown"
    elif r < 92:
        body, kind = rng.choice(["", "-", "**", "S**", "*S", "a*l", "all*", "-*", "S1*0"]), "odd"
    else:
        body, kind = ("inherit", "inherit") if inherit_ok else ("all", "all")
    if kind != "inherit" or rng.chance(1, 10):
        body = flip_case(rng, body)
    neg = rng.chance(35, 100)
    if neg:
        body = "-" + body
    hist[kind + ("-neg" if neg else "")] = hist.get(kind + ("-neg" if neg else ""), 0) + 1
    return body


def gen_list(rng, names, inherit_ok, hist, maxlen=6):
    n = rng.choice([0, 1, 1, 2, 2, 3, 3, 4, 5, maxlen])
    l = [gen_entry(rng, names, inherit_ok, hist) for _ in range(n)]
    if inherit_ok and l and rng.chance(1, 3):
        l[0] = "inherit"
    if len(l) >= 2 and rng.chance(1, 6):      # adjacent duplicate (normalizeList)
        i = rng.below(len(l) - 1)
        l[i + 1] = l[i]
    return l


def cmdline_value(l):
    """a list as the value of -checks= / -fail=; entries never contain commas."""
    return ",".join(l)


def gen_levels(rng, names, hist, n):
    levels = []
    for _ in range(n):
        r = rng.below(100)
        if r < 35:
            lv = {"kind": "absent"}
        elif r < 42:
            lv = {"kind": "empty"}
        elif r < 50:
            lv = {"kind": "other"}
        elif r < 53:
            lv = {"kind": "dir"}
        else:
            lv = {"kind": "set", "checks": gen_list(rng, names, True, hist)}
        hist["level-" + lv["kind"]] = hist.get("level-" + lv["kind"], 0) + 1
        levels.append(lv)
    return levels


FAKE_POOL = ["S1000", "S1001", "S1002", "S1016", "SA1000", "SA1001", "SA1019", "SA2000", "SA4000", "SA4006",
             "SA40061", "ST1000", "ST1003", "U1000", "QF1001", "QF1010", "S10", "SA", "X", "Sa1000x", "S1000A",
             "T1", "s2000", "SAB1", "S2", "A0"]


def gen_universe(rng):
    n = 3 + rng.below(10)
    names = []
    seen = set()
    for c in rng.shuffle(FAKE_POOL):
        if c.lower() in seen:
            continue
        seen.add(c.lower())
        names.append(c)
        if len(names) == n:
            break
    return names


WORDS = ["should omit comparison", "identical expressions", "x is unused", "don't use Yoda conditions",
         "value \"q\" <never> used & lost", "func (T).M is odd", "empty branch (really)", "a: b: c", "100% sure"]


# =========================================================================== helpers

class Collector:
    def __init__(self):
        self.oracle = {}     # class -> list of failing cases (property fails on the real code)
        self.model = {}      # class -> list (model differs from the implementation)
        self.internal = []   # model differs from the oracle (our own machinery is inconsistent)

    def oracle_fail(self, cls, obj):
        self.oracle.setdefault(cls, []).append(obj)

    def model_diff(self, cls, obj):
        self.model.setdefault(cls, []).append(obj)


def probe_lines(probe, mode, arg, cases, timeout=1800):
    inp = "".join(json.dumps(c) + "\n" for c in cases)
    cmd = [probe, mode] + ([arg] if arg else [])
    rc, so, se = vlib.run(cmd, env=vlib.go_env(), input=inp, timeout=timeout)
    if rc != 0:
        raise vlib.HarnessError("c11probe %s failed (%d): %s" % (mode, rc, se[-2000:]))
    out = [json.loads(l) for l in so.splitlines() if l.strip()]
    if len(out) != len(cases):
        raise vlib.HarnessError("c11probe %s: %d results for %d cases; stderr: %s" % (mode, len(out), len(cases), se[-1000:]))
    return out


def chunks(xs, n):
    k = max(1, (len(xs) + n - 1) // n)
    return [xs[i:i + k] for i in range(0, len(xs), k)]


# =========================================================================== phase A: config.Load

def phase_load(ctx, probe, real_names, default_checks, col, cov, replay_cases=None):
    rng = vlib.SplitMix(ctx.seed).fork("C11/load")
    hist = {}
    cases = []
    if replay_cases is not None:
        cases = replay_cases
    else:
        fixed = [
            {"dflt": default_checks, "cmd": ["inherit"], "levels": []},
            {"dflt": default_checks, "cmd": None, "levels": [{"kind": "set", "checks": ["inherit", "ST1000"]}]},
            {"dflt": default_checks, "cmd": ["inherit", "-S*"], "levels": [{"kind": "set", "checks": []}, {"kind": "set", "checks": ["SA*"]}]},
            {"dflt": ["all"], "cmd": ["inherit"], "levels": [{"kind": "set", "checks": ["inherit", "inherit", "-SA1*", "-SA1*"]}, {"kind": "absent"}, {"kind": "other"}, {"kind": "set", "checks": ["S*", "inherit"]}]},
            {"dflt": ["all"], "cmd": ["INHERIT", "-inherit"], "levels": [{"kind": "dir"}, {"kind": "set", "checks": ["-all", "Inherit"]}]},
            {"dflt": None, "cmd": ["inherit", "S1000"], "levels": [{"kind": "empty"}]},
            {"dflt": ["all", "inherit"], "cmd": None, "levels": [{"kind": "absent"}]},
        ]
        n = 1500 if ctx.quick else 20000
        for c in fixed:
            cases.append(dict(c))
        for _ in range(n):
            r = rng.below(100)
            if r < 70:
                dflt = list(default_checks)
            elif r < 90:
                dflt = gen_list(rng, real_names, False, hist)
            elif r < 95:
                dflt = None
            else:
                dflt = gen_list(rng, real_names, True, hist)
            r = rng.below(100)
            if r < 30:
                cmd = ["inherit"]
            elif r < 40:
                cmd = None
            else:
                cmd = gen_list(rng, real_names, True, hist)
            cases.append({"dflt": dflt, "cmd": cmd, "levels": gen_levels(rng, real_names, hist, rng.below(6))})
        for i, c in enumerate(cases):
            c["id"] = i
    base = ctx.path("load", "x")
    base = os.path.dirname(base)
    parts = chunks(cases, min(8, vlib.NCPU))
    with ThreadPoolExecutor(max_workers=len(parts)) as ex:
        results = [r for part in ex.map(lambda p: probe_lines(probe, "load", base, p), parts) for r in part]
    lines = ["load %s %s %s" % (xc(c["dflt"]), xc(c["cmd"]), " ".join(xlevel(l) for l in c["levels"])) for c in cases]
    model = vlib.run_model(ctx, "C11", [l.rstrip() for l in lines])
    known = frozenset(n.lower() for n in real_names)
    probes = real_names + ["foo", "XX999", "inherit", "compile"]
    nontrivial = set()
    list_mismatch = 0
    for c, r, m, line in zip(cases, results, model, lines):
        if m == "bad-op":
            raise vlib.HarnessError("model rejected: " + line)
        mload, meff, mpanic = m.split(" ")
        mload, meff = un_xc(mload), un_xc(meff)
        err = r.get("err", "")
        if err.startswith("error"):
            raise vlib.HarnessError("config.Load failed on a generated tree: %s (%s)" % (err, json.dumps(c)))
        panicked = err.startswith("panic")
        if panicked or mpanic == "1":
            if panicked != (mpanic == "1"):
                col.model_diff("load-panic", {"phase": "load", "case": c, "impl": r, "model": m})
            continue
        eff = r["eff"]
        if eff != meff or r["load"] != mload:
            list_mismatch += 1
        # the observable: which checks the effective list allows
        a_impl = [o_allowed(eff or [], k, known) for k in probes]
        a_model = [o_allowed(meff or [], k, known) for k in probes]
        spec = o_resolve(c["dflt"], c["levels"], c["cmd"])
        a_spec = [o_allowed(spec or [], k, known) for k in real_names]
        if a_impl[:len(real_names)] != a_spec:
            bad = [k for k, x, y in zip(real_names, a_impl, a_spec) if x != y]
            col.oracle_fail("load-selection", {
                "phase": "load", "case": c, "impl_effective_checks": eff, "documented_effective_checks": spec,
                "checks_selected_differently": bad[:20],
                "what": "the list config.Load + Config.Merge compute selects other checks than the documented inheritance algebra"})
        elif a_impl != a_model:
            col.model_diff("load-selection", {"phase": "load", "case": c, "impl": r, "model_eff": meff})
        if a_model[:len(real_names)] != a_spec:
            col.internal.append({"phase": "load", "case": c, "model_eff": meff, "oracle_eff": spec})
        nset = sum(1 for l in c["levels"] if l["kind"] == "set")
        ninh = sum(1 for l in c["levels"] if l["kind"] == "set" and "inherit" in l["checks"])
        if nset >= 2 or ninh >= 1:
            nontrivial.add(line)
    cov["load"] = {"cases": len(cases), "nontrivial": len(nontrivial), "exact_list_differences_not_affecting_selection": list_mismatch,
                   "histogram": hist, "sample": [{"input": cases[i], "impl": results[i], "model": model[i]} for i in (0, 3, len(cases) - 1)][:3]}
    return len(cases), len(nontrivial)


# =========================================================================== phase B: in-process -merge

def gen_merge_cases(ctx, work):
    rng = vlib.SplitMix(ctx.seed).fork("C11/merge")
    hist = {}
    cases = []
    n = 1500 if ctx.quick else 25000

    def diag(i, cat, sev, nopos=False):
        if nopos:
            return {"file": "", "line": 0, "col": 0, "cat": cat, "msg": "problem %d without position" % i, "sev": sev}
        return {"file": os.path.join(work, "f%d.go" % (i % 3)), "line": i + 1, "col": 1 + rng.below(9), "cat": cat,
                "msg": "problem %d %s" % (i, rng.choice(WORDS)), "sev": sev}

    fixed = [
        {"analyzers": ["S1002", "SA4000"], "fail": None, "show_ignored": True, "diags": [diag(0, "S1002", 2)]},
        {"analyzers": ["S1002", "SA4000"], "fail": "", "show_ignored": True, "diags": [diag(0, "S1002", 2)]},
        {"analyzers": ["S1002", "SA4000"], "fail": "S*", "show_ignored": True, "diags": [diag(0, "S1002", 2), diag(1, "SA4000", 0)]},
        {"analyzers": ["S1002", "SA4000"], "fail": "S*", "show_ignored": False, "diags": [diag(0, "S1002", 2), diag(1, "SA4000", 0)]},
        {"analyzers": ["S1000", "SA1000"], "fail": "S*", "show_ignored": False, "diags": [diag(0, "SA1000", 0)]},
        {"analyzers": ["S1000", "SA1000"], "fail": "-all", "show_ignored": False, "diags": [diag(0, "compile", 0, True)]},
        {"analyzers": ["S1000", "SA1000"], "fail": "all,-SA1*,sa1000", "show_ignored": False, "diags": [diag(0, "SA1000", 0), diag(1, "S1000", 2)]},
    ]
    for c in fixed:
        cases.append(c)
    for _ in range(n):
        names = gen_universe(rng)
        r = rng.below(100)
        if r < 12:
            fail = None
        elif r < 18:
            fail = ""
        else:
            fail = cmdline_value(gen_list(rng, names, False, hist))
        show = rng.chance(2, 5)
        diags = []
        if rng.chance(1, 2):
            # map probe: one live problem per analyzer -> the whole -fail map is observable
            for i, nm in enumerate(names):
                diags.append(diag(i, nm, 0))
            hist["shape-map-probe"] = hist.get("shape-map-probe", 0) + 1
        else:
            k = rng.below(8)
            nopos_used = False
            for i in range(k):
                r = rng.below(100)
                if r < 70:
                    cat = flip_case(rng, rng.choice(names))
                elif r < 84:
                    cat = rng.choice(list(SPECIAL) + ["Compile"])
                else:
                    cat = rng.choice(["ZZ9", "foo", "S9999"])
                sev = 2 if rng.chance(3, 10) else 0
                nopos = (not nopos_used) and rng.chance(1, 20)
                nopos_used = nopos_used or nopos
                diags.append(diag(i, cat, sev, nopos))
            hist["shape-random"] = hist.get("shape-random", 0) + 1
        cases.append({"analyzers": names, "fail": fail, "show_ignored": show, "diags": diags})
    return cases, hist


def merge_expected(case, known_lower):
    """oracle for one -merge case: shown problems and, per format, the exit status (None if
    the documented algebra does not say, i.e. a live problem has an unknown category)."""
    shown = [d for d in case["diags"] if d["sev"] != 2 or case["show_ignored"]]
    live = [d["cat"] for d in case["diags"] if d["sev"] != 2]
    decidable = all(c.lower() in known_lower or c.lower() in SPECIAL for c in live)
    fail = flag_list(case["fail"])
    if fail is None:
        fail = ["all"]
    ex = {f: (o_exit(f, live, fail, known_lower) if decidable else None) for f in FORMATS}
    return shown, ex


def diag_tuple(d):
    return (d["file"], d["line"], d["col"], d["cat"], d["msg"])


def phase_merge(ctx, probe, col, cov, replay_cases=None):
    work = os.path.dirname(ctx.path("merge", "x"))
    if replay_cases is not None:
        cases, hist = replay_cases, {}
    else:
        cases, hist = gen_merge_cases(ctx, work)
    # one sub-case per format
    subs = []
    for i, c in enumerate(cases):
        for f in FORMATS:
            s = dict(c)
            s["format"] = f
            s["id"] = len(subs)
            s["_case"] = i
            subs.append(s)
    parts = chunks(subs, min(8, vlib.NCPU))

    def runpart(arg):
        k, part = arg
        wd = os.path.join(work, "w%d" % k)
        os.makedirs(wd, exist_ok=True)
        return probe_lines(probe, "merge", wd, [{kk: v for kk, v in s.items() if kk != "_case"} for s in part])

    with ThreadPoolExecutor(max_workers=len(parts)) as ex:
        results = [r for part in ex.map(runpart, list(enumerate(parts))) for r in part]
    lines = []
    for s in subs:
        fail = flag_list(s["fail"])
        if fail is None:
            fail = ["all"]
        lines.append("exit %s %s %d 0 %s D:%s" % (xl(s["analyzers"]), xl(fail), 1 if s["show_ignored"] else 0, s["format"],
                                                   ",".join("%s/%d" % (xn(d["cat"]), 1 if d["sev"] == 2 else 0) for d in s["diags"])))
    model = vlib.run_model(ctx, "C11", lines)
    nontrivial = set()
    per_case = {}
    sev_suspects = []
    for s, r, m, line in zip(subs, results, model, lines):
        if m == "bad-op":
            raise vlib.HarnessError("model rejected: " + line)
        mexit, _, _, _, mshown = m.split(" ")
        mexit = int(mexit)
        mshown = mshown[1:]
        case = cases[s["_case"]]
        known = frozenset(n.lower() for n in case["analyzers"])
        shown, oexit = merge_expected(case, known)
        fmt = s["format"]
        exp = sorted(diag_tuple(d) for d in shown)
        mexp = sorted(diag_tuple(d) for d, ch in zip(case["diags"], mshown) if ch != "-")
        if exp != mexp or (oexit[fmt] is not None and oexit[fmt] != mexit):
            col.internal.append({"phase": "merge", "case": case, "format": fmt, "model": m, "oracle_exit": oexit[fmt]})
        try:
            got, sev = parse_output(fmt, r["out"], os.path.join(work, "w0"))
        except (ValueError, KeyError, IndexError) as e:
            col.oracle_fail("merge-format-unparsable", {"phase": "merge", "case": case, "format": fmt, "stdout": r["out"][:2000], "error": str(e),
                                                        "what": "output of -f %s cannot be parsed back to problems" % fmt})
            continue
        per_case.setdefault(s["_case"], {})[fmt] = got
        rec = {"phase": "merge", "case": case, "format": fmt, "exit_status": r["rc"], "printed": got}
        if got != exp:
            rec["expected_printed"] = exp
            rec["what"] = "-f %s does not render exactly the problems to be shown (all problems, ignored ones only under -show-ignored)" % fmt
            col.oracle_fail("merge-printed-" + fmt, rec)
        if oexit[fmt] is not None and r["rc"] != oexit[fmt]:
            rec = dict(rec)
            rec["expected_exit_status"] = oexit[fmt]
            live_fail = [d["cat"] for d in case["diags"] if d["sev"] != 2]
            rec["what"] = ("exit status %d, but per the property it is %d: live problems %s, -fail %r, format %s, ignored problems %s"
                           % (r["rc"], oexit[fmt], live_fail, case["fail"], fmt, [d["cat"] for d in case["diags"] if d["sev"] == 2]))
            cls = "merge-exit-ignored-counted" if (case["show_ignored"] and any(d["sev"] == 2 for d in case["diags"])) else "merge-exit"
            col.oracle_fail(cls, rec)
        elif r["rc"] != mexit:
            col.model_diff("merge-exit", {"phase": "merge", "case": case, "format": fmt, "impl_exit": r["rc"], "model": m})
        if sev is not None:
            for d, ch in zip(case["diags"], mshown):
                if ch in "ew":
                    s_impl = sev.get(diag_tuple(d))
                    if s_impl is not None and s_impl != {"e": "error", "w": "warning"}[ch]:
                        sev_suspects.append({"phase": "merge", "case": case, "cat": d["cat"], "impl_severity": s_impl, "model": ch})
        mp = set(mshown)
        if ("e" in mp and "w" in mp) or (case["show_ignored"] and "i" in mp):
            nontrivial.add((json.dumps(case["analyzers"]), case["fail"], case["show_ignored"], mshown))
    for i, byfmt in per_case.items():
        if len(byfmt) == len(FORMATS) and len({json.dumps(v) for v in byfmt.values()}) > 1:
            col.oracle_fail("merge-formats-disagree", {"phase": "merge", "case": cases[i], "printed_by_format": byfmt,
                                                       "what": "text, stylish, JSON and SARIF do not render the same set of problems"})
    # severity in JSON is how the -fail map shows for all analyzers at once; it is not part of
    # the statement, so a difference is followed up through the exit status of one-problem runs
    if sev_suspects and not col.oracle:
        follow = []
        seen = set()
        for sdiff in sev_suspects:
            c = sdiff["case"]
            key = (json.dumps(c["analyzers"]), c["fail"], sdiff["cat"])
            if key in seen or len(follow) >= 400:
                continue
            seen.add(key)
            follow.append({"analyzers": c["analyzers"], "fail": c["fail"], "show_ignored": False, "format": "text", "id": len(follow),
                           "diags": [{"file": os.path.join(work, "f0.go"), "line": 1, "col": 1, "cat": sdiff["cat"], "msg": "probe", "sev": 0}]})
        fres = probe_lines(probe, "merge", os.path.join(work, "w0"), follow)
        found = False
        for c, r in zip(follow, fres):
            known = frozenset(n.lower() for n in c["analyzers"])
            _, oexit = merge_expected(c, known)
            if oexit["text"] is not None and r["rc"] != oexit["text"]:
                found = True
                col.oracle_fail("merge-exit", {"phase": "merge", "case": {k: v for k, v in c.items() if k not in ("id", "format")}, "format": "text",
                                               "exit_status": r["rc"], "expected_exit_status": oexit["text"],
                                               "what": "one live problem of check %s with -fail %r exits %d" % (c["diags"][0]["cat"], c["fail"], r["rc"])})
        if not found:
            col.model_diff("merge-severity", sev_suspects[0])
    cov["merge"] = {"cases": len(cases), "executions_of_real_command": len(subs), "nontrivial": len(nontrivial), "histogram": hist,
                    "sample": [{"input": {k: v for k, v in subs[i].items() if k != "_case"}, "impl_rc": results[i]["rc"], "model": model[i]}
                               for i in (0, min(len(subs) - 1, 41))]}
    return len(subs), len(nontrivial)


# =========================================================================== phase C: the real binary

_tls = threading.local()
_cache_counter = [0]
_cache_lock = threading.Lock()


def worker_cache(ctx):
    if not hasattr(_tls, "cache"):
        with _cache_lock:
            _cache_counter[0] += 1
            k = _cache_counter[0]
        _tls.cache = os.path.dirname(ctx.path("sccache%d" % k, "x"))
    return _tls.cache


def run_sc(ctx, binary, cwd, args, timeout=600):
    env = vlib.go_env({"STATICCHECK_CACHE": worker_cache(ctx)})
    rc, so, se = vlib.run([binary] + args, cwd=cwd, env=env, timeout=timeout)
    return rc, so, se


def write_tree(root, files):
    for rel, content in files.items():
        p = os.path.join(root, rel)
        os.makedirs(os.path.dirname(p), exist_ok=True)
        with open(p, "w") as f:
            f.write(content)


def conf_text(lv):
    k = lv["kind"]
    if k == "empty":
        return ""
    if k == "other":
        return "# no checks here\nhttp_status_code_whitelist = [\"200\"]\n"
    if k == "set":
        def q(s):
            return '"' + s.replace("\\", "\\\\").replace('"', '\\"') + '"'
        return "checks = [" + ", ".join(q(c) for c in lv["checks"]) + "]\n"
    raise vlib.HarnessError("conf_text " + k)


def fixture_files():
    src = open(os.path.join(CORPUS, "fixture", "p.go.txt")).read()
    gomod = open(os.path.join(CORPUS, "fixture", "go.mod.txt")).read()
    files = {"mod/go.mod": gomod}
    for p in PKGS:
        files[os.path.join("mod", p, "p.go")] = src
    return files


def no_conf_above(path):
    d = os.path.abspath(path)
    while True:
        if os.path.exists(os.path.join(d, "staticcheck.conf")):
            raise vlib.HarnessError("a staticcheck.conf in %s would take part in every directory walk" % d)
        nd = os.path.dirname(d)
        if nd == d:
            return
        d = nd


def rel_tuples(tuples, root):
    out = []
    for (f, l, c, code, msg) in tuples:
        out.append((os.path.relpath(f, root) if f else "", l, c, code, msg))
    return sorted(out)


def gen_cli_cases(ctx, real_names, fixture_codes):
    rng = vlib.SplitMix(ctx.seed).fork("C11/cli")
    hist = {}
    n = 22 if ctx.quick else 500
    # names the generator draws from: the checks the fixture has problems for, and a few others
    names = sorted(set(fixture_codes) | {"S1000", "SA4006", "SA1019", "ST1005", "S1008", "SA9004"})
    names = [x for x in names if x in real_names]
    cases = [
        {"levels": [{"kind": "absent"}] * 4, "checks": None, "fail": None, "show_ignored": False},
        {"levels": [{"kind": "absent"}] * 4, "checks": "all", "fail": "SA4018,U1000", "show_ignored": True},
        {"levels": [{"kind": "set", "checks": ["inherit", "-S*"]}, {"kind": "set", "checks": ["SA4*", "inherit"]}, {"kind": "empty"},
                    {"kind": "set", "checks": ["all", "-ST*"]}], "checks": "inherit,st1000", "fail": "S*", "show_ignored": False},
    ]
    for _ in range(n):
        levels = gen_levels(rng, names, hist, 4)     # b, a, mod, top
        r = rng.below(100)
        if r < 35:
            checks = None
        elif r < 40:
            checks = ""
        else:
            checks = cmdline_value(gen_list(rng, names, True, hist, maxlen=4))
        r = rng.below(100)
        if r < 30:
            fail = None
        elif r < 38:
            fail = ""
        else:
            fail = cmdline_value(gen_list(rng, names, False, hist, maxlen=4))
        cases.append({"levels": levels, "checks": checks, "fail": fail, "show_ignored": rng.chance(35, 100)})
    for i, c in enumerate(cases):
        c["id"] = i
    return cases, hist


def cli_args(c, fmt):
    a = ["-f=" + fmt]
    if c.get("checks") is not None:
        a.append("-checks=" + c["checks"])
    if c.get("fail") is not None:
        a.append("-fail=" + c["fail"])
    if c.get("show_ignored"):
        a.append("-show-ignored")
    return a + ["./..."]


LEVEL_DIRS = ["mod/a/b", "mod/a", "mod", ""]        # innermost first; "" = top


def phase_cli(ctx, binary, probe, real_names, default_checks, col, cov, replay=None):
    base = os.path.dirname(ctx.path("cli", "x"))
    no_conf_above(base)
    known = frozenset(n.lower() for n in real_names)
    files = fixture_files()

    # ---- reference: every problem of every check, and which of them are ignored
    ref = os.path.join(base, "ref", "top")
    write_tree(ref, files)
    refmod = os.path.join(ref, "mod")
    rc, so, se = run_sc(ctx, binary, refmod, ["-f=json", "-checks=all", "-show-ignored", "./..."])
    if rc not in (0, 1):
        raise vlib.HarnessError("reference run failed: rc=%d %s" % (rc, se[-1000:]))
    u_all = rel_tuples(parse_json(so, refmod)[0], refmod)
    rc, so, se = run_sc(ctx, binary, refmod, ["-f=json", "-checks=all", "./..."])
    u_live = rel_tuples(parse_json(so, refmod)[0], refmod)
    ignored = sorted(set(u_all) - set(u_live))
    fixture_codes = sorted({t[3] for t in u_all})
    if not u_all or any(t[3] in SPECIAL for t in u_all):
        raise vlib.HarnessError("fixture does not lint cleanly: %s %s" % (u_all[:3], se[-500:]))
    upkg = {p: [t for t in u_all if os.path.dirname(t[0]) == p] for p in PKGS}
    cov["fixture"] = {"problems": len(u_all), "ignored": len(ignored), "checks": fixture_codes}

    # ---- cases
    if replay is not None:
        cases, hist = replay, {}
    else:
        cases, hist = gen_cli_cases(ctx, real_names, fixture_codes)
    jobs = []
    for c in cases:
        root = os.path.join(base, "r%d" % c["id"], "top")
        fs = dict(files)
        for lv, d in zip(c["levels"], LEVEL_DIRS):
            if lv["kind"] == "absent":
                continue
            if lv["kind"] == "dir":
                os.makedirs(os.path.join(root, d, "staticcheck.conf"), exist_ok=True)
                continue
            fs[os.path.join(d, "staticcheck.conf")] = conf_text(lv)
        write_tree(root, fs)
        for f in FORMATS:
            jobs.append((c, f, os.path.join(root, "mod")))

    def one(job):
        c, f, cwd = job
        rc, so, se = run_sc(ctx, binary, cwd, cli_args(c, f))
        return rc, so, se

    with ThreadPoolExecutor(max_workers=min(8, vlib.NCPU)) as ex:
        results = list(ex.map(one, jobs))

    # ---- model: load per package, success per package, exit per format
    lines1 = []
    for c in cases:
        cmd = flag_list(c["checks"]) if c["checks"] is not None else ["inherit"]
        if c["checks"] == "":
            cmd = None
        for pi, p in enumerate(PKGS):
            lv = c["levels"][len(PKGS) - 1 - pi:]
            lines1.append("load %s %s %s" % (xl(default_checks), xc(cmd), " ".join(xlevel(l) for l in lv)))
    m1 = vlib.run_model(ctx, "C11", lines1)
    lines2 = []
    for ci, c in enumerate(cases):
        for pi, p in enumerate(PKGS):
            eff = m1[ci * len(PKGS) + pi].split(" ")[1]
            if eff == "N":
                eff = "L:"
            cats = [t[3] for t in upkg[p] if t[3] != "U1000"]
            nun = sum(1 for t in upkg[p] if t[3] == "U1000")
            lines2.append("success %s %s %s %d" % (xl(real_names), eff, xl(cats), nun))
    m2 = vlib.run_model(ctx, "C11", lines2)
    model_printed = []
    for ci, c in enumerate(cases):
        sel = []
        for pi, p in enumerate(PKGS):
            out = m2[ci * len(PKGS) + pi]
            bits, ubit = out[1:].split("/")
            non_u = [t for t in upkg[p] if t[3] != "U1000"]
            sel += [t for t, b in zip(non_u, bits) if b == "1"]
            if ubit == "1":
                sel += [t for t in upkg[p] if t[3] == "U1000"]
        model_printed.append(sorted(sel))
    lines3 = []
    for ci, c in enumerate(cases):
        fail = flag_list(c["fail"]) if c["fail"] is not None else ["all"]
        for f in FORMATS:
            lines3.append("exit %s %s %d 0 %s D:%s" % (xl(real_names), xl(fail), 1 if c["show_ignored"] else 0, f,
                                                        ",".join("%s/%d" % (xn(t[3]), 1 if t in ignored else 0) for t in model_printed[ci])))
    m3 = vlib.run_model(ctx, "C11", lines3)

    nontrivial = set()
    k = 0
    for ci, c in enumerate(cases):
        # oracle: documented algebra, per package
        cmd = None if c["checks"] in (None, "") else flag_list(c["checks"])
        if c["checks"] is None:
            cmd = ["inherit"]
        fail = flag_list(c["fail"]) if c["fail"] is not None else ["all"]
        exp_sel = []
        effs = {}
        for pi, p in enumerate(PKGS):
            lv = c["levels"][len(PKGS) - 1 - pi:]
            eff = o_resolve(default_checks, lv, cmd) or []
            effs[p or "."] = eff
            exp_sel += [t for t in upkg[p] if o_allowed(eff, t[3], known)]
        exp_sel = sorted(exp_sel)
        exp_shown = sorted(t for t in exp_sel if c["show_ignored"] or t not in ignored)
        exp_live = [t[3] for t in exp_sel if t not in ignored]
        if exp_sel != model_printed[ci]:
            col.internal.append({"phase": "cli", "case": c, "model_selected": model_printed[ci], "oracle_selected": exp_sel})
        byfmt = {}
        for f in FORMATS:
            (cc, ff, cwd), (rc, so, se) = jobs[k], results[k]
            mexit = int(m3[k].split(" ")[0])
            mshown_s = m3[k].split(" ")[4][1:]
            k += 1
            rec = {"phase": "cli", "case": c, "format": f, "args": cli_args(c, f), "exit_status": rc,
                   "effective_checks_documented": effs, "stderr": se[-600:]}
            if rc not in (0, 1):
                col.oracle_fail("cli-crash", dict(rec, what="staticcheck exited %d" % rc))
                continue
            try:
                got = rel_tuples(parse_output(f, so, cwd)[0], cwd)
            except (ValueError, KeyError, IndexError) as e:
                col.oracle_fail("cli-format-unparsable", dict(rec, stdout=so[:2000], error=str(e), what="-f %s output cannot be parsed back" % f))
                continue
            byfmt[f] = got
            rec["printed"] = got
            mshown = sorted(t for t, ch in zip(model_printed[ci], mshown_s) if ch != "-")
            if got != exp_shown:
                missing = sorted(set(exp_shown) - set(got))
                extra = sorted(set(got) - set(exp_shown))
                col.oracle_fail("cli-printed", dict(rec, expected_printed=exp_shown, missing=missing, unexpected=extra,
                                what="the problems printed are not all problems restricted to the documented selection: missing %s, unexpected %s"
                                     % ([(t[0], t[3]) for t in missing][:6], [(t[0], t[3]) for t in extra][:6])))
            elif got != mshown:
                col.model_diff("cli-printed", dict(rec, model_printed=mshown))
            oexit = o_exit(f, exp_live, fail, known)
            # the exit-status clause is evaluated on what the run itself printed
            live_printed = [t[3] for t in got if t not in ignored]
            oexit_obs = o_exit(f, live_printed, fail, known)
            if rc != oexit_obs:
                cls = "cli-exit-ignored-counted" if (c["show_ignored"] and any(t in ignored for t in got)) else "cli-exit"
                col.oracle_fail(cls, dict(rec, expected_exit_status=oexit_obs, live_problems=live_printed,
                                ignored_problems_shown=[t[3] for t in got if t in ignored],
                                what="exit status %d; per the property %d (-fail %r, format %s, live problems %s, ignored shown %s)"
                                     % (rc, oexit_obs, c["fail"], f, sorted(set(live_printed)), sorted({t[3] for t in got if t in ignored}))))
            elif rc != mexit and got == exp_shown:
                col.model_diff("cli-exit", dict(rec, model=m3[k - 1]))
            if oexit != mexit:
                col.internal.append({"phase": "cli", "case": c, "format": f, "model_exit": mexit, "oracle_exit": oexit})
        if len(byfmt) == len(FORMATS) and len({json.dumps(v) for v in byfmt.values()}) > 1:
            col.oracle_fail("cli-formats-disagree", {"phase": "cli", "case": c, "printed_by_format": byfmt,
                                                     "what": "text, stylish, JSON and SARIF do not render the same set of problems"})
        per_pkg = [len([t for t in exp_sel if os.path.dirname(t[0]) == p]) for p in PKGS]
        if any(0 < n < len(upkg[p]) for n, p in zip(per_pkg, PKGS)):
            nontrivial.add(c["id"])
    cov["cli"] = {"cases": len(cases), "runs_of_real_binary": len(jobs) + 2, "nontrivial": len(nontrivial), "histogram": hist,
                  "sample": [{"case": cases[i], "exit_text": results[i * 4][0]} for i in (1, 2, min(len(cases) - 1, 5)) if i < len(cases)]}
    return len(jobs) + 2, len(nontrivial)


def phase_corpus(ctx, binary, real_names, col, cov):
    """fixed modules: ignored-only (DESIGN §6 row 7), directive / config / compile problems."""
    base = os.path.dirname(ctx.path("corpus", "x"))
    no_conf_above(base)
    known = frozenset(n.lower() for n in real_names)
    cases = json.load(open(os.path.join(CORPUS, "cases.json")))
    jobs = []
    for i, c in enumerate(cases):
        root = os.path.join(base, "k%d" % i)
        write_tree(root, c["files"])
        for f in FORMATS:
            jobs.append((i, f, root, ["-f=" + f] + c["args"] + ["./..."]))
        # companion: the live problems (= printed without -show-ignored)
        if "-show-ignored" in c["args"]:
            jobs.append((i, "live", root, ["-f=json"] + [a for a in c["args"] if a != "-show-ignored"] + ["./..."]))

    def one(job):
        i, f, root, args = job
        return run_sc(ctx, binary, root, args)

    with ThreadPoolExecutor(max_workers=min(8, vlib.NCPU)) as ex:
        results = list(ex.map(one, jobs))
    by = {}
    for (i, f, root, args), (rc, so, se) in zip(jobs, results):
        by.setdefault(i, {})[f] = (rc, so, se, root, args)
    for i, c in enumerate(cases):
        rc, so, se, root, args = by[i].get("live") or by[i]["json"]
        if rc not in (0, 1):
            col.oracle_fail("corpus-crash", {"phase": "corpus", "case": c["name"], "args": args, "exit_status": rc, "stderr": se[-800:], "what": "staticcheck exited %d" % rc})
            continue
        live = rel_tuples(parse_json(so, root)[0], root)
        fail = ["all"]
        for a in c["args"]:
            if a.startswith("-fail="):
                fail = flag_list(a[len("-fail="):])
        byfmt = {}
        for f in FORMATS:
            rc, so, se, root, args = by[i][f]
            rec = {"phase": "corpus", "case": c["name"], "why": c["why"], "args": args, "format": f, "exit_status": rc, "files": c["files"]}
            if rc not in (0, 1):
                col.oracle_fail("corpus-crash", dict(rec, stderr=se[-800:], what="staticcheck exited %d" % rc))
                continue
            try:
                got = rel_tuples(parse_output(f, so, root)[0], root)
            except (ValueError, KeyError, IndexError) as e:
                col.oracle_fail("corpus-format-unparsable", dict(rec, stdout=so[:2000], error=str(e), what="-f %s output cannot be parsed back" % f))
                continue
            byfmt[f] = got
            rec["printed"] = got
            codes = sorted(t[3] for t in got)
            if codes != sorted(c["expect_codes"]):
                col.oracle_fail("corpus-printed", dict(rec, expected_codes=c["expect_codes"], what="%s: printed checks %s, expected %s" % (c["name"], codes, c["expect_codes"])))
            live_printed = [t[3] for t in got if t in live]
            oexit = o_exit(f, live_printed, fail, known)
            if rc != oexit:
                shown_ign = [t[3] for t in got if t not in live]
                cls = "cli-exit-ignored-counted" if shown_ign else "cli-exit"
                col.oracle_fail(cls, dict(rec, expected_exit_status=oexit, live_problems=live_printed, ignored_problems_shown=shown_ign,
                                what="%s: exit status %d; per the property %d (live problems %s, ignored problems shown %s, -fail %s)"
                                     % (c["name"], rc, oexit, live_printed, shown_ign, fail)))
        if len(byfmt) == len(FORMATS) and len({json.dumps(v) for v in byfmt.values()}) > 1:
            col.oracle_fail("cli-formats-disagree", {"phase": "corpus", "case": c["name"], "printed_by_format": byfmt,
                                                     "what": "text, stylish, JSON and SARIF do not render the same set of problems"})
    cov["corpus"] = {"cases": [c["name"] for c in cases], "runs_of_real_binary": len(jobs)}
    return len(jobs)


def phase_binary_merge(ctx, binary, probe, real_names, col, cov):
    """`staticcheck -merge` of the real binary (real analyzer set) on a few crafted results."""
    rng = vlib.SplitMix(ctx.seed).fork("C11/binmerge")
    base = os.path.dirname(ctx.path("binmerge", "x"))
    known = frozenset(n.lower() for n in real_names)
    hist = {}
    n = 6 if ctx.quick else 120
    cases = []
    pool = ["S1002", "S1005", "SA4000", "SA4018", "SA5007", "ST1000", "ST1006", "U1000", "SA9003", "compile", "config", "staticcheck"]
    for i in range(n):
        diags = []
        for j in range(1 + rng.below(6)):
            diags.append({"file": os.path.join(base, "f%d.go" % (j % 2)), "line": j + 1, "col": 1 + rng.below(5), "cat": rng.choice(pool),
                          "msg": "problem %d %s" % (j, rng.choice(WORDS)), "sev": 2 if rng.chance(3, 10) else 0})
        fail = None if rng.chance(1, 5) else cmdline_value(gen_list(rng, pool[:9], False, hist, maxlen=3))
        cases.append({"id": i, "path": os.path.join(base, "in%d.gob" % i), "diags": diags, "fail": fail, "show_ignored": rng.chance(1, 2)})
    probe_lines(probe, "gob", None, [{"path": c["path"], "diags": c["diags"]} for c in cases])
    jobs = [(c, f) for c in cases for f in FORMATS]

    def one(job):
        c, f = job
        args = ["-merge", "-f=" + f]
        if c["fail"] is not None:
            args.append("-fail=" + c["fail"])
        if c["show_ignored"]:
            args.append("-show-ignored")
        return run_sc(ctx, binary, base, args + [c["path"]])

    with ThreadPoolExecutor(max_workers=min(8, vlib.NCPU)) as ex:
        results = list(ex.map(one, jobs))
    for (c, f), (rc, so, se) in zip(jobs, results):
        cc = {"analyzers": real_names, "fail": c["fail"], "show_ignored": c["show_ignored"], "diags": c["diags"]}
        shown, oexit = merge_expected(cc, known)
        rec = {"phase": "binmerge", "case": {k: v for k, v in c.items() if k != "path"}, "format": f, "exit_status": rc,
               "how": "c11probe gob writes the lintResult; staticcheck -merge -f=%s [-fail=…] [-show-ignored] file" % f}
        if rc not in (0, 1):
            col.oracle_fail("binmerge-crash", dict(rec, stderr=se[-800:], what="staticcheck -merge exited %d" % rc))
            continue
        try:
            got = parse_output(f, so, base)[0]
        except (ValueError, KeyError, IndexError) as e:
            col.oracle_fail("merge-format-unparsable", dict(rec, stdout=so[:2000], error=str(e), what="-f %s output cannot be parsed back" % f))
            continue
        exp = sorted(diag_tuple(d) for d in shown)
        if got != exp:
            col.oracle_fail("merge-printed-" + f, dict(rec, printed=got, expected_printed=exp, what="staticcheck -merge -f %s does not print exactly the problems to be shown" % f))
        if oexit[f] is not None and rc != oexit[f]:
            cls = "merge-exit-ignored-counted" if (c["show_ignored"] and any(d["sev"] == 2 for d in c["diags"])) else "merge-exit"
            col.oracle_fail(cls, dict(rec, expected_exit_status=oexit[f], what="staticcheck -merge exits %d, per the property %d" % (rc, oexit[f])))
    cov["binary_merge"] = {"cases": len(cases), "runs_of_real_binary": len(jobs)}
    return len(jobs)


# =========================================================================== run

def run(ctx):
    lean_ok, lean_broke = vlib.std_lean_phase(ctx, MODULES, THEOREMS)
    probe = vlib.build_harness(ctx, "c11probe")
    binary = vlib.build_repo_cmd(ctx, "./cmd/staticcheck")

    rc, so, se = vlib.run([probe, "analyzers"], env=vlib.go_env())
    if rc != 0 or not so.strip():
        raise vlib.HarnessError("c11probe analyzers failed: " + se[-1000:])
    real_names, nondefault = [], []
    for l in so.split("\n"):
        if l.strip():
            n, nd = l.split()
            real_names.append(n)
            if nd == "1":
                nondefault.append(n)
    default_checks = ["all"] + ["-" + n for n in sorted(nondefault)]

    col = Collector()
    cov = {}
    import time
    timing = {"lean_and_builds_s": round(time.time() - ctx.t0, 1)}

    def timed(name, f, *a):
        t = time.time()
        r = f(*a)
        timing[name + "_s"] = round(time.time() - t, 1)
        return r
    replay = None
    if ctx.replay:
        replay = json.load(open(ctx.replay))
    evaluations = 0
    nontrivial = 0

    ph = replay.get("phase") if replay else None
    rcases = replay.get("cases") if replay else None
    if ph in (None, "load"):
        e, n = timed("load", phase_load, ctx, probe, real_names, default_checks, col, cov, rcases)
        evaluations += e
        nontrivial += n
    if ph in (None, "merge"):
        e, n = timed("merge", phase_merge, ctx, probe, col, cov, rcases)
        evaluations += e
        nontrivial += n
    if ph in (None, "corpus"):
        evaluations += timed("corpus", phase_corpus, ctx, binary, real_names, col, cov)
    if ph in (None, "cli"):
        e, n = timed("cli", phase_cli, ctx, binary, probe, real_names, default_checks, col, cov, rcases)
        evaluations += e
        nontrivial += n
    if ph in (None, "binmerge"):
        evaluations += timed("binmerge", phase_binary_merge, ctx, binary, probe, real_names, col, cov)

    if col.internal:
        raise vlib.HarnessError("the Lean model and the Python oracle disagree with each other (check machinery is inconsistent): %s"
                                % json.dumps(col.internal[0])[:3000])

    samples = []
    for ph in ("load", "merge", "cli"):
        if ph in cov and "sample" in cov[ph]:
            samples += [{"phase": ph, **s} for s in cov[ph].pop("sample")][:2]
    ctx.coverage.update({
        "evaluations": evaluations,
        "distinct_nontrivial": nontrivial,
        "rule": "load: >=2 files set `checks` or one uses \"inherit\"; merge: the -fail map splits the shown problems into errors and warnings, "
                "or an ignored problem is shown; cli: some package prints a non-empty proper subset of its problems",
        "samples": samples,
        "phases": cov,
        "timing": timing,
        "real_analyzers": len(real_names),
        "default_checks": default_checks,
    })
    ctx.assumptions += [
        "check names and list entries are ASCII (strings.ToLower = Char.toLower, unicode.IsNumber = isDigit); the generators respect it",
        "TOML decoding (BurntSushi/toml), flag parsing of the comma separated lists (lintcmd.list.Set, mirrored in Python flag_list), "
        "go/packages and the analyzers themselves are outside the model; they are exercised by the runs",
        "which problems are ignored is C10's subject: here it is read off the real runs (printed with minus printed without -show-ignored)",
        "the order of problems and the merging of duplicates are C12's subject: outputs are compared as sorted lists of distinct problems",
        "the four formatters have no Lean counterpart: the formats clause is checked by parsing the real outputs back (correspondence only)",
        "-debug.no-compile-errors is modelled (noCompile) but not exercised",
    ]

    how = ("./check C11 --replay <this file> re-runs the listed cases; by hand: phase load = harness/cmd/c11probe load <dir> (JSON case on stdin), "
           "phase merge = c11probe merge <dir>, phase cli/corpus = build ./cmd/staticcheck, write corpus/C11/fixture (p.go into mod, mod/a, mod/a/b; "
           "staticcheck.conf per `levels` b,a,mod,top) and run `staticcheck <args>` in mod")
    for cls, fails in sorted(col.oracle.items()):
        first = fails[0]
        phase = first.get("phase")
        rcases = None
        if phase in ("load", "merge", "cli"):
            seen, rcases = set(), []
            for f in fails:
                key = json.dumps(f["case"], sort_keys=True)
                if key not in seen and len(rcases) < 25 and isinstance(f["case"], dict):
                    seen.add(key)
                    rcases.append(f["case"])
        obj = {"property": "C11", "class": cls, "phase": phase, "what": first.get("what", cls), "how_to_replay": how,
               "count": len(fails), "first": first, "more": fails[1:6]}
        if rcases is not None:
            obj["cases"] = rcases
        ctx.violation("%s.json" % cls, obj, text="C11 %s: %d failing evaluations, e.g. %s" % (cls, len(fails), first.get("what", "")))
    if not col.oracle and (col.model or not lean_ok):
        first_cls = sorted(col.model)[0] if col.model else None
        ctx.violation("correspondence.json", {
            "what": "the model no longer corresponds to the code (or a proof no longer checks); the oracle holds on everything explored, "
                    "including the targeted follow-up runs",
            "lean": lean_broke,
            "streams": {k: {"count": len(v), "first": v[0]} for k, v in sorted(col.model.items())},
            "correspondence": "C11 stream %s; theorems %s" % (first_cls, ", ".join(THEOREMS)),
        }, nofail=True)
    return vlib.finish(ctx, "proof")


META = {
    "level": "proof",
    "technique": "Lean 4 theorems over a transliterated model of config merging, filterAnalyzerNames, success and the exit-status computation; "
                 "executable correspondence in-process (config.Load on generated trees, lintcmd.Command -merge on crafted results) and end-to-end "
                 "(the staticcheck binary on a fixed module under generated -checks/-fail/conf trees x 4 formats)",
    "text": "selection_spec, effective_selection, printed_spec and exit_spec are proved for all analyzer sets, lists, directory walks and problem lists; "
            "the model is tied to the code by three correspondence streams, and the property itself (documented algebra evaluated independently in Python) "
            "is evaluated on every real output.",
    "note": "Trusted: Lean kernel (axioms propext/Classical.choice/Quot.sound), c11driver (compiled model), harness/cmd/c11probe, the output parsers "
            "of checks/c11.py. No hook in /repo is used.",
    "design_ref": "DESIGN.md section 5, C11; section 6 row 7",
}
